#!/bin/bash
# tools/determinism.sh <Cxx> [runs] [seed] -- runs the same seeded batch of one profile three times, with 16, 5 and 1
# worker processes, and compares per case: plan hash, outcome, I/O event-log hash, API transcript hash, disk hash,
# number of events and of executed ops.  Prints the number of differing cases (must be 0).
P="$1"; N="${2:-2000}"; S="${3:-1}"
V="$(cd "$(dirname "$0")/.." && pwd)"
T="$(mktemp -d /tmp/h4det.XXXXXX)"; trap 'rm -rf "$T"' EXIT
for W in 16 5 1; do
    mkdir -p "$T/$W"
    n=$N; [ "$W" = 1 ] && n=$((N/8))
    H4SIM_HASHLOG="$T/$W" "$V/.build/h4sim" --property "$P" --runs "$n" --seed "$S" --workers "$W" --no-minimise --dir "$T/out$W" > "$T/$W.log" 2>&1
    cat "$T/$W"/w*.hash | sort -n > "$T/$W.all"
done
a=$(wc -l < "$T/16.all"); n1=$(wc -l < "$T/1.all")
d1=$(diff "$T/16.all" "$T/5.all" | grep -c '^[<>]')
d2=$(diff <(head -n "$n1" "$T/16.all") "$T/1.all" | grep -c '^[<>]')
echo "determinism $P seed $S: $a cases at 16 and 5 workers, $n1 at 1 worker: differing lines 16-vs-5: $d1, 16-vs-1: $d2"
[ "$d1" = 0 ] && [ "$d2" = 0 ]
