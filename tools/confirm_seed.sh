#!/bin/bash
# tools/confirm_seed.sh <seed-dir> -- independent confirmation of a seeded change kept under /verif/seeded/<id>/:
# in a scratch worktree of /repo's HEAD: (1) the patch applies and the tree builds, (2) the repository's 405 tests
# pass with it, (3) the demonstration fails with the change, (4) passes without it.  Prints a one-line verdict and
# writes <seed-dir>/confirm.log.  The worktree and its build are removed afterwards.
D="$(cd "$1" && pwd)"; N="$(basename "$D")"
WT="/tmp/h4seed-$N"
LOG="$D/confirm.log"
git -C /repo worktree remove --force "$WT" >/dev/null 2>&1; rm -rf "$WT"
git -C /repo worktree add --detach "$WT" HEAD >/dev/null 2>&1 || { echo "$N: worktree failed"; exit 3; }
cd "$WT"
{
echo "== confirm $N at /repo $(git -C /repo rev-parse --short HEAD) on $(date -u +%FT%TZ)"
git apply --3way "$D/patch.diff" 2>/dev/null || git apply "$D/patch.diff" || patch -p1 --fuzz=3 < "$D/patch.diff" || { echo "PATCH DOES NOT APPLY"; }
git diff --stat
cmake -G Ninja -S . -B _b -DCMAKE_BUILD_TYPE=RelWithDebInfo -DBUILD_SHARED_LIBS=ON -DBUILD_STATIC_LIBS=ON -DBUILD_TESTING=ON -DHDF4_BUILD_TOOLS=ON -DHDF4_BUILD_EXAMPLES=ON -DHDF4_BUILD_FORTRAN=OFF -DHDF4_BUILD_JAVA=OFF -DHDF4_ENABLE_SZIP_SUPPORT=OFF -DCMAKE_C_FLAGS=-Wno-error > _b.log 2>&1
cmake --build _b -j8 > _b.build.log 2>&1 && echo "BUILD OK" || { echo "BUILD FAILED"; tail -5 _b.build.log; }
T="$(ctest --test-dir _b -j8 --timeout 900 2>&1 | grep -E 'tests passed|tests failed')"
echo "CTEST with change: $T"
DEMOS="$(ls "$D"/*.c 2>/dev/null)"
WRAP=""
cp "$D"/*.h . 2>/dev/null
build_demo() {
  if [ -f "$D/build.sh" ]; then sed "s#^R=.*#R=$WT#" "$D/build.sh" > ./build_demo_local.sh; (cp "$D"/*.c "$D"/*.h . 2>/dev/null; sh ./build_demo_local.sh) > demo.build.log 2>&1; else
  gcc -o demo $DEMOS -I . -I hdf/src -I mfhdf/src -I _b -I _b/hdf/src -I _b/mfhdf/src $(cat "$D/demo.ldflags" 2>/dev/null) _b/bin/libmfhdf.a _b/bin/libhdf.a -ljpeg -lz -lm > demo.build.log 2>&1; fi
}
build_demo || { echo "DEMO BUILD FAILED"; cat demo.build.log | tail -5; }
( mkdir -p run1 && cd run1 && timeout 300 ../demo > ../demo.with.log 2>&1 ); RC1=$?
echo "DEMO with change: exit $RC1"; tail -3 demo.with.log
git reset -q --hard HEAD; git status --short | grep -v "^??" | head -3
cmake --build _b -j8 > _b.build2.log 2>&1
build_demo
( mkdir -p run2 && cd run2 && timeout 300 ../demo > ../demo.without.log 2>&1 ); RC2=$?
echo "DEMO without change: exit $RC2"; tail -3 demo.without.log
case "$T" in *"100% tests passed, 0 tests failed out of 405"*) TOK=1;; *) TOK=0;; esac
if [ "$TOK" = 1 ] && [ "$RC1" != 0 ] && [ "$RC2" = 0 ]; then echo "VERDICT $N: CONFIRMED (405 pass with change, demo fails with, passes without)"; else echo "VERDICT $N: NOT CONFIRMED (tests_ok=$TOK demo_with=$RC1 demo_without=$RC2)"; fi
} > "$LOG" 2>&1
tail -1 "$LOG"
cd /; git -C /repo worktree remove --force "$WT" >/dev/null 2>&1; rm -rf "$WT"
