#!/bin/bash
# tools/faultsites.sh <Cxx> [runs] -- triage helper: run a batch, then for every reported replay print the library
# frames of the stack at the moment the injected fault fired.
P="$1"; R="${2:-96}"
cd "$(dirname "$0")/.."
rm -f replays/$P-seed1-case*.plan
H4SIM_MAX_REPORT=30 ./.build/h4sim --property "$P" --runs "$R" 2>&1 | grep "^VIOLATION" | sed 's/.*replay=//' | while read f; do
  echo "=== $(grep '^expect' $f)"
  H4SIM_TRACE=1 ./.build/h4sim --replay "$f" --verbose 2>&1 | grep -A16 ">>> fault" | grep "/repo/" | sed 's/^ *#[0-9]* 0x[0-9a-f]* in //' | head -7
done
