#!/bin/bash
# tools/mutcheck.sh <name> <patch-file|-R:commit> <Cxx> [tier] [extra h4sim args]
# Applies a change to a scratch worktree of /repo (under /tmp), runs ./check for one property against it with its
# own build and output directories, prints the verdict, and removes everything again.
#   patch-file : a diff to apply (git apply)
#   -R:<commit>: revert that commit of /repo (used to confirm that a fix: commit is what makes the check pass)
set -u
NAME="$1"; CHG="$2"; PROP="$3"; TIER="${4:-quick}"; shift 4 2>/dev/null
case "$CHG" in -R:*) ;; /*) ;; *) CHG="$(pwd)/$CHG";; esac
V="$(cd "$(dirname "$0")/.." && pwd)"
WT="/tmp/h4mut-$NAME"
git -C /repo worktree remove --force "$WT" >/dev/null 2>&1
rm -rf "$WT" "$WT-build" "$WT-out"
git -C /repo worktree add --detach "$WT" HEAD >/dev/null 2>&1 || { echo "worktree failed"; exit 3; }
if [[ "$CHG" == -R:* ]]; then
    git -C "$WT" show "${CHG#-R:}" | git -C "$WT" apply -R || { echo "revert failed"; git -C /repo worktree remove --force "$WT" >/dev/null 2>&1; rm -rf "$WT"; exit 3; }
else
    git -C "$WT" apply --3way "$CHG" 2>/dev/null || git -C "$WT" apply "$CHG" || patch -d "$WT" -p1 --fuzz=3 < "$CHG" || { echo "patch failed"; git -C /repo worktree remove --force "$WT" >/dev/null 2>&1; rm -rf "$WT"; exit 3; }
fi
VERIF_REPO="$WT" VERIF_BUILD="$WT-build" VERIF_OUT="$WT-out" "$V/check" "$PROP" "$TIER" "$@" > "$WT-out.log" 2>&1
RC=$?
grep -E "^violation|^VIOLATION|^KNOWN|^h4sim: [0-9]" "$WT-out.log" | head -12
echo "mutcheck $NAME $PROP: exit $RC"
# KEEP_REPLAYS=<dir>: keep the replay files of the violations found (named <name>-<file>)
if [ -n "${KEEP_REPLAYS:-}" ] && [ -d "$WT-out/replays" ]; then
    mkdir -p "$KEEP_REPLAYS"
    for f in "$WT-out"/replays/*.plan; do [ -f "$f" ] && cp "$f" "$KEEP_REPLAYS/$NAME-$(basename "$f")"; done
fi
git -C /repo worktree remove --force "$WT" >/dev/null 2>&1
rm -rf "$WT" "$WT-build" "$WT-out" "$WT-out.log"
exit $RC
