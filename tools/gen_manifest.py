#!/usr/bin/env python3
"""Regenerates /verif/MANIFEST.json from the table below (kept in one place so that it stays valid)."""
import json, os, subprocess

V = os.path.dirname(os.path.dirname(os.path.abspath(__file__)))

TECH = "deterministic simulation with fault injection: seeded plans (clients, schedule, restarts, knobs%s) run on the real library over a simulated disk (link-time stdio seam); %s"

CHECKS = {
    "C01": dict(
        profile="helem", cat="exploration", ref="DESIGN.md section 4 C01, section 8",
        text="Seeded search over H-level histories (1-3 interleaved clients, separate or shared file ids, restarts, "
             "descriptor-block/cache/stdio knobs) against a byte-array reference model checked after every call and "
             "after every clean restart; ASan on. Evidence, not proof: 16 000 (quick) / 300 000 (thorough) histories.",
        note="Trusts the byte-array model and the simulated stdio semantics (C standard regular-file semantics). "
             "Domain restrictions are listed in the evidence 'assumptions'; three known findings are kept out of the "
             "search by named guards and demonstrated by stored replays.",
        tech=TECH % ("", "oracle = byte-array reference model, op by op and after restart"),
    ),
}

NOT_APPLICABLE = {
    "C06": "pure function of its input (DFKconvert over bit patterns x configurations): no schedule, fault, restart or I/O in the statement; exhaustive enumeration would be the deciding method, which is not simulation (DESIGN.md section 5)",
    "C15": "'written by API A, read by API B' is a function of the generated object and the pair (A,B): inputs x configurations only, no history, fault or interleaving (DESIGN.md section 5)",
    "C18": "hrepack is a function (input file, options) -> output file run as a separate executable; inputs x configurations only (DESIGN.md section 5)",
    "C19": "hdiff/hdp/hdfimport are separate executables outside any simulator the harness controls; the statement is a function of the input files (DESIGN.md section 5)",
}

# claimed by the design but whose check is not built yet in this tree (moved to CHECKS as they land)
PENDING = {
    "C02": "format", "C03": "sdarray", "C04": "layout", "C05": "coder", "C07": "vdata", "C08": "vgroup",
    "C09": "raster", "C10": "attrs", "C11": "annot", "C12": "ddmap", "C13": "handles", "C14": "readonly",
    "C16": "iofault", "C17": "crash", "C20": "limits",
}


def main():
    hooks_commits = []
    try:
        out = subprocess.run(["git", "-C", "/repo", "log", "--format=%h %s"], capture_output=True, text=True).stdout
        for line in out.splitlines():
            h, _, subj = line.partition(" ")
            if subj.startswith("verif-hook:"):
                hooks_commits.append(h)
    except Exception:
        pass
    m = {
        "version": 1,
        "setup_cmd": "./build.sh",
        "hooks": {
            "guard": "HDF4_VERIF_SIM",
            "enable": "build.sh configures /repo with cmake+ninja into /verif/.build/repo with -DHDF4_VERIF_SIM "
                      "-fsanitize=address -ftrivial-auto-var-init=pattern (static libs only) and links the engine with "
                      "-Wl,--wrap=fopen,fclose,fread,fwrite,fseek,ftell,fflush,stat,remove,rename,getrlimit,getenv; "
                      "the I/O seam itself needs no source hook",
            "baseline_off_cmd": "./tools/baseline_off.sh",
            "source_commits": hooks_commits,
            "add_only": True,
        },
        "engines": [{
            "name": "h4sim",
            "path": "sim/",
            "serves_properties": sorted(CHECKS.keys()),
            "kind_free_text": "C++17 deterministic simulator: simulated disk behind link-time stdio wrappers, seeded "
                              "plan generator/scheduler, fault plans attached to I/O events of ops, fork-per-run "
                              "children under ASan, ddmin minimiser, fresh-process replay gate, reference models",
        }],
        "checks": [],
        "not_applicable": [],
        "notes": "Every check: ./check <Cxx> <quick|thorough> rebuilds the libraries and the engine from /repo's "
                 "working tree, re-executes stored known-finding replays (KNOWN-FINDING lines), runs the seeded batch, "
                 "minimises and gates violations (fresh-process replay must reproduce, else exit 2 without VIOLATION), "
                 "writes evidence/<Cxx>.json. VERIF_SEED selects the batch.",
    }
    for pid in sorted(CHECKS):
        c = CHECKS[pid]
        m["checks"].append({
            "property_id": pid,
            "quick_cmd": "./check %s quick" % pid,
            "thorough_cmd": "./check %s thorough" % pid,
            "evidence_file": "evidence/%s.json" % pid,
            "replay_cmd_template": "./check --replay {path}",
            "engine": "h4sim",
            "level_claimed": {"category": c["cat"], "text": c["text"], "design_ref": c["ref"]},
            "level_note": c["note"],
            "technique": c["tech"],
        })
    for pid in sorted(NOT_APPLICABLE):
        m["not_applicable"].append({"property_id": pid, "reason": NOT_APPLICABLE[pid]})
    for pid in sorted(PENDING):
        if pid in CHECKS:
            continue
        m["not_applicable"].append({
            "property_id": pid,
            "reason": "not claimed yet: the '%s' profile of the simulator is designed (DESIGN.md section 4) but not "
                      "built in this tree" % PENDING[pid]})
    with open(os.path.join(V, "MANIFEST.json"), "w") as f:
        json.dump(m, f, indent=1)
        f.write("\n")


if __name__ == "__main__":
    main()
