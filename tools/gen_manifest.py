#!/usr/bin/env python3
"""Regenerates /verif/MANIFEST.json from the table below (kept in one place so that it stays valid)."""
import json, os, subprocess

V = os.path.dirname(os.path.dirname(os.path.abspath(__file__)))

TECH = "deterministic simulation with fault injection: seeded plans (clients, schedule, restarts, knobs%s) run on the real library over a simulated disk (link-time stdio seam); %s"

CHECKS = {
    "C01": dict(
        profile="helem", cat="exploration", ref="DESIGN.md section 4 C01, section 8",
        text="Seeded search over H-level histories (1-3 interleaved clients, separate or shared file ids, restarts, "
             "descriptor-block/cache/stdio knobs) against a byte-array reference model checked after every call and "
             "after every clean restart; ASan on. Evidence, not proof: 16 000 (quick) / 300 000 (thorough) histories.",
        note="Trusts the byte-array model and the simulated stdio semantics (C standard regular-file semantics). "
             "Domain restrictions are listed in the evidence 'assumptions'; three known findings are kept out of the "
             "search by named guards and demonstrated by stored replays.",
        tech=TECH % ("", "oracle = byte-array reference model, op by op and after restart"),
    ),
    "C02": dict(
        profile="format", cat="exploration", ref="DESIGN.md section 3.3, section 4 C02, FORMAT_NOTES.md",
        text="Seeded search over 2..5 sessions of the mixed H/V/VS/SD/GR/AN workload (plain, linked-block with 1..3 blocks "
             "per table, appended and promoted, external, compressed, chunked objects, aliases, deletes; descriptor blocks "
             "of 1..8 or 16 entries, DD caching on/off, linked-block and Vdata-buffer hooks). After every session end and "
             "every Hsync the bytes on the simulated disk are read by an independent reader that implements only "
             "FORMAT_NOTES.md: magic, acyclic in-bounds descriptor chain, no duplicate tag/ref, extents inside the file, "
             "no overlap except identical aliases, linked-block/external/compressed/chunked records, chunk tables, "
             "Vdata and Vgroup records. At session ends additionally: descriptor set and logical content of every "
             "element equal the library's Hfind/Hread, Vdata/Vgroup records equal VSinquire/VF*/Vgettagrefs, SD/GR "
             "values equal SDreaddata/GRreadimage, and HDgetdatainfo/VSgetdatainfo/SDgetdatainfo (also per chunk)/"
             "GRgetdatainfo/ANgetdatainfo report exactly the reader's extents for info_count 0, 1, n-1, n, n+3 with "
             "canaries behind the arrays; SDgetattdatainfo, SDgetanndatainfo, VSgetattdatainfo and Vgetattdatainfo point at bytes that "
             "are the attribute's (annotation's) values. 5 000 / 120 000 histories.",
        note="Trusts FORMAT_NOTES.md as the statement of the published format and the small reader written from it; "
             "skipping-Huffman and n-bit payloads are checked structurally only; external elements and chunked images "
             "are left out of the raw-location comparison; at Hsync points only the structural rules are checked. Session-view oracle: what a session reads of every object just before it closes must equal what a new session reads from the closed file (catches updates lost at close in all six interfaces without a model).",
        tech=TECH % ("", "oracle = independent format-only reader over the durable image at every close/flush point, differential against the library's own reads"),
    ),
    "C03": dict(
        profile="sdarray", cat="exploration", ref="DESIGN.md section 4 C03",
        text="Seeded search over SD histories: datasets of rank 0..4 (spot ranks to 32), 9 number types x 3 flavours, "
             "unlimited first dimension with skipped records, user/default fill values, fill mode on/off, block "
             "sizes; hyperslab writes and reads with start/stride/count inside, at the edge of and beyond the extent; "
             "SDend/SDstart restarts. Oracle: n-d array model (written / fill / unspecified cells), full read-back "
             "after every restart. 10 000 (quick) / 200 000 (thorough) histories.",
        note="Trusts the array model and the default fill constants of mfhdf.h; cells left unspecified by fill mode "
             "off or by a refused write are not compared; partly written records in no-fill mode are in the search (fix aa822c5); one known finding (refused out-of-range write to an unlimited dataset in no-fill mode counts records) kept out by a guard.",
        tech=TECH % ("", "oracle = n-dimensional array reference model"),
    ),
    "C04": dict(
        profile="layout", cat="exploration", ref="DESIGN.md section 4 C04, section 8",
        text="Seeded search in which one logical dataset is stored 2..4 times in one file, once per layout: contiguous; "
             "chunked with a generated chunk shape (every shape for extents 1..7, non-dividing and larger than the "
             "extent), cache size 1..8 resized on the way; chunked+RLE/skipping-Huffman/deflate; chunked+n-bit; "
             "compressed; n-bit; external file with offset; unlimited with block sizes; layouts selected at creation "
             "or in a later call/session; descriptor-block and linked-block size hooks. Every logical slab write goes "
             "to all layouts, every slab/strided read, whole-chunk read (SDreadchunk) and whole-chunk write "
             "(SDwritechunk = the slab of that chunk elsewhere) is compared with the array model for every layout, "
             "before and after reopen. The same for one raster image stored plain, chunked, chunked+compressed and "
             "compressed with GRwritechunk/GRreadchunk/GRreqimageil/GRsetchunkcache. 6 000 / 150 000 histories.",
        note="Trusts the array model (equal to what the contiguous layout gives, which C03 checks on its own). "
             "Compressed non-chunked datasets are written whole; n-bit layouts hold values the field represents; a "
             "fixed-size external dataset is first written whole (never-written cells are the external file's bytes); "
             "GR whole-chunk calls on square images only (any chunk shape, any interlace: the two former findings on "
             "non-square chunks were repaired, fix 956a06f).",
        tech=TECH % ("", "oracle = array reference model compared with every layout of the same logical dataset"),
    ),
    "C05": dict(
        profile="coder", cat="exploration", ref="DESIGN.md section 4 C05, section 8",
        text="Seeded search over coder histories: compressed elements (none, RLE, skipping Huffman skip 1..16, deflate "
             "0..9) written sequentially in generated partitions with data classes around the coder limits (runs of "
             "126..131 and 255..257, incompressible, periodic, zeros, sparse), read back on the writing id with "
             "backward seeks, appended to by the same or a later access (a refusal must leave the stream intact), "
             "rewritten in full, read through read accesses in other partitions with forward/backward seeks and "
             "over-long requests, HCPgetdatasize/Hlength; n-bit through SDsetnbitdataset and through HCcreate for six "
             "integer types x start bit x length x sign-extend x fill-one with multi-call whole-value writes, reads and "
             "value seeks; bit elements (also longer than the 4096-byte buffer) written with widths 1..32, read with "
             "other widths and bit seeks, and mixed overwrite/read/seek on one write-capable bit id; reopen. Oracles: "
             "byte model, independently written n-bit projection, bit-vector model. 8 000 / 150 000 histories.",
        note="Trusts the three small models; the n-bit projection follows cnbit.c's description (start bit = highest "
             "bit of the field). Compressed streams are written sequentially or rewritten with a first call covering "
             "the old length (the coders' documented rule); szip/JPEG are lossy or absent and not part of the property.",
        tech=TECH % ("", "oracle = byte-stream, bit-vector and n-bit projection reference models"),
    ),
    "C07": dict(
        profile="vdata", cat="exploration", ref="DESIGN.md section 4 C07",
        text="Seeded search over Vdata histories: generated schemas (1..5 fields, 9 number types, orders 1..3, stored "
             "interlace, block sizes), writes that overwrite, append and overwrite-and-append in both buffer "
             "interlaces, reads of any record range with any field subset/permutation in both buffer interlaces, "
             "VSinquire/VF* consistency, VSfpack pack/unpack, 1..2 clients with shared read attachments, "
             "detach/re-attach, restarts; internal transfer buffer and linked-block sizes shrunk through guarded "
             "hooks. Oracle: table-of-records model. 10 000 (quick) / 200 000 (thorough) histories.",
        note="Trusts the table model; one writer or many readers per Vdata; NO_INTERLACE stored Vdatas only as "
             "whole tables.",
        tech=TECH % ("", "oracle = table-of-records reference model"),
    ),
    "C08": dict(
        profile="vgroup", cat="exploration", ref="DESIGN.md section 4 C08",
        text="Seeded search over Vgroup histories: create, rename/reclass (lengths around and beyond 64, shrink by "
             "one byte), add by tag/ref with duplicates, insert Vdatas and Vgroups by handle, delete members and "
             "objects, several handles on one Vgroup, 1..2 clients, member counts past 64 and 128, restarts. Oracle: "
             "graph model checked through every observer (Vntagrefs/Vgettagrefs with small/exact/large arrays, "
             "Vgettagref, Vinqtagref, Vnrefs, Visvg/Visvs, names, Vgetid, Vlone/VSlone, Vfind/VSfind/Vfindclass, "
             "Vgetvgroups/VSgetvdatas) through open handles and after reopen. 10 000 / 200 000 histories.",
        note="Trusts the graph model; Vdelete/VSdelete only on detached objects.",
        tech=TECH % ("", "oracle = graph reference model"),
    ),
    "C09": dict(
        profile="raster", cat="exploration", ref="DESIGN.md section 4 C09",
        text="Seeded search over GR histories: images 1..9 x 1..8 with 1..5 components, 9 number types, the three "
             "create-time interlaces, user/default fill, RLE/skipping-Huffman/deflate, chunked (any chunk shape, "
             "optionally deflate); region writes (partial first writes included), region and strided reads in the "
             "three read interlaces, palettes in three read interlaces, GRendaccess/GRselect, GRend/GRstart restarts. "
             "Oracle: height x width x components model with independently written interlace permutations. "
             "8 000 (quick) / 200 000 (thorough) histories.",
        note="Trusts the array model; half of the cases use stride 1 in writes (the statement speaks of region writes), the other half sub-sampled writes as well (fix 28a6259); old-style (DFR8) RLE "
             "images are read, and rewritten with one colour only (known finding: a longer RLE stream cannot replace the "
             "stored one; the refusal is reported since fix 293cb57).",
        tech=TECH % ("", "oracle = pixel-array reference model"),
    ),
    "C10": dict(
        profile="attrs", cat="exploration", ref="DESIGN.md section 4 C10",
        text="Seeded search over attribute histories on SD file/dataset/dimension, GR file/image, Vdata/field and "
             "Vgroup: set and re-set (same and different type/count, 9 number types, counts 1..3000, names sharing "
             "prefixes), predefined SD metadata (data strings, calibration, range, fill value, dimension "
             "names/scales/strings) with their dedicated getters, name/index/ref lookups, other objects created in "
             "between, reopen read-only and read-write. Oracle: ordered attribute-map model (replace keeps the index; a "
             "refused re-set leaves the old value). 8 000 / 150 000 histories.",
        note="Trusts the map model; dimensions keep distinct names (renamed with scale and attributes attached, scales re-set with other number types); one known finding (a GR attribute re-set with fewer values) kept out by a guard, two former ones repaired (f88bdd6, 7b65487).",
        tech=TECH % ("", "oracle = ordered attribute-map reference model"),
    ),
    "C11": dict(
        profile="annot", cat="exploration", ref="DESIGN.md section 4 C11",
        text="Seeded search over annotation histories: the four types through ANcreate/ANcreatef/ANwriteann (texts 1..300 "
             "bytes, embedded NULs in descriptions), rewrites with longer and shorter text, several annotations per "
             "object, per-object and per-type listings, the id<->tag/ref mapping in both directions, the single-file "
             "DFAN calls on two files (same name prefix) between sessions, restarts. Oracle: annotation-set model "
             "(every stored annotation enumerated exactly once with its text; nothing else). 10 000 / 200 000 histories.",
        note="Trusts the set model; an annotation is written right after it is created; objects annotated through DFAN "
             "carry one label and one description.",
        tech=TECH % ("", "oracle = annotation-set reference model"),
    ),
    "C12": dict(
        profile="ddmap", cat="exploration", ref="DESIGN.md section 4 C12",
        text="Seeded search over create/delete/duplicate/reuse/search/count/new-ref histories (descriptor-block sizes "
             "1..40 odd and even, caching on/off and toggled mid-session, refs at 1/65535 and after wrap, 1-2 clients, "
             "restarts) against a map (tag,ref)->bytes: set equality through Hfind in both directions, exact counts, "
             "freshness of every issued ref, content after reopen. 12 000 (quick) / 200 000 (thorough) histories.",
        note="Trusts the map model; descriptors the library creates for itself are excluded by tag; exhaustion of all "
             "65535 refs of one tag is not reached.",
        tech=TECH % ("", "oracle = map reference model incl. enumeration and allocation invariants"),
    ),
    "C13": dict(
        profile="handles", cat="exploration", ref="DESIGN.md section 4 C13",
        text="Seeded search over handle histories on two files: honest open/attach/select/create/release of file, "
             "access, Vdata, Vgroup, SD, SDS, GR, RI, AN and annotation ids (nested opens of one path in different "
             "modes incl. read-then-write upgrade, release in any order, Hclose with access ids attached) "
             "interleaved with an adversary using released ids (query and double release), ids of another kind, of "
             "the other file, and never issued values. Oracle: live-handle table (every live id answers an identity "
             "question with its own object), failure values for every adversarial call, refused Hclose leaves file "
             "and access ids usable, no stream and no attach count left after teardown, ASan. 8 000 / 150 000.",
        note="SD ids are positional names (released by SDend; numerically re-issued ids are valid); the AN id is the "
             "file id; ids of other kinds go to H-level and AN calls as well (the missing group checks were repaired, 7f4020c); besides "
             "the one inquiry call per kind, 3-12 further entry points per interface are tried with every invalid id. "
             "Shadow run: every plan is executed a second time without its adversarial calls (scaffolding kept); "
             "the files of both runs must be byte-identical.",
        tech=TECH % ("", "oracle = live-handle table + failure-value checks + shadow run without the adversarial calls (byte-identical files) + sanitizer"),
    ),
    "C14": dict(
        profile="readonly", cat="exploration", ref="DESIGN.md section 4 C14",
        text="Phase A builds a file with the mixed H/V/VS/SD/GR/AN workload (linked-block, external, chunked, "
             "compressed objects). Phase B freezes every file in the simulated disk, opens read-only through Hopen/"
             "SDstart (+Vstart/GRstart/ANstart) and runs a random program of reads, inquiries and 69 kinds of "
             "mutation calls: the disk monitor must see no mutating I/O event (reported at the event), the bytes "
             "must be identical, every mutator must return its failure value. Phase C opens read-write (also files "
             "patched to carry an older library version), edits nothing, closes: every object and every raw element "
             "reads back identical. 6 000 (quick) / 150 000 (thorough) programs.",
        note="No guard: the 16 mutators that read-only handles used to accept in memory were repaired in the library "
             "(fix commits f8f9442, 94cdd13, 0e13bb3, b4e710c, f12707c, 416eb29; old replays under findings/fixed). The mutator "
             "table is the reading of 'would have to write'.",
        tech=TECH % ("", "oracle = disk-seam mutation monitor + byte compare + failure-value table + differential read-back"),
    ),
    "C16": dict(
        profile="iofault", cat="fault_enumeration", ref="DESIGN.md section 4 C16",
        text="The first 14 programs of every batch are directed (one per storage layout: create, close, reopen, read, rewrite, "
             "read, close), the others generated. For each H/V/VS/SD/GR/AN program the fault-free I/O trace is enumerated: every stdio event x "
             "every applicable fault kind (EIO, short count, ENOSPC-from-here-on, sticky stream error, open failure; "
             "write-through and buffered stdio models) is injected in its own child. Oracle: no crash/hang/ASan/"
             "closed-stream use; if every call incl. the closes succeeded then files and read results equal the "
             "fault-free run. Exhaustive per program, sampled over programs (88 quick / 1200 thorough).",
        note="Single faults plus their sticky/ENOSPC continuation; allocation failure not injected; after the first "
             "reported failure a program only releases and closes, and the torn file is not opened again. The SD "
             "family joined the search after library fixes (DESIGN 8.5), and so did datasets stored through the "
             "coders, chunked+compressed or in external files (five more fixes); raster images with a special layout, "
             "attribute or palette are created plain in this search (one guard, one known finding: GRstart swallows "
             "read errors while it builds its image list).",
        tech=TECH % (", fault plans", "exhaustive single-fault enumeration over the recorded I/O trace, differential oracle against the fault-free run"),
    ),
    "C17": dict(
        profile="crash", cat="fault_enumeration", ref="DESIGN.md section 4 C17",
        text="Base file + append-only session; the simulated disk logs the session's ordered physical writes; EVERY "
             "prefix (all prefixes for H/Vdata/Vgroup-only sessions, prefixes before the first flushing call for "
             "sessions that also add SDS/images/annotations) is materialised and verified in a fresh child: it opens "
             "and every pre-existing object reads back as from the base. Also: no pre-flush write below the old "
             "logical end of file. Exhaustive per session, sampled over sessions (260 quick / 4000 thorough).",
        note="Atomic ordered writes as the property states (no torn/reordered writes); default descriptor caching; "
             "objects of the interrupted session are not examined.",
        tech=TECH % (", crash points", "exhaustive crash-prefix enumeration over the write log, differential oracle against the base file"),
    ),
    "C20": dict(
        profile="limits", cat="exploration", ref="DESIGN.md section 4 C20, section 8",
        text="Seeded histories of 8..30 probes around each limit, in random order and amounts, against files that also "
             "hold canary objects: sparse never-written elements and linked-block elements whose offsets/lengths approach "
             "and cross 2^31-1 (simulated sparse disk), writes at their far end, small elements behind them; ref 65535 "
             "followed by Hnewref/Htagnewref, all 65535 refs of a tag in use; Vgroups filled to 65534..65540 members; "
             "field orders/sizes around 65535, 254..259 fields, record sizes around 65535; names of 63..70000 "
             "characters through ten interfaces with canaried get-buffers; SDS ranks 31..34 and shapes whose byte size "
             "crosses 2^31 and 2^32; 30..40 open files, SDstart of one file up to a small descriptor limit (getrlimit "
             "seam). Oracle: failure value where the format cannot represent the request, correct read-back where "
             "accepted, canaries intact after every probe, descriptor tables without negative/wrapped/overlapping "
             "extents (sparse page-wise scan + format reader), files usable after reopen, ASan. 3 000 / 40 000.",
        note="Requests above a documented maximum of the library (not of the format) may be accepted when they then "
             "behave correctly; a name longer than an interface keeps is either refused or stored as a prefix.",
        tech=TECH % ("", "oracle = failure-value table per limit + read-back + canary objects + sparse descriptor scan + sanitizer"),
    ),
}

NOT_APPLICABLE = {
    "C06": "pure function of its input (DFKconvert over bit patterns x configurations): no schedule, fault, restart or I/O in the statement; exhaustive enumeration would be the deciding method, which is not simulation (DESIGN.md section 5)",
    "C15": "'written by API A, read by API B' is a function of the generated object and the pair (A,B): inputs x configurations only, no history, fault or interleaving (DESIGN.md section 5)",
    "C18": "hrepack is a function (input file, options) -> output file run as a separate executable; inputs x configurations only (DESIGN.md section 5)",
    "C19": "hdiff/hdp/hdfimport are separate executables outside any simulator the harness controls; the statement is a function of the input files (DESIGN.md section 5)",
}

# claimed by the design but whose check is not built yet in this tree (moved to CHECKS as they land)
PENDING = {
    "C03": "sdarray", "C07": "vdata", "C08": "vgroup",
    "C09": "raster", "C10": "attrs", "C11": "annot", "C12": "ddmap", "C13": "handles", "C14": "readonly",
    "C16": "iofault", "C17": "crash",
}



# what the searches cover beyond the texts above (added as the seeded-change rounds and the fix reverts asked for it)
ADDED = {
    "C03": "Also in the search: datasets that share their last dimension by name (knob shareddims); strided requests with count 0 in one dimension (a write changes nothing, a read delivers nothing).",
    "C01": "Also in the search: HLconvert on an element that has a descriptor and no data yet, before its first byte.",
    "C02": "Also in the search: datasets stored low byte first, the largest reference number in use and elements stored "
           "under references the library hands out (mixed workload). An element promoted to linked blocks before its first byte; fill-mode switches; the first chunk of every chunked image is read as a whole before anything else is read through the image id.",
    "C05": "Also in the search: compressing an element that holds plain data already, then reading or rewriting it through "
           "the returned id. One access id walks all elements of the tag with Hnextread: on each it starts at position 0 and a read of the rest gives the whole element; the walk ends with Hendaccess.",
    "C07": "Also in the search: field names that are prefixes of one another, names of 124..128 characters, fields defined "
           "in descending name order. A refused VSsetinterlace on a Vdata that holds records changes nothing; fields defined in another order than the field list (reverse, or behind a field that is never used).",
    "C08": "Also in the search: names that are prefixes of one another, inserting handles of another file (refused), "
           "Vgetnext against the member list, names longer than 65535 characters (refused, nothing changes). Vgetvgroups on a vgroup: windows (start, n) and counts agree with the whole list, which follows the member order.",
    "C09": "Also in the search: little-endian number types, sub-sampled writes, sub-sampled region reads of legacy RLE images, "
           "image names that are prefixes of one another. Palette reads without a requested interlace (what was asked for last in this open of the file, else pixel). GRsetchunk asked of images that are compressed or chunked already and hold data: the id goes on working, the pixels stay.",
    "C10": "Also in the search: 8-bit character attributes, dimension names that are prefixes or word permutations of one "
           "another, datasets sharing a dimension created in either order, refused SDsetdimname (size conflict) and "
           "SDsetdimscale (wrong count) that must change nothing. Vdata/Vgroup attributes with the little-endian variant of a type (a re-set that differs only in byte order is refused, the old value stays); a scale on an unlimited dimension stays what was set while the dataset grows.",
    "C11": "Also in the search: bursts of 14..52 annotations on one object, ANreadann with a buffer shorter than the text, a "
           "second ANcreate before the first annotation is written (refused, leaves no trace), the DFAN calls on a file "
           "that does not exist yet. A file made anew under its old name followed by DFANclear, also in plans that use the single-file "
           "interface for descriptions only.",
    "C12": "Also in the search: a duplicate onto a name that exists (refused, nothing changes), every reference of a tag up "
           "to 8k+7 in use except 8k, and a reference handed out and not used yet (asked for twice in a row, or again "
           "after reference 65535 was taken) is not handed out again. Hdupdd without a source is refused and leaves no descriptor.",
    "C13": "Also in the search: 3..12 further entry points per interface tried with stale, wrong-kind and never-issued "
           "ids; opening a missing file and a file that is no HDF file; 257..264 files open at once; ids that share a "
           "chain of the id table released in any order; a call that fails half way releases what it attached. Two files whose ids share a chain of the id table, the older one opened again (a creating open of an open file is refused); one vgroup attached twice at the same time, for writing and for reading.",
    "C14": "70 mutators incl. whole-chunk writes, Hsetlength/Happendable on a read id, SDstart/Hopen on a file that is no "
           "HDF file, GRwriteimage on a run-length encoded image of the old raster interface; a second client holding the file open for writing during phase B (SD calls); files whose version "
           "element the application removed; in phase C a reader half way through an element while the file is opened "
           "for writing goes on and gets the element's bytes. Htrunc through the reader's access id once the file is open for writing; a read that ends behind the data is refused and leaves nothing for the close of the read-only id to store.",
    "C16": "The first 18 programs of every batch are directed (one per storage layout incl. external files shared by two "
           "datasets, dataset ids left open at SDend, a reader open while the stream is swapped for a writable one); "
           "sticky faults start at reads as well as writes. Every closed session is a workload of its own: a fault after which every call up to that close reports success must leave the file the fault-free run leaves at that point, whatever a later session reports; fill-mode switches (which store the file's description in mid-session) are in the workload, one directed program is built on them.",
    "C17": "Also: the write that starts the flush must come from the descriptor sync (HTPsync), whatever caused it; the "
           "workload uses the largest reference number and stores elements under references the library hands out. Directed sessions that add one dataset without data to an SD-only file; the write that starts the flush must be caused by Hsync/Hclose (HIsync or HTPend in its call chain), not by some call on the way. In 30 % of the plans an empty descriptor block of another size is linked to the end of the base file's chain before the session (a well-formed file other writers produce), so one flush dirties blocks of different sizes.",
    "C20": "Also in the search: a vgroup name/class that is refused leaves the old one; a field name in a list behaves as "
           "the same name alone; seeks and lengths around 2^31-1 inside one element; unlimited datasets with records of "
           "8..33 million values (starts of records written). A coordinate variable that would be 4 GiB (SDsetdimstrs on a dimension of 2^30 one-byte cells) is refused and leaves no dataset behind.",
}
for _k, _v in ADDED.items():
    CHECKS[_k]["text"] += " " + _v


def main():
    hooks_commits = []
    try:
        out = subprocess.run(["git", "-C", "/repo", "log", "--format=%h %s"], capture_output=True, text=True).stdout
        for line in out.splitlines():
            h, _, subj = line.partition(" ")
            if subj.startswith("verif-hook:"):
                hooks_commits.append(h)
    except Exception:
        pass
    m = {
        "version": 1,
        "setup_cmd": "./build.sh",
        "hooks": {
            "guard": "HDF4_VERIF_SIM",
            "enable": "build.sh configures /repo with cmake+ninja into /verif/.build/repo with -DHDF4_VERIF_SIM "
                      "-fsanitize=address -ftrivial-auto-var-init=pattern (static libs only) and links the engine with "
                      "-Wl,--wrap=fopen,fclose,fread,fwrite,fseek,ftell,fflush,ferror,stat,remove,rename,getrlimit,getenv; "
                      "the I/O seam itself needs no source hook",
            "baseline_off_cmd": "./tools/baseline_off.sh",
            "source_commits": hooks_commits,
            "add_only": True,
        },
        "engines": [{
            "name": "h4sim",
            "path": "sim/",
            "serves_properties": sorted(CHECKS.keys()),
            "kind_free_text": "C++17 deterministic simulator: simulated disk behind link-time stdio wrappers, seeded "
                              "plan generator/scheduler, fault plans attached to I/O events of ops, fork-per-run "
                              "children under ASan, ddmin minimiser, fresh-process replay gate, reference models",
        }],
        "checks": [],
        "not_applicable": [],
        "notes": "Every check: ./check <Cxx> <quick|thorough> rebuilds the libraries and the engine from /repo's "
                 "working tree, re-executes stored known-finding replays (KNOWN-FINDING lines), runs the seeded batch, "
                 "minimises and gates violations (fresh-process replay must reproduce, else exit 2 without VIOLATION), "
                 "writes evidence/<Cxx>.json. VERIF_SEED selects the batch.",
    }
    for pid in sorted(CHECKS):
        c = CHECKS[pid]
        m["checks"].append({
            "property_id": pid,
            "quick_cmd": "./check %s quick" % pid,
            "thorough_cmd": "./check %s thorough" % pid,
            "evidence_file": "evidence/%s.json" % pid,
            "replay_cmd_template": "./check --replay {path}",
            "engine": "h4sim",
            "level_claimed": {"category": c["cat"], "text": c["text"], "design_ref": c["ref"]},
            "level_note": c["note"],
            "technique": c["tech"],
        })
    for pid in sorted(NOT_APPLICABLE):
        m["not_applicable"].append({"property_id": pid, "reason": NOT_APPLICABLE[pid]})
    for pid in sorted(PENDING):
        if pid in CHECKS:
            continue
        m["not_applicable"].append({
            "property_id": pid,
            "reason": "not claimed yet: the '%s' profile of the simulator is designed (DESIGN.md section 4) but not "
                      "built in this tree" % PENDING[pid]})
    with open(os.path.join(V, "MANIFEST.json"), "w") as f:
        json.dump(m, f, indent=1)
        f.write("\n")


if __name__ == "__main__":
    main()
