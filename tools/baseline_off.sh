#!/bin/bash
# tools/baseline_off.sh -- the repository's own test suite with the HDF4_VERIF_SIM guard OFF (plain build, no
# simulation flags), in a scratch directory outside /repo and /verif that is removed afterwards.
set -e
S="$(mktemp -d /tmp/h4base.XXXXXX)"
trap 'rm -rf "$S"' EXIT
cmake -G Ninja -S /repo -B "$S" -DCMAKE_BUILD_TYPE=RelWithDebInfo -DBUILD_SHARED_LIBS=ON -DBUILD_STATIC_LIBS=ON \
    -DBUILD_TESTING=ON -DHDF4_BUILD_TOOLS=ON -DHDF4_BUILD_EXAMPLES=ON -DHDF4_BUILD_FORTRAN=OFF -DHDF4_BUILD_JAVA=OFF \
    -DHDF4_ENABLE_SZIP_SUPPORT=OFF -DCMAKE_C_FLAGS=-Wno-error > "$S/cmake.log" 2>&1 || { tail -20 "$S/cmake.log"; exit 3; }
cmake --build "$S" -j16 > "$S/build.log" 2>&1 || { tail -40 "$S/build.log"; exit 3; }
ctest --test-dir "$S" -j8 --timeout 900 2>&1 | tail -15
