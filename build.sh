#!/bin/bash
# build.sh -- (re)build the HDF4 static libraries from /repo's current working tree with the simulation flags,
# then the h4sim engine.  Incremental; serialised with flock so that concurrent checks share one build tree.
set -e
V="$(cd "$(dirname "$0")" && pwd)"
REPO="${VERIF_REPO:-/repo}"
B="${VERIF_BUILD:-$V/.build}"
mkdir -p "$B"
exec 9>"$B/.lock"
flock 9
CFLAGS_SIM="-O1 -g -fsanitize=address -fno-omit-frame-pointer -ftrivial-auto-var-init=pattern -DHDF4_VERIF_SIM -DNDEBUG -w"
if [ ! -f "$B/repo/build.ninja" ] || [ "$(cat "$B/repo/.srcdir" 2>/dev/null)" != "$REPO" ]; then
    rm -rf "$B/repo"
    mkdir -p "$B/repo"
    cmake -G Ninja -S "$REPO" -B "$B/repo" -DCMAKE_BUILD_TYPE=RelWithDebInfo -DBUILD_SHARED_LIBS=OFF \
        -DBUILD_STATIC_LIBS=ON -DBUILD_TESTING=OFF -DHDF4_BUILD_TOOLS=OFF -DHDF4_BUILD_EXAMPLES=OFF \
        -DHDF4_BUILD_UTILS=OFF -DHDF4_BUILD_FORTRAN=OFF -DHDF4_BUILD_JAVA=OFF -DHDF4_ENABLE_SZIP_SUPPORT=OFF \
        -DCMAKE_C_FLAGS="$CFLAGS_SIM" -DCMAKE_C_FLAGS_RELWITHDEBINFO="" > "$B/cmake.log" 2>&1 || {
        cat "$B/cmake.log"
        echo "build.sh: cmake configure failed" >&2
        exit 3
    }
    echo "$REPO" > "$B/repo/.srcdir"
fi
ninja -C "$B/repo" > "$B/ninja.log" 2>&1 || {
    tail -40 "$B/ninja.log"
    echo "build.sh: library build failed" >&2
    exit 3
}
make -s -C "$V/sim" -j16 B="$B" REPO="$REPO" > "$B/make.log" 2>&1 || {
    tail -40 "$B/make.log"
    echo "build.sh: engine build failed" >&2
    exit 3
}
