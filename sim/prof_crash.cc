// prof_crash.cc -- C17: a crash while adding objects never damages what was already in the file.
// Phase A builds a base file and closes it.  Phase B is an append-only session whose ordered physical writes are
// logged by the simulated disk.  For every prefix k of that log the image base + writes[0..k) is handed to a fresh
// child, which must be able to open it and read back every phase-A object exactly as it read from the base file.
#include "mixed.h"

namespace h4 {
namespace {

struct Blob {
    std::string s;
    size_t      p = 0;
    void        u64(uint64_t v) { s.append((const char *)&v, 8); }
    void        str(const std::string &x)
    {
        u64(x.size());
        s += x;
    }
    uint64_t g64()
    {
        uint64_t v = 0;
        if (p + 8 <= s.size())
            memcpy(&v, s.data() + p, 8);
        p += 8;
        return v;
    }
    std::string gstr()
    {
        uint64_t n = g64();
        if (p + n > s.size())
            return "";
        std::string r = s.substr(p, (size_t)n);
        p += (size_t)n;
        return r;
    }
};

struct Crash : Profile {
    const char *name() const override { return "crash"; }
    const char *property() const override { return "C17"; }
    const char *level() const override { return "fault_enumeration"; }
    int         runs(bool thorough) const override { return thorough ? 4000 : 260; }
    int         minimise_budget() const override { return 120; }
    bool        removable(const Plan &p, size_t i) const override
    {
        const std::string &k = p.ops[i].kind;
        size_t             v = find_op(p, "verify");
        return k != "mark" && k != "verify" && k != "end" && i < v;
    }
    std::string rule() const override
    {
        return "each case = base file (phase A) + one append-only session (phase B); EVERY prefix of the session's "
               "ordered write log is materialised as a crash image and verified in its own child (all prefixes for "
               "sessions that only add new H elements/Vdatas/Vgroups, prefixes before the first flushing call "
               "otherwise); evaluations = child executions (1 recording + 1 reference + one per image); non-trivial "
               "= the session issued >= 3 writes and the base holds >= 1 object; distinct = distinct plan hash";
    }
    std::vector<std::string> assumptions() const override
    {
        return {"each library-level write is atomic and ordered (as the property states); no torn or reordered writes",
                "default descriptor caching (Hcache is never switched off in these sessions)",
                "objects of the interrupted session are not examined"};
    }
    std::vector<std::string> required_probes() const override
    {
        return {"crash-images", "images-inside-flush", "new-dd-block-in-session", "session-hv-new", "session-other", "flush-start-site-checked", "mixed-dd-block-sizes"};
    }

    Plan generate(Rng &rng, bool thorough, uint64_t) override
    {
        Plan p;
        p.seed            = rng.next();
        Rng kr            = rng.sub(1);
        p.knobs["ndds"]   = kr.chance(0.7) ? kr.range(1, 6) : kr.range(7, 20); // small: new DD blocks happen
        int kind          = kr.chance(0.55) ? 0 : 1; // 0: only new H elements / Vdatas / Vgroups; 1: everything
        p.knobs["kind"]   = kind;
        // the format stores a descriptor count in every block, and the library reads files whose blocks differ in size
        // (other writers produce them): in some cases an empty block of another size is linked to the end of the base
        // file's chain before the session begins (> 0: that many descriptors more than the last block, < 0: fewer)
        Rng gr            = rng.sub(3);
        p.knobs["grow"]   = gr.chance(0.3) ? (gr.chance(0.75) ? gr.range(1, 9) : -gr.range(1, 3)) : 0;
        Rng r             = rng.sub(2);
        int na = (int)r.range(2, 9), nb = (int)r.range(1, thorough ? 12 : 8);
        int maxlen = r.chance(0.3) ? 600 : 60;
        if (kind == 1 && r.chance(0.1)) {
            // directed: the SD description is the last thing in the base file, and the session adds one dataset without
            // writing any data: the close deletes the old description and stores the new one, nothing else is appended
            int nsd = (int)r.range(1, 3);
            for (int i = 0; i < nsd; i++)
                p.ops.push_back(mkop(0, "sdnew", {i, (int64_t)r.below(3), (int64_t)r.below(6), (int64_t)r.below(5), (int64_t)r.below(7), (int64_t)(r.next() >> 16), 0}));
            p.ops.push_back(mkop(0, "end", {}));
            p.ops.push_back(mkop(0, "mark", {}));
            p.ops.push_back(mkop(0, "sdnew", {nsd, (int64_t)r.below(3), (int64_t)r.below(6), (int64_t)r.below(5), (int64_t)r.below(7), (int64_t)(r.next() >> 16), 4}));
            p.ops.push_back(mkop(0, "end", {}));
            p.ops.push_back(mkop(0, "verify", {}));
            MixedGen::read_all(p.ops);
            p.knobs["directed"] = 1;
            return p;
        }
        for (int i = 0; i < na; i++)
            p.ops.push_back(MixedGen::write_op(r, (int)r.below(5), false, maxlen));
        if (r.chance(0.35)) {
            // leave a descriptor block (or a hole) as the last thing in the base file: create H elements last,
            // then delete them again
            int nt = (int)r.range(1, 4);
            std::vector<Op> made;
            for (int i = 0; i < nt; i++) {
                Op o = mkop(0, "hput", {0, (int64_t)r.below(3), (int64_t)r.below(8), 1 + r.sizeish(maxlen), (int64_t)(r.next() >> 16)});
                made.push_back(o);
                p.ops.push_back(o);
            }
            for (auto &o : made)
                p.ops.push_back(mkop(0, "hdel", {0, o.arg(1), o.arg(2)}));
        }
        if (r.chance(0.35)) {
            // end the base with descriptors that bring no data of their own (aliases): with a small ndds the newest
            // descriptor block is then the last thing in the file
            Op src = mkop(0, "hput", {0, (int64_t)r.below(3), (int64_t)r.below(8), 1 + r.sizeish(maxlen), (int64_t)(r.next() >> 16)});
            p.ops.push_back(src);
            int nd = (int)r.range(1, 7);
            for (int i = 0; i < nd; i++)
                p.ops.push_back(mkop(0, "hdup", {src.arg(1), src.arg(2), (int64_t)r.below(3), (int64_t)r.below(8)}));
        }
        p.ops.push_back(mkop(0, "end", {}));
        p.ops.push_back(mkop(0, "mark", {}));
        for (int i = 0; i < nb; i++) {
            // the session only ADDS objects: new H elements, Vdatas, Vgroups (kind 0) plus new SDS, images and
            // annotations (kind 1)
            p.ops.push_back(MixedGen::write_op(r, (int)r.below(kind == 0 ? 2 : 5), true, maxlen));
            if (r.chance(0.08))
                p.ops.push_back(mkop(0, "sync", {}));
        }
        p.ops.push_back(mkop(0, "end", {}));
        p.ops.push_back(mkop(0, "verify", {}));
        MixedGen::read_all(p.ops);
        return p;
    }

    static size_t find_op(const Plan &p, const char *kind, size_t from = 0)
    {
        for (size_t i = from; i < p.ops.size(); i++)
            if (p.ops[i].kind == kind)
                return i;
        return p.ops.size();
    }

    // End of the last stored object or descriptor block, from the descriptor chain alone (the physical file may
    // be a byte longer: the library pads the end of file when it closes).
    static int64_t logical_end(const std::vector<uint8_t> &f, std::vector<std::pair<int64_t, int64_t>> *ddblocks = nullptr)
    {
        auto be16 = [&](size_t o) { return (int64_t)((f[o] << 8) | f[o + 1]); };
        auto be32 = [&](size_t o) { return (int64_t)(int32_t)(((uint32_t)f[o] << 24) | ((uint32_t)f[o + 1] << 16) | ((uint32_t)f[o + 2] << 8) | f[o + 3]); };
        int64_t end = 0;
        size_t  blk = 4;
        int     guard = 0;
        while (blk != 0 && blk + 6 <= f.size() && guard++ < 100000) {
            int64_t ndds = be16(blk), next = be32(blk + 2);
            int64_t bend = (int64_t)blk + 6 + ndds * 12;
            if (ndds <= 0)
                break;
            end = std::max(end, bend);
            if (ddblocks)
                ddblocks->push_back({(int64_t)blk, bend});
            for (int64_t i = 0; i < ndds && blk + 6 + (size_t)(i + 1) * 12 <= f.size(); i++) {
                size_t  d   = blk + 6 + (size_t)i * 12;
                int64_t tag = be16(d), off = be32(d + 4), len = be32(d + 8);
                if (tag == DFTAG_NULL || tag == DFTAG_FREE || off < 0 || len < 0)
                    continue;
                end = std::max(end, off + len);
            }
            blk = next > 0 ? (size_t)next : 0;
        }
        return end;
    }

    // Link an empty descriptor block of another size to the end of the (closed) file's chain: a well-formed file that
    // this library does not write itself but reads.  False if the chain cannot be followed.
    static bool append_dd_block(const std::string &path, int64_t grow)
    {
        auto it = simfs::disk().find(path);
        if (it == simfs::disk().end() || !it->second || simfs::open_streams() != 0)
            return false;
        std::vector<uint8_t> f = simfs::file_bytes(simfs::disk(), path);
        auto be16 = [&](size_t o) { return (int64_t)((f[o] << 8) | f[o + 1]); };
        auto be32 = [&](size_t o) { return (int64_t)(int32_t)(((uint32_t)f[o] << 24) | ((uint32_t)f[o + 1] << 16) | ((uint32_t)f[o + 2] << 8) | f[o + 3]); };
        size_t blk = 4, last = 0;
        int64_t last_n = 0;
        int     guard = 0;
        while (blk != 0 && blk + 6 <= f.size() && guard++ < 100000) {
            int64_t ndds = be16(blk), next = be32(blk + 2);
            if (ndds <= 0 || blk + 6 + (size_t)ndds * 12 > f.size())
                return false;
            last   = blk;
            last_n = ndds;
            blk    = next > 0 ? (size_t)next : 0;
        }
        if (last == 0 || blk != 0)
            return false;
        int64_t n = std::max<int64_t>(1, last_n + grow);
        if (n == last_n)
            return false;
        int64_t at = (int64_t)f.size();
        std::vector<uint8_t> b((size_t)(6 + n * 12), 0xff);
        b[0] = (uint8_t)(n >> 8);
        b[1] = (uint8_t)n;
        b[2] = b[3] = b[4] = b[5] = 0;
        for (int64_t i = 0; i < n; i++) {
            size_t d = (size_t)(6 + i * 12);
            b[d] = 0, b[d + 1] = DFTAG_NULL, b[d + 2] = 0, b[d + 3] = 0; // offset and length stay -1
        }
        uint8_t link[4] = {(uint8_t)(at >> 24), (uint8_t)(at >> 16), (uint8_t)(at >> 8), (uint8_t)at};
        it->second->write(at, b.data(), (int64_t)b.size());
        it->second->write((int64_t)last + 2, link, 4);
        return true;
    }

    // mode 0: record.  mode 1: verify an image given in *ctx.in.
    void execute(Ctx &ctx) override
    {
        const Plan &p = ctx.plan;
        Mixed       mx(ctx, "/sim/c.hdf");
        mx.ndds       = (int)p.knob("ndds", 16);
        size_t mark = find_op(p, "mark"), verify = find_op(p, "verify");
        if (ctx.mode == 0) {
            std::string d0;
            int64_t     l0 = 0;
            int         first_flush = -1;
            std::vector<std::pair<int64_t, int64_t>> ddblocks;
            for (size_t i = 0; i < verify && i < p.ops.size(); i++) {
                ctx.begin_op((int)i);
                const Op &o = p.ops[i];
                if (o.kind == "mark") {
                    mx.add_only = true;
                    if (p.knob("grow", 0) != 0 && append_dd_block(mx.path, p.knob("grow", 0)))
                        ctx.probe("mixed-dd-block-sizes");
                    d0      = simfs::disk_serialize(simfs::disk());
                    l0      = logical_end(simfs::file_bytes(simfs::disk(), mx.path), &ddblocks);
                    simfs::keep_writelog(true);
                    simfs::keep_writelog_sites(true);
                    simfs::clear_writelog();
                    continue;
                }
                if (i > mark && first_flush < 0 && (o.kind == "end" || o.kind == "sync"))
                    first_flush = (int)i;
                if (mx.run(o))
                    ctx.st.ops_done++;
                else
                    ctx.st.ops_skipped++;
                if (mx.call_failed)
                    ctx.fail("workload-call-failed", "workload-call-failed:" + mx.failed_call,
                             strf("fault-free workload: %s failed in op %d (%s)", mx.failed_call.c_str(), mx.failed_op,
                                  p.ops[(size_t)mx.failed_op].kind.c_str()));
            }
            mx.end_session();
            if (l0 == 0)
                return; // phase A stored nothing: trivial case
            // clause 1: before the first flushing call the session writes only beyond the old end of file
            // "Until it flushes": the descriptor flush is the first write that lands in a descriptor block the
            // file already had (or an explicit Hsync).  Everything before it, including what SDend/GRend/ANend/Vend
            // write on their way to the flush, must go to new space.
            const auto &w = simfs::writelog();
            uint64_t    pre = 0;
            for (auto &rec : w) {
                if (rec.path != mx.path) {
                    pre++; // (an index into the whole log) the statement is about the HDF file; external data files get their own new ranges
                    continue;
                }
                bool in_dd = false;
                for (auto &b : ddblocks)
                    in_dd |= rec.kind == 0 && rec.off >= b.first && rec.off < b.second;
                if (in_dd) {
                    // the write that begins the flush comes from the descriptor flush of a sync or close (HTPsync), not from
                    // some call on the way there: a descriptor updated in place any earlier would change the stored file
                    // while the rest of the session's descriptors is still in memory
                    ctx.probe("flush-start-site-checked");
                    if (getenv("H4SIM_DEBUG"))
                        fprintf(stderr, "flush starts in: %s\n", rec.site.c_str());
                    bool from_flush = rec.site.find("HTPsync") != std::string::npos;
                    bool by_sync_or_close = false; // HTPsync is called by HIsync (Hsync, Hclose, Hcache) and by HTPend (Hclose)
                    for (const char *caller : {"HIsync", "HTPend", "Hsync", "Hclose", "Hcache"})
                        by_sync_or_close |= rec.site.find(caller) != std::string::npos;
                    if (!from_flush || !by_sync_or_close)
                        ctx.fail("descriptor-write-before-flush", "descriptor-write-before-flush",
                                 strf("op %d (%s) wrote %zu bytes into a descriptor block of the base file (offset %lld) outside the "
                                      "descriptor flush: %s",
                                      rec.op, p.ops[(size_t)rec.op].kind.c_str(), rec.data.size(), (long long)rec.off, rec.site.c_str()));
                }
                if (in_dd || (first_flush >= 0 && rec.op >= first_flush && p.ops[(size_t)first_flush].kind == "sync"))
                    break;
                pre++;
                ctx.st.checks++;
                if (rec.kind != 0 || rec.off < l0)
                    ctx.fail("write-into-old-space", "write-into-old-space",
                             strf("op %d (%s) wrote %zu bytes at offset %lld before the descriptor flush; the stored objects "
                                  "and descriptor blocks of the file ended at %lld when the session began",
                                  rec.op, p.ops[(size_t)rec.op].kind.c_str(), rec.data.size(), (long long)rec.off,
                                  (long long)l0));
            }
            Blob b;
            b.str(d0);
            b.str(simfs::wlog_serialize(w));
            b.u64(pre);
            b.u64((uint64_t)l0);
            ctx.out = b.s;
            ctx.probe(p.knob("kind", 0) == 0 ? "session-hv-new" : "session-other");
            return;
        }
        // mode 1
        simfs::disk_restore(simfs::disk_deserialize(*ctx.in));
        mx.on_disk  = true;
        mx.acc_mode = DFACC_READ;
        Blob b;
        for (size_t i = verify + 1; i < p.ops.size(); i++) {
            ctx.begin_op((int)i);
            uint64_t before   = ctx.st.transcript;
            ctx.st.transcript = 1469598103934665603ULL;
            bool failed_before = mx.call_failed;
            mx.run(p.ops[i]);
            ctx.st.ops_done++;
            b.u64(i);
            b.u64(mx.absent ? 1 : 0);
            b.u64((mx.call_failed && !failed_before) ? 1 : 0);
            b.u64(ctx.st.transcript);
            ctx.st.transcript = fnv64i(ctx.st.transcript, before);
            if (mx.call_failed && !failed_before)
                b.str(mx.failed_call);
            else
                b.str("");
            mx.call_failed = false;
        }
        ctx.out = b.s;
    }

    struct Rd {
        size_t      op;
        bool        absent, failed;
        uint64_t    hash;
        std::string call;
    };
    static std::vector<Rd> parse_reads(const std::string &s)
    {
        std::vector<Rd> v;
        Blob            b;
        b.s = s;
        while (b.p + 32 <= b.s.size()) {
            Rd r;
            r.op     = (size_t)b.g64();
            r.absent = b.g64() != 0;
            r.failed = b.g64() != 0;
            r.hash   = b.g64();
            r.call   = b.gstr();
            v.push_back(r);
        }
        return v;
    }

    Outcome judge(const Plan &plan, Exec &ex) override
    {
        Outcome rec = ex.run(plan, 0);
        if (rec.status != ST_OK)
            return rec;
        if (rec.blob.empty())
            return rec; // phase A created nothing: trivial case
        Blob b;
        b.s                  = rec.blob;
        std::string d0       = b.gstr();
        auto        wlog     = simfs::wlog_deserialize(b.gstr());
        uint64_t    pre      = b.g64();
        uint64_t    l0       = b.g64();
        (void)l0;
        Outcome ref = ex.run(plan, 1, &d0);
        accumulate(ex.agg_extra, ref.st);
        if (ref.status != ST_OK) {
            ref.v.msg = "verifying the untouched base file: " + ref.v.msg;
            return ref;
        }
        std::vector<Rd> t0 = parse_reads(ref.blob);
        int             base_objects = 0;
        for (auto &r : t0) {
            if (r.failed) {
                Outcome o;
                o.status = ST_VIOL;
                o.v.cls  = "base-unreadable";
                o.v.key  = "base-unreadable:" + r.call;
                o.v.msg  = strf("the cleanly closed base file cannot be read back: %s failed in verify op %zu (%s)",
                               r.call.c_str(), r.op, plan.ops[r.op].kind.c_str());
                o.st     = rec.st;
                return o;
            }
            if (!r.absent)
                base_objects++;
        }
        bool     all_k = plan.knob("kind", 0) == 0;
        uint64_t kmax  = all_k ? wlog.size() : pre;
        int64_t  only  = plan.knob("crash_at", -1);
        simfs::Disk img = simfs::disk_deserialize(d0);
        Outcome     result = rec;
        result.st.checks += (int)t0.size();
        for (uint64_t k = 0; k <= kmax; k++) {
            if (k > 0)
                simfs::disk_apply(img, wlog[(size_t)k - 1]);
            if (only >= 0 && (uint64_t)only != k)
                continue;
            if (k == 0)
                continue; // the base itself was verified above
            std::string ser = simfs::disk_serialize(img);
            Outcome     o   = ex.run(plan, 1, &ser);
            accumulate(ex.agg_extra, o.st);
            ex.agg_extra.probes["crash-images"]++;
            if (k > pre)
                ex.agg_extra.probes["images-inside-flush"]++;
            const simfs::WriteRec &last = wlog[(size_t)k - 1];
            std::string where = strf("after write %llu of %zu (op %d %s: %zu bytes at offset %lld, %s the first flushing call)",
                                     (unsigned long long)k, wlog.size(), last.op, plan.ops[(size_t)last.op].kind.c_str(),
                                     last.data.size(), (long long)last.off, k <= pre ? "before" : "inside/after");
            std::string phase = k <= pre ? "before-flush" : "in-flush";
            if (o.status != ST_OK) {
                o.v.msg = "opening/reading the crash image " + where + ": " + o.v.msg;
                o.v.key = "crash-image:" + phase + ":" + o.v.key;
                o.st    = result.st;
                return o;
            }
            std::vector<Rd> tk = parse_reads(o.blob);
            for (size_t i = 0; i < t0.size() && i < tk.size(); i++) {
                if (t0[i].absent)
                    continue; // not a previously stored object
                if (tk[i].failed || tk[i].absent || tk[i].hash != t0[i].hash) {
                    Outcome v;
                    v.status = ST_VIOL;
                    v.v.cls  = "old-object-damaged";
                    v.v.key  = strf("old-object-damaged:%s:%s", phase.c_str(), all_k ? "hv-new" : "other");
                    v.v.op   = (int)last.op;
                    v.v.msg  = strf("crash %s: previously stored object read by verify op %zu (%s %lld %lld %lld) %s",
                                   where.c_str(), t0[i].op, plan.ops[t0[i].op].kind.c_str(),
                                   (long long)plan.ops[t0[i].op].arg(0), (long long)plan.ops[t0[i].op].arg(1),
                                   (long long)plan.ops[t0[i].op].arg(2),
                                   tk[i].failed   ? ("cannot be read: " + tk[i].call + " failed").c_str()
                                   : tk[i].absent ? "has disappeared"
                                                  : "reads back different content");
                    v.st     = result.st;
                    return v;
                }
            }
        }
        // a new DD block in the session?  (ndds small and enough new descriptors)
        if (wlog.size() >= 3 && base_objects >= 1)
            result.st.checks++;
        return result;
    }

    bool nontrivial(const Outcome &o) const override { return o.st.ops_done >= 3 && o.st.checks > 0; }
};

Registrar reg(new Crash);

} // namespace
} // namespace h4
