// prof_format.cc -- C02: every file written is a well-formed, independently readable HDF4 file.
//
// The mixed H/V/VS/SD/GR/AN workload runs in several sessions; at every point where the library has closed or
// flushed the file (Hclose after the end of a session, Hsync) the bytes on the simulated disk go to `specreader`,
// which implements only /verif/FORMAT_NOTES.md:
//   (1) structural rules of the format (magic, descriptor chain, duplicates, bounds, overlap, special-element records,
//       Vdata/Vgroup records),
//   (2) the descriptor set and the logical content of every element it recovers equal what the library's own calls
//       return for the same file,
//   (3) the raw (offset,length) lists of HDgetdatainfo/VSgetdatainfo/SDgetdatainfo/GRgetdatainfo/ANgetdatainfo are
//       exactly the extents the reader finds, for info_count 0, smaller, equal and larger, with a canary behind the arrays.
#include "hx.h"
#include "mixed.h"
#include "specreader.h"
#include <set>

namespace h4 {
namespace {

struct Format : Profile {
    const char *name() const override { return "format"; }
    const char *property() const override { return "C02"; }
    int         runs(bool thorough) const override { return thorough ? 120000 : 5000; }
    std::string rule() const override
    {
        return "each case = one generated plan of 2..5 sessions of the mixed H/V/VS/SD/GR/AN workload (plain, linked-block with 1..3 "
               "blocks per table, appended/promoted, external, compressed, chunked objects; Hdupdd aliases; deletes) with descriptor "
               "blocks of 1..8 or 16 entries, DD caching on/off, linked-block and Vdata buffer hooks; after every session end and "
               "every Hsync the disk image is read by an independent format-only reader: structural rules, descriptor set and "
               "element contents against the library's own reads, Vdata/Vgroup records against VSinquire/Vgettagrefs, raw data "
               "locations from the *getdatainfo calls (count query, short, exact and long arrays) against the reader's extents";
    }
    std::vector<std::string> assumptions() const override
    {
        return {"skipping-Huffman and n-bit payloads are checked structurally only (the independent reader does not decode them)",
                "at an Hsync point only the structural rules are checked (the library still has the file open for writing)"};
    }
    std::vector<std::string> required_probes() const override
    {
        return {"image-at-close", "image-at-sync", "linked-element", "linked-multi-table", "external-element", "compressed-element", "chunked-element",
                "datainfo-linked", "datainfo-short-array", "vdata-record-checked", "vgroup-record-checked", "alias", "dd-blocks>1", "sd-datainfo", "gr-datainfo", "sd-values-checked", "gr-values-checked", "sd-attr-datainfo", "sd-ann-datainfo", "sd-ann-datainfo-short-array",
                "an-datainfo", "session-view-compared", "vg-member-deleted", "vs-attr-datainfo", "vg-attr-datainfo"};
    }

    Plan generate(Rng &rng, bool thorough, uint64_t) override
    {
        Plan p;
        p.seed          = rng.next();
        Rng kr          = rng.sub(1);
        p.knobs["ndds"] = kr.chance(0.65) ? kr.range(1, 8) : 16;
        if (kr.chance(0.3))
            p.knobs["cacheoff"] = 1;
        if (kr.chance(0.6))
            p.knobs["blklen"] = kr.range(1, 48);
        if (kr.chance(0.6))
            p.knobs["blknum"] = kr.range(1, 3);
        if (kr.chance(0.3))
            p.knobs["vsbuf"] = kr.range(8, 200);
        Rng r       = rng.sub(2);
        int nsess   = (int)r.range(2, thorough ? 6 : 5);
        int hfocus  = r.chance(0.4); // sessions dominated by raw elements (linked-block tables, descriptor blocks)
        for (int s = 0; s < nsess; s++) {
            int n = (int)r.range(2, thorough ? 16 : 12);
            for (int i = 0; i < n; i++) {
                int fam = hfocus && r.chance(0.75) ? 0 : (int)r.below(5);
                if (r.chance(0.08))
                    p.ops.push_back(mkop(0, "hext", {(int64_t)r.below(3), (int64_t)r.below(8), 1 + r.sizeish(60), (int64_t)(r.next() >> 16)}));
                else if (r.chance(0.06))
                    p.ops.push_back(mkop(0, "hdup", {(int64_t)r.below(3), (int64_t)r.below(8), (int64_t)r.below(8)}));
                else if (r.chance(0.05))
                    p.ops.push_back(mkop(0, "hdel", {(int64_t)r.below(2), (int64_t)r.below(3), (int64_t)r.below(8)}));
                else if (r.chance(0.06)) {
                    int64_t ds = (int64_t)r.below(5);
                    for (int q = (int)r.range(1, 3); q > 0; q--) // several annotations on one dataset: more than a short array holds
                        p.ops.push_back(mkop(0, "sdann", {ds, (int64_t)r.below(2), (int64_t)r.below(1000)}));
                }
                else if (fam == 0 && r.chance(0.5)) // appends in one call that cross several blocks and tables
                    p.ops.push_back(mkop(0, "happend", {(int64_t)r.below(2), (int64_t)r.below(3), (int64_t)r.below(8), 1 + r.sizeish(r.chance(0.3) ? 400 : 90), (int64_t)(r.next() >> 16)}));
                else
                    p.ops.push_back(MixedGen::write_op(r, fam, false, 90));
                if (r.chance(0.07))
                    p.ops.push_back(mkop(0, "sync", {}));
            }
            p.ops.push_back(mkop(0, "end", {}));
        }
        return p;
    }
    bool removable(const Plan &p, size_t i) const override { return p.ops[i].kind != "end" || i + 1 != p.ops.size(); }

    // ------------------------------------------------------------------ the checks at a sync point
    struct Img {
        spec::Reader rd;
    };
    void load(Img &im, const std::string &path)
    {
        im.rd.f        = simfs::file_bytes(simfs::disk(), path);
        // the workload's Hdupdd aliases carry tags 8400..8402: an alias and its original start at the same offset, and
        // the original may have grown in place (it was the last element of the file) after the alias was made
        im.rd.declared_alias = [](const spec::DD &a, const spec::DD &b) { return (a.base() >= 8400 && a.base() <= 8402) || (b.base() >= 8400 && b.base() <= 8402); };
        im.rd.external = [](const std::string &name, std::vector<uint8_t> &out) {
            auto &d = simfs::disk();
            if (!d.count(name))
                return false;
            out = simfs::file_bytes(d, name);
            return true;
        };
    }
    void structural(Ctx &ctx, Img &im, const char *when)
    {
        const std::vector<std::string> &e = im.rd.validate();
        ctx.st.checks++;
        if (!e.empty()) {
            std::string cls = e[0].substr(0, e[0].find_first_of("0123456789"));
            while (!cls.empty() && cls.back() == ' ')
                cls.pop_back();
            ctx.fail("malformed-file", "malformed-file:" + cls.substr(0, 40), strf("%s: the file does not satisfy the format: %s%s", when, e[0].c_str(), e.size() > 1 ? strf(" (+%zu more)", e.size() - 1).c_str() : ""));
        }
        if (im.rd.ddblocks.size() > 1)
            ctx.probe("dd-blocks>1");
    }

    // canaried call of a getdatainfo function: fn(start, count, offs, lens) -> n
    template <class F>
    void datainfo_check(Ctx &ctx, const char *api, const std::string &what, const std::vector<spec::Extent> &want, F fn)
    {
        int n0 = fn(0u, 0u, (int32 *)NULL, (int32 *)NULL);
        ctx.st.checks++;
        if (n0 != (int)want.size())
            ctx.fail("datainfo-mismatch", strf("datainfo-mismatch:count:%s", api),
                     strf("%s(%s) counts %d data block(s); an independent reader of the file finds %zu", api, what.c_str(), n0, want.size()));
        if (want.empty())
            return;
        size_t sizes[4] = {want.size(), want.size() > 1 ? want.size() - 1 : 1, 1, want.size() + 3};
        for (size_t si = 0; si < 4; si++) {
            size_t             cnt = sizes[si];
            std::vector<int32> off(cnt + 4, 0x5A5A5A5A), len(cnt + 4, 0x5A5A5A5A);
            int                n = fn(0u, (unsigned)cnt, off.data(), len.data());
            if (n == FAIL)
                ctx.fail("datainfo-mismatch", strf("datainfo-mismatch:refused:%s", api), strf("%s(%s) with room for %zu of %zu block(s) failed: %s", api, what.c_str(), cnt, want.size(), herr().c_str()));
            for (size_t j = cnt; j < cnt + 4; j++)
                if (off[j] != 0x5A5A5A5A || len[j] != 0x5A5A5A5A)
                    ctx.fail("datainfo-overrun", strf("datainfo-overrun:%s", api),
                             strf("%s(%s) with room for %zu block(s) of %zu wrote behind the caller's arrays", api, what.c_str(), cnt, want.size()));
            if (n > (int)cnt || n != (int)std::min(cnt, want.size()))
                ctx.fail("datainfo-mismatch", strf("datainfo-mismatch:returned:%s", api),
                         strf("%s(%s) with room for %zu block(s) returned %d; the element has %zu", api, what.c_str(), cnt, n, want.size()));
            for (int j = 0; j < n; j++)
                if (off[(size_t)j] != want[(size_t)j].off || len[(size_t)j] != want[(size_t)j].len)
                    ctx.fail("datainfo-mismatch", strf("datainfo-mismatch:location:%s", api),
                             strf("%s(%s): block %d of %zu reported at offset %d length %d; an independent reader finds those bytes at offset %lld length %lld", api, what.c_str(), j,
                                  want.size(), (int)off[(size_t)j], (int)len[(size_t)j], (long long)want[(size_t)j].off, (long long)want[(size_t)j].len));
            if (cnt < want.size())
                ctx.probe("datainfo-short-array");
        }
    }

    // the image against the library's own view of the same (closed) file
    void differential(Ctx &ctx, Img &im, const std::string &path)
    {
        spec::Reader &rd  = im.rd;
        int32         fid = Hopen(path.c_str(), DFACC_READ, 0);
        if (fid == FAIL)
            ctx.fail("reopen-failed", "reopen-failed", strf("the library cannot open the file it closed: %s", herr().c_str()));
        // (a) descriptor set
        std::set<std::pair<int, int>> lib;
        uint16 tag = 0, ref = 0;
        int32  off = 0, len = 0;
        while (Hfind(fid, DFTAG_WILDCARD, DFREF_WILDCARD, &tag, &ref, &off, &len, DF_FORWARD) != FAIL) {
            uint16 base = (tag & 0x8000) ? tag : (uint16)(tag & ~0x4000);
            if (!lib.insert({base, ref}).second)
                ctx.fail("descriptor-mismatch", "descriptor-mismatch:twice", strf("Hfind enumerates %d/%d twice", base, ref));
            const spec::DD *x = rd.find(base, ref);
            ctx.st.checks++;
            if (!x)
                ctx.fail("descriptor-mismatch", "descriptor-mismatch:not-on-disk", strf("the library lists %d/%d, the descriptor blocks on disk do not contain it", base, ref));
            if (x->off != off || x->len != len)
                ctx.fail("descriptor-mismatch", "descriptor-mismatch:location",
                         strf("%d/%d: the library reports offset %d length %d, the descriptor on disk says offset %d length %d", base, ref, (int)off, (int)len, x->off, x->len));
        }
        for (auto &x : rd.dds)
            if (!lib.count({x.base(), x.ref}))
                ctx.fail("descriptor-mismatch", "descriptor-mismatch:not-listed", strf("descriptor %d/%d is on disk, Hfind does not enumerate it", x.base(), x.ref));
        // (b) logical content of every element, (c) raw locations
        for (auto &x : rd.dds) {
            if (x.off == -1 && x.len == -1)
                continue;
            std::vector<uint8_t> want;
            std::string          why;
            bool                 decoded = rd.content(x, want, why);
            if (!decoded && why.compare(0, 9, "undecoded") != 0)
                ctx.fail("malformed-file", "malformed-file:content", strf("element %d/%d cannot be recovered from the bytes on disk: %s", x.base(), x.ref, why.c_str()));
            int code = x.special() ? rd.u16(x.off) : 0;
            if (code == spec::SP_LINKED) {
                ctx.probe("linked-element");
                spec::Reader::Linked L;
                std::string          w2;
                if (rd.parse_linked(x, L, w2) && L.ntables > 1)
                    ctx.probe("linked-multi-table");
            }
            if (code == spec::SP_EXT)
                ctx.probe("external-element");
            if (code == spec::SP_COMP)
                ctx.probe("compressed-element");
            if (code == spec::SP_CHUNKED)
                ctx.probe("chunked-element");
            int32 aid = Hstartread(fid, x.base(), x.ref);
            if (aid == FAIL)
                ctx.fail("content-mismatch", "content-mismatch:unreadable", strf("Hstartread(%d/%d) fails on the closed file: %s", x.base(), x.ref, herr().c_str()));
            int32 llen = 0;
            Hinquire(aid, NULL, NULL, NULL, &llen, NULL, NULL, NULL, NULL);
            std::vector<uint8_t> got((size_t)std::max<int32>(llen, 0) + 8, 0x5A);
            int32                n = llen > 0 ? Hread(aid, llen, got.data()) : 0;
            Hendaccess(aid);
            if (decoded) {
                ctx.st.checks++;
                if (llen != (int32)want.size() || n != llen)
                    ctx.fail("content-mismatch", strf("content-mismatch:length:special%d", code),
                             strf("element %d/%d (special code %d): the library reads %d of %d bytes, an independent reader recovers %zu bytes from the file", x.base(), x.ref, code, (int)n,
                                  (int)llen, want.size()));
                if (memcmp(got.data(), want.data(), want.size()) != 0) {
                    size_t at = 0;
                    while (got[at] == want[at])
                        at++;
                    ctx.fail("content-mismatch", strf("content-mismatch:bytes:special%d", code),
                             strf("element %d/%d (special code %d, %zu bytes): byte %zu is %02x through the library, %02x for an independent reader of the file", x.base(), x.ref, code,
                                  want.size(), at, got[at], want[at]));
                }
            }
            // raw locations
            std::vector<spec::Extent> ext;
            if (code == spec::SP_EXT) {
                // the data of an external element is in no block of this file
                uint16 bt = x.base(), rf = x.ref;
                datainfo_check(ctx, "HDgetdatainfo", strf("external %d/%d", bt, rf), ext, [&](unsigned st, unsigned cnt, int32 *o, int32 *l) { return HDgetdatainfo(fid, bt, rf, NULL, st, cnt, o, l); });
            }
            else if (code == spec::SP_CHUNKED) {
                spec::Chunked c;
                uint16        bt = x.base(), rf = x.ref;
                if (rd.parse_chunked(x, c, why))
                    for (auto &rec : c.recs) {
                        const spec::DD           *cd = rd.find(rec.tag, rec.ref);
                        std::vector<spec::Extent> ce;
                        if (!cd || !rd.extents(*cd, ce, why))
                            continue;
                        std::vector<int32> co(rec.origin.begin(), rec.origin.end());
                        datainfo_check(ctx, "HDgetdatainfo", strf("chunk of %d/%d", bt, rf), ce,
                                       [&](unsigned st, unsigned cnt, int32 *o, int32 *l) { return HDgetdatainfo(fid, bt, rf, co.data(), st, cnt, o, l); });
                        ctx.probe("datainfo-chunk");
                    }
            }
            else if (rd.extents(x, ext, why)) {
                uint16 bt = x.base(), rf = x.ref;
                datainfo_check(ctx, "HDgetdatainfo", strf("%d/%d", bt, rf), ext,
                               [&](unsigned st, unsigned cnt, int32 *o, int32 *l) { return HDgetdatainfo(fid, bt, rf, NULL, st, cnt, o, l); });
                if (code == spec::SP_LINKED)
                    ctx.probe("datainfo-linked");
            }
            bool alias = false;
            for (auto &y : rd.dds)
                alias |= &y != &x && y.off == x.off && y.len == x.len && x.len > 0;
            if (alias)
                ctx.probe("alias");
        }
        // (d) Vdata and Vgroup records against the V interface
        if (Vstart(fid) != FAIL) {
            for (auto &x : rd.dds) {
                std::string why;
                if (x.base() == spec::T_VH && rd.has_data(x)) {
                    spec::Vdata v;
                    if (!rd.parse_vh(x, v, why))
                        continue; // reported by validate()
                    int32 vs = VSattach(fid, x.ref, "r");
                    if (vs == FAIL)
                        ctx.fail("record-mismatch", "record-mismatch:vdata-unattachable", strf("Vdata %d is on disk, VSattach fails: %s", x.ref, herr().c_str()));
                    int32 n = 0, il = 0, sz = 0;
                    char  fl[VSFIELDMAX * (FIELDNAMELENMAX + 1)] = "", nm[VSNAMELENMAX + 1] = "", cl[VSNAMELENMAX + 1] = "";
                    VSinquire(vs, &n, &il, fl, &sz, nm);
                    VSgetclass(vs, cl);
                    std::string fields;
                    for (auto &f : v.fields)
                        fields += (fields.empty() ? "" : ",") + f.name;
                    ctx.st.checks++;
                    if (n != v.nrec || il != v.interlace || fields != fl || v.name != nm || v.cls != cl || VFnfields(vs) != (int32)v.fields.size())
                        ctx.fail("record-mismatch", "record-mismatch:vdata",
                                 strf("Vdata %d: the library says %d records, interlace %d, fields '%s', name '%s', class '%s'; the header on disk says %d, %d, '%s', '%s', '%s'", x.ref,
                                      (int)n, (int)il, fl, nm, cl, v.nrec, v.interlace, fields.c_str(), v.name.c_str(), v.cls.c_str()));
                    for (size_t j = 0; j < v.fields.size(); j++)
                        if (VFfieldtype(vs, (int32)j) != v.fields[j].type || VFfieldorder(vs, (int32)j) != v.fields[j].order || VFfieldisize(vs, (int32)j) != v.fields[j].isize)
                            ctx.fail("record-mismatch", "record-mismatch:vdata-field", strf("Vdata %d field %zu: type/order/size differ between the library and the header on disk", x.ref, j));
                    // data locations
                    const spec::DD *vd = rd.find(spec::T_VS, x.ref);
                    std::vector<spec::Extent> ext;
                    if (vd && (!vd->special() || rd.u16(vd->off) == spec::SP_LINKED) && rd.extents(*vd, ext, why)) {
                        if (v.nrec == 0)
                            ext.clear();
                        datainfo_check(ctx, "VSgetdatainfo", strf("vdata %d", x.ref), ext, [&](unsigned st, unsigned cnt, int32 *o, int32 *l) { return VSgetdatainfo(vs, st, cnt, o, l); });
                    }
                    // attributes of the vdata and of its fields: where their data lies
                    for (int32 fi = -1; fi < (int32)v.fields.size(); fi++) {
                        int32 findex = fi < 0 ? _HDF_VDATA : fi;
                        intn  na     = VSfnattrs(vs, findex);
                        for (intn a = 0; a < na; a++) {
                            char  an[256] = "";
                            int32 at = 0, cnt = 0, sz = 0, off = -1, len = -1;
                            if (VSattrinfo(vs, findex, a, an, &at, &cnt, &sz) == FAIL || sz <= 0 || sz > 4096)
                                continue;
                            std::vector<uint8_t> val((size_t)sz + 8);
                            if (VSgetattr(vs, findex, a, val.data()) == FAIL)
                                ctx.fail("record-mismatch", "record-mismatch:vsattr", strf("VSgetattr(vdata %d, field %d, attribute %d) failed", x.ref, (int)findex, (int)a));
                            intn rc = VSgetattdatainfo(vs, findex, a, &off, &len);
                            attr_location(ctx, rd, "VSgetattdatainfo", strf("vdata %d, field %d, attribute %d '%s'", x.ref, (int)findex, (int)a, an), rc, off, len, at, cnt, val.data());
                            ctx.probe("vs-attr-datainfo");
                        }
                    }
                    VSdetach(vs);
                    ctx.probe("vdata-record-checked");
                }
                if (x.base() == spec::T_VG && rd.has_data(x)) {
                    spec::Vgroup g;
                    if (!rd.parse_vg(x, g, why))
                        continue;
                    int32 vg = Vattach(fid, x.ref, "r");
                    if (vg == FAIL)
                        ctx.fail("record-mismatch", "record-mismatch:vgroup-unattachable", strf("Vgroup %d is on disk, Vattach fails: %s", x.ref, herr().c_str()));
                    int32  n = Vntagrefs(vg);
                    uint16 nl = 0, cll = 0;
                    Vgetnamelen(vg, &nl);
                    Vgetclassnamelen(vg, &cll);
                    std::vector<char>  nm((size_t)nl + 2, 0), cl((size_t)cll + 2, 0);
                    std::vector<int32> tg((size_t)std::max<int32>(n, 1)), rf((size_t)std::max<int32>(n, 1));
                    Vgetname(vg, nm.data());
                    Vgetclass(vg, cl.data());
                    if (n > 0)
                        Vgettagrefs(vg, tg.data(), rf.data(), n);
                    ctx.st.checks++;
                    bool same = n == (int32)g.members.size() && g.name == nm.data() && g.cls == cl.data();
                    for (int32 j = 0; same && j < n; j++)
                        same = tg[(size_t)j] == g.members[(size_t)j].first && rf[(size_t)j] == g.members[(size_t)j].second;
                    if (!same)
                        ctx.fail("record-mismatch", "record-mismatch:vgroup",
                                 strf("Vgroup %d: the library says %d members, name '%s', class '%s'; the record on disk says %zu, '%s', '%s' (or the member lists differ)", x.ref, (int)n,
                                      nm.data(), cl.data(), g.members.size(), g.name.c_str(), g.cls.c_str()));
                    for (intn a = 0; a < Vnattrs(vg); a++) {
                        char  an[256] = "";
                        int32 at = 0, cnt = 0, sz = 0, off = -1, len = -1;
                        if (Vattrinfo(vg, a, an, &at, &cnt, &sz) == FAIL || sz <= 0 || sz > 4096)
                            continue;
                        std::vector<uint8_t> val((size_t)sz + 8);
                        if (Vgetattr(vg, a, val.data()) == FAIL)
                            ctx.fail("record-mismatch", "record-mismatch:vattr", strf("Vgetattr(vgroup %d, attribute %d) failed", x.ref, (int)a));
                        intn rc = Vgetattdatainfo(vg, a, &off, &len);
                        attr_location(ctx, rd, "Vgetattdatainfo", strf("vgroup %d, attribute %d '%s'", x.ref, (int)a, an), rc, off, len, at, cnt, val.data());
                        ctx.probe("vg-attr-datainfo");
                    }
                    Vdetach(vg);
                    ctx.probe("vgroup-record-checked");
                }
            }
            Vend(fid);
        }
        // (e) annotations: the text lies behind the 4-byte object reference (data annotations) or is the whole element
        int32 an = ANstart(fid);
        if (an != FAIL) {
            int32 nfl = 0, nfd = 0, ndl = 0, ndd = 0;
            ANfileinfo(an, &nfl, &nfd, &ndl, &ndd);
            const ann_type types[4] = {AN_FILE_LABEL, AN_FILE_DESC, AN_DATA_LABEL, AN_DATA_DESC};
            const int32    counts[4] = {nfl, nfd, ndl, ndd};
            for (int t = 0; t < 4; t++)
                for (int32 j = 0; j < counts[t]; j++) {
                    int32 id = ANselect(an, j, types[t]);
                    if (id == FAIL)
                        continue;
                    uint16 atag = 0, aref = 0;
                    int32  o = -7, l = -7;
                    if (ANid2tagref(id, &atag, &aref) != FAIL && ANgetdatainfo(id, &o, &l) != FAIL) {
                        const spec::DD *x = rd.find(atag, aref);
                        ctx.st.checks++;
                        int skip = t >= 2 ? 4 : 0;
                        if (!x || o != x->off + skip || l != x->len - skip)
                            ctx.fail("datainfo-mismatch", "datainfo-mismatch:location:ANgetdatainfo",
                                     strf("ANgetdatainfo(annotation %d/%d) reports offset %d length %d; the element on disk is at offset %d length %d with %d leading bytes of object reference",
                                          atag, aref, (int)o, (int)l, x ? x->off : -1, x ? x->len : -1, skip));
                        ctx.probe("an-datainfo");
                    }
                    ANendaccess(id);
                }
            ANend(an);
        }
        Hclose(fid);
        // (f) SD datasets and GR images: data locations through their own interfaces
        sd_gr_datainfo(ctx, im, path);
    }

    // the bytes at the location the library reports for an attribute's data are the attribute's values (file order:
    // big-endian for the standard number types the workload uses)
    void attr_location(Ctx &ctx, spec::Reader &rd, const char *call, const std::string &what, intn rc, int32 off, int32 len, int32 nt, int32 count, const void *values)
    {
        ctx.st.checks++;
        size_t es = (size_t)DFKNTsize(nt & ~(DFNT_NATIVE | DFNT_LITEND));
        if (rc == FAIL)
            ctx.fail("datainfo-failed", std::string("datainfo-failed:") + call, strf("%s(%s) failed: %s", call, what.c_str(), herr().c_str()));
        if (es == 0 || es > 8)
            return;
        if (len != (int32)(es * (size_t)count) || off < 0 || (size_t)off + (size_t)len > rd.f.size())
            ctx.fail("datainfo-mismatch", std::string("datainfo-mismatch:") + call + ":extent",
                     strf("%s(%s) reports offset %d length %d; the attribute has %d values of %zu bytes, the file %zu bytes", call, what.c_str(), (int)off, (int)len, (int)count, es, rd.f.size()));
        const uint8_t *v = (const uint8_t *)values;
        for (int32 i = 0; i < count; i++)
            for (size_t b = 0; b < es; b++)
                if (rd.f[(size_t)off + (size_t)i * es + b] != v[(size_t)i * es + (es - 1 - b)])
                    ctx.fail("datainfo-mismatch", std::string("datainfo-mismatch:") + call + ":bytes",
                             strf("%s(%s): the %d bytes at offset %d are not the values the attribute call returns", call, what.c_str(), (int)len, (int)off));
    }

    // values the library hands out (host order) against the element bytes an independent reader recovers (file order)
    void same_values(Ctx &ctx, spec::Reader &rd, const spec::DD *x, int32 nt, const std::vector<uint8_t> &lib, size_t nvalues, const std::string &what)
    {
        std::vector<uint8_t> raw;
        std::string          why;
        if (!x || !rd.content(*x, raw, why))
            return; // no data yet, or a coder the independent reader does not decode
        if (raw.empty())
            return; // an element that holds no byte yet is "no data yet" as well (a read in a write session may have reserved it)
        size_t es = (size_t)DFKNTsize(nt & ~(DFNT_NATIVE | DFNT_LITEND));
        if (es == 0 || es > 8)
            return;
        bool swap = !(nt & DFNT_NATIVE) && !(nt & DFNT_LITEND); // big-endian in the file, little-endian host
        ctx.st.checks++;
        if (raw.size() < nvalues * es)
            ctx.fail("content-mismatch", "content-mismatch:object-length", strf("%s: the library delivers %zu values of %zu bytes, the data element on disk holds %zu bytes", what.c_str(), nvalues, es, raw.size()));
        for (size_t i = 0; i < nvalues; i++)
            for (size_t b = 0; b < es; b++)
                if (lib[i * es + b] != raw[i * es + (swap ? es - 1 - b : b)])
                    ctx.fail("content-mismatch", "content-mismatch:object-values",
                             strf("%s: value %zu read through the library is %s; an independent reader of the file finds %s (file byte order)", what.c_str(), i, hexs(lib.data() + i * es, es).c_str(),
                                  hexs(raw.data() + i * es, es).c_str()));
    }

    void sd_gr_datainfo(Ctx &ctx, Img &im, const std::string &path)
    {
        spec::Reader &rd = im.rd;
        // variable Vgroups (class Var0.0) name the data element 702/ref of a dataset
        std::map<std::string, uint16_t> sd_data, gr_data;
        std::map<std::string, std::map<std::string, uint16_t>> sd_attr; // variable name -> attribute name -> ref of its Vdata
        for (auto &x : rd.dds) {
            if (x.base() != spec::T_VG || !rd.has_data(x))
                continue;
            spec::Vgroup g;
            std::string  why;
            if (!rd.parse_vg(x, g, why))
                continue;
            for (auto &m : g.members) {
                if (g.cls == "Var0.0" && m.first == spec::T_SD)
                    sd_data[g.name] = m.second;
                if (g.cls == "Var0.0" && m.first == spec::T_VH) {
                    const spec::DD *vh = rd.find(spec::T_VH, m.second);
                    spec::Vdata     v;
                    std::string     w2;
                    if (vh && rd.has_data(*vh) && rd.parse_vh(*vh, v, w2) && v.cls == "Attr0.0")
                        sd_attr[g.name][v.name] = m.second;
                }
                if (g.cls == "RI0.0" && m.first == spec::T_RI)
                    gr_data[g.name] = m.second;
            }
        }
        int32 sd = SDstart(path.c_str(), DFACC_READ);
        if (sd != FAIL) {
            int32 nds = 0, na = 0;
            SDfileinfo(sd, &nds, &na);
            for (int32 i = 0; i < nds; i++) {
                int32 id = SDselect(sd, i);
                char  nm[H4_MAX_NC_NAME + 1] = "";
                int32 rank = 0, dims[H4_MAX_VAR_DIMS], nt = 0, nat = 0;
                if (id == FAIL || SDgetinfo(id, nm, &rank, dims, &nt, &nat) == FAIL || SDiscoordvar(id))
                    continue;
                auto it = sd_data.find(nm);
                std::vector<spec::Extent> ext;
                std::string               why;
                const spec::DD *x = it == sd_data.end() ? nullptr : rd.find(spec::T_SD, it->second);
                {
                    size_t nval = 1;
                    int32  st[H4_MAX_VAR_DIMS] = {0};
                    for (int d = 0; d < rank; d++)
                        nval *= (size_t)std::max<int32>(dims[d], 0);
                    size_t es = (size_t)DFKNTsize(nt & ~(DFNT_NATIVE | DFNT_LITEND));
                    if (x && nval > 0 && nval < 100000 && es > 0) {
                        std::vector<uint8_t> lib(nval * es);
                        if (SDreaddata(id, st, NULL, dims, lib.data()) != FAIL) {
                            same_values(ctx, rd, x, nt, lib, nval, strf("dataset %s", nm));
                            ctx.probe("sd-values-checked");
                        }
                    }
                }
                // annotations of the dataset: SDgetanndatainfo against the DIL/DIA elements on disk that name its NDG
                {
                    int32 ndgref = SDidtoref(id);
                    for (int kind = 0; kind < 2 && ndgref > 0; kind++) {
                        std::vector<spec::Extent> want;
                        for (auto &y : rd.dds)
                            if (y.base() == (kind ? spec::T_DIA : spec::T_DIL) && rd.has_data(y) && y.len >= 4 && rd.u16(y.off) == spec::T_NDG && rd.u16(y.off + 2) == (uint16_t)ndgref)
                                want.push_back({(int64_t)y.off + 4, (int64_t)y.len - 4});
                        ann_type at = kind ? AN_DATA_DESC : AN_DATA_LABEL;
                        int      n0 = SDgetanndatainfo(id, at, 0, NULL, NULL);
                        ctx.st.checks++;
                        if (n0 != (int)want.size())
                            ctx.fail("datainfo-mismatch", "datainfo-mismatch:count:SDgetanndatainfo",
                                     strf("SDgetanndatainfo(dataset %s, %s) counts %d annotation(s); the file holds %zu that name its NDG %d", nm, kind ? "descriptions" : "labels", n0, want.size(), (int)ndgref));
                        size_t sizes[3] = {1, want.size(), want.size() + 2};
                        for (size_t si = 0; si < 3 && !want.empty(); si++) {
                            size_t             cnt = sizes[si];
                            std::vector<int32> off(cnt + 4, 0x5A5A5A5A), len(cnt + 4, 0x5A5A5A5A);
                            int                n = SDgetanndatainfo(id, at, (unsigned)cnt, off.data(), len.data());
                            for (size_t j = cnt; j < cnt + 4; j++)
                                if (off[j] != 0x5A5A5A5A || len[j] != 0x5A5A5A5A)
                                    ctx.fail("datainfo-overrun", "datainfo-overrun:SDgetanndatainfo", strf("SDgetanndatainfo with room for %zu of %zu annotation(s) wrote behind the caller's arrays", cnt, want.size()));
                            if (n != (int)std::min(cnt, want.size()))
                                ctx.fail("datainfo-mismatch", "datainfo-mismatch:returned:SDgetanndatainfo", strf("SDgetanndatainfo with room for %zu of %zu annotation(s) returned %d", cnt, want.size(), n));
                            for (int j = 0; j < n; j++) {
                                bool found = false;
                                for (auto &w : want)
                                    found |= w.off == off[(size_t)j] && w.len == len[(size_t)j];
                                if (!found)
                                    ctx.fail("datainfo-mismatch", "datainfo-mismatch:location:SDgetanndatainfo",
                                             strf("SDgetanndatainfo(dataset %s) reports an annotation text at offset %d length %d; no annotation of the dataset lies there", nm, (int)off[(size_t)j], (int)len[(size_t)j]));
                            }
                            if (cnt < want.size())
                                ctx.probe("sd-ann-datainfo-short-array");
                        }
                        if (!want.empty())
                            ctx.probe("sd-ann-datainfo");
                    }
                }
                for (int32 a = 0; a < nat; a++) {
                    char  an[H4_MAX_NC_NAME + 1] = "";
                    int32 ant = 0, cnt = 0, ao = -7, al = -7;
                    if (SDattrinfo(id, a, an, &ant, &cnt) == FAIL || SDgetattdatainfo(id, a, &ao, &al) == FAIL)
                        continue;
                    auto va = sd_attr.find(nm);
                    if (va == sd_attr.end() || !va->second.count(an))
                        continue;
                    const spec::DD *ad = rd.find(spec::T_VS, va->second[an]);
                    ctx.st.checks++;
                    if (!ad || ad->special() || ao != ad->off || al != ad->len)
                        ctx.fail("datainfo-mismatch", "datainfo-mismatch:location:SDgetattdatainfo",
                                 strf("SDgetattdatainfo(dataset %s, attribute %s) reports offset %d length %d; the attribute's Vdata data on disk is at offset %d length %d", nm, an, (int)ao, (int)al,
                                      ad ? ad->off : -1, ad ? ad->len : -1));
                    ctx.probe("sd-attr-datainfo");
                }
                if (x && x->special() && rd.u16(x->off) == spec::SP_CHUNKED) {
                    // per chunk: the coordinates come from the chunk table on disk
                    spec::Chunked c;
                    if (rd.parse_chunked(*x, c, why))
                        for (auto &rec : c.recs) {
                            const spec::DD *cd = rd.find(rec.tag, rec.ref);
                            std::vector<spec::Extent> ce;
                            if (!cd || !rd.extents(*cd, ce, why))
                                continue;
                            std::vector<int32> co(rec.origin.begin(), rec.origin.end());
                            datainfo_check(ctx, "SDgetdatainfo", strf("dataset %s chunk %d..", nm, (int)co[0]), ce,
                                           [&](unsigned st, unsigned cnt, int32 *o, int32 *l) { return SDgetdatainfo(id, co.data(), st, cnt, o, l); });
                            ctx.probe("sd-datainfo-chunk");
                        }
                }
                else if (!x || rd.extents(*x, ext, why)) {
                    if (!x || !(x->special() && rd.u16(x->off) == spec::SP_EXT)) {
                        datainfo_check(ctx, "SDgetdatainfo", strf("dataset %s", nm), ext, [&](unsigned st, unsigned cnt, int32 *o, int32 *l) { return SDgetdatainfo(id, NULL, st, cnt, o, l); });
                        ctx.probe("sd-datainfo");
                    }
                }
                SDendaccess(id);
            }
            SDend(sd);
        }
        int32 fid = Hopen(path.c_str(), DFACC_READ, 0), gr = fid == FAIL ? FAIL : GRstart(fid);
        if (gr != FAIL) {
            int32 nimg = 0, na = 0;
            GRfileinfo(gr, &nimg, &na);
            for (int32 i = 0; i < nimg; i++) {
                int32 ri = GRselect(gr, i);
                char  nm[H4_MAX_GR_NAME + 1] = "";
                int32 nc = 0, nt = 0, il = 0, dm[2] = {0, 0}, nat = 0;
                if (ri == FAIL || GRgetiminfo(ri, nm, &nc, &nt, &il, dm, &nat) == FAIL)
                    continue;
                auto it = gr_data.find(nm);
                const spec::DD *x = it == gr_data.end() ? nullptr : rd.find(spec::T_RI, it->second);
                std::vector<spec::Extent> ext;
                std::string               why;
                {
                    size_t nval = (size_t)dm[0] * (size_t)dm[1] * (size_t)nc, es = (size_t)DFKNTsize(nt & ~(DFNT_NATIVE | DFNT_LITEND));
                    int32  st[2] = {0, 0};
                    if (x && nval > 0 && nval < 100000 && es > 0 && GRreqimageil(ri, MFGR_INTERLACE_PIXEL) != FAIL) {
                        std::vector<uint8_t> lib(nval * es);
                        if (GRreadimage(ri, st, NULL, dm, lib.data()) != FAIL) {
                            same_values(ctx, rd, x, nt, lib, nval, strf("image %s", nm));
                            ctx.probe("gr-values-checked");
                        }
                    }
                }
                if (x && x->special() && (rd.u16(x->off) == spec::SP_CHUNKED || rd.u16(x->off) == spec::SP_EXT)) {
                    GRendaccess(ri);
                    continue;
                }
                if (!x || rd.extents(*x, ext, why)) {
                    datainfo_check(ctx, "GRgetdatainfo", strf("image %s", nm), ext, [&](unsigned st, unsigned cnt, int32 *o, int32 *l) { return GRgetdatainfo(ri, st, cnt, o, l); });
                    ctx.probe("gr-datainfo");
                }
                GRendaccess(ri);
            }
            GRend(gr);
        }
        if (fid != FAIL)
            Hclose(fid);
    }

    // transcript hash of every read-all op (0 for an object that is not there); read failures are violations
    std::vector<uint64_t> read_everything(Ctx &ctx, Mixed &mx)
    {
        std::vector<Op> reads;
        MixedGen::read_all(reads);
        std::vector<uint64_t> out;
        for (auto &o : reads) {
            if (o.kind == "end")
                break;
            uint64_t before   = ctx.st.transcript;
            ctx.st.transcript = 1469598103934665603ULL;
            mx.run(o);
            out.push_back(mx.absent ? 0 : ctx.st.transcript);
            ctx.st.transcript = fnv64i(ctx.st.transcript, before);
            if (mx.call_failed)
                ctx.fail("read-failed", std::string("read-failed:") + mx.failed_call, strf("%s failed while reading everything back (%s)", mx.failed_call.c_str(), o.kind.c_str()));
        }
        return out;
    }

    void execute(Ctx &ctx) override
    {
        const Plan &p = ctx.plan;
        apply_hook_knobs(p);
        Mixed mx(ctx, "/sim/fmt.hdf");
        mx.ndds      = (int)p.knob("ndds", 16);
        mx.cache_off = p.knob("cacheoff", 0) != 0;
        for (size_t i = 0; i < p.ops.size(); i++) {
            ctx.begin_op((int)i);
            const Op &o = p.ops[i];
            std::vector<uint64_t> seen_in_session;
            bool                  compare_views = o.kind == "end" && mx.on_disk && !mx.call_failed;
            if (compare_views)
                seen_in_session = read_everything(ctx, mx); // what the session sees of every object just before it ends
            if (mx.run(o))
                ctx.st.ops_done++;
            else
                ctx.st.ops_skipped++;
            if (mx.call_failed)
                ctx.fail("workload-call-failed", "workload-call-failed:" + mx.failed_call,
                         strf("fault-free workload: %s failed in op %d (%s): %s", mx.failed_call.c_str(), mx.failed_op, p.ops[(size_t)mx.failed_op].kind.c_str(), herr().c_str()));
            if (!mx.on_disk)
                continue;
            if (o.kind == "sync") {
                Img im;
                load(im, mx.path);
                structural(ctx, im, "after Hsync");
                ctx.probe("image-at-sync");
            }
            else if (o.kind == "end") {
                Img im;
                load(im, mx.path);
                structural(ctx, im, "after the session was closed");
                differential(ctx, im, mx.path);
                ctx.probe("image-at-close");
                if (compare_views) {
                    // ... is what a new session reads from the closed file: nothing the session was shown is lost at close
                    int32 keep  = mx.acc_mode;
                    mx.acc_mode = DFACC_READ;
                    std::vector<uint64_t> seen_after = read_everything(ctx, mx);
                    mx.end_session();
                    mx.acc_mode = keep;
                    std::vector<Op> reads;
                    MixedGen::read_all(reads);
                    for (size_t q = 0; q < seen_in_session.size() && q < seen_after.size(); q++)
                        if (seen_in_session[q] != seen_after[q])
                            ctx.fail("session-view-lost", "session-view-lost:" + reads[q].kind,
                                     strf("read-all op %zu (%s %lld %lld): what the session read just before it closed the file differs from what a new "
                                          "session reads from the closed file",
                                          q, reads[q].kind.c_str(), (long long)reads[q].arg(0), (long long)reads[q].arg(1)));
                    ctx.probe("session-view-compared");
                }
                ctx.state(fnv64(im.rd.f.data(), std::min<size_t>(im.rd.f.size(), 4096)));
            }
        }
    }
};

Registrar reg(new Format);

} // namespace
} // namespace h4
