// prof_iofault.cc -- C16: I/O failures are reported, never silently swallowed, never corrupt memory.
// A program is first run fault-free to learn its I/O event trace.  Then, for every event of the trace and every
// fault kind that applies to it, the same program is run again in a fresh child with exactly that fault.
// Oracle: the child neither crashes, hangs nor trips ASan / misuses a closed stream; and if EVERY API call of the
// program including the final closes returned success, all simulated files are byte-identical to the fault-free
// run and everything the successful read calls returned is identical too.
#include "mixed.h"

namespace h4 {
namespace {

struct Blob {
    std::string s;
    size_t      p = 0;
    void        u64(uint64_t v) { s.append((const char *)&v, 8); }
    void        str(const std::string &x)
    {
        u64(x.size());
        s += x;
    }
    uint64_t g64()
    {
        uint64_t v = 0;
        if (p + 8 <= s.size())
            memcpy(&v, s.data() + p, 8);
        p += 8;
        return v;
    }
    std::string gstr()
    {
        uint64_t n = g64();
        if (p + n > s.size())
            return "";
        std::string r = s.substr(p, (size_t)n);
        p += (size_t)n;
        return r;
    }
};

struct IoFault : Profile {
    const char *name() const override { return "iofault"; }
    const char *property() const override { return "C16"; }
    const char *level() const override { return "fault_enumeration"; }
    int         runs(bool thorough) const override { return thorough ? 1200 : 88; }
    int         minimise_budget() const override { return 200; }
    std::string rule() const override
    {
        return "each case = one generated H/V/VS/SD/GR/AN write+read program (1-2 sessions); its fault-free I/O trace "
               "is enumerated: for EVERY event (all of them when the trace has <= 400 events, an evenly spaced 400 "
               "otherwise) and every applicable fault kind {eio, short, enospc, sticky, openfail} one faulty run in its "
               "own child; evaluations = child executions; non-trivial = program with >= 10 I/O events and >= 1 "
               "fault fired; distinct = distinct plan hash";
    }
    std::vector<std::string> assumptions() const override
    {
        return {"single faults and sticky/ENOSPC continuations, attached to an event that really happened in the fault-free run",
                "write-through stdio by default; a fraction of programs run with a buffered stdio model where the write "
                "error surfaces at the flush/seek/close that pushes the buffer out",
                "allocation failure is not injected (no property speaks about it)",
                "after the first call that reports failure the program only performs its releases and closes; data torn by "
                "a reported failure is never read back (that would be robustness against corrupt files)"};
    }
    std::vector<std::string> required_probes() const override { return {"faulty-runs", "fault-reported", "fault-harmless"}; }

    // The first cases of every batch are directed programs, one per storage layout: create the object, close, open again,
    // read it, rewrite it, read it, close.  Every layout's create, fetch, write-back and release paths then meet every
    // fault in every batch, however small (a random program reads a chunked dataset back only now and then).
    static const int NDIRECTED = 19;
    static void directed(std::vector<Op> &ops, Rng &r, int t)
    {
        int64_t ds = (int64_t)(r.next() >> 16), ds2 = (int64_t)(r.next() >> 16);
        auto    sd = [&](const char *kind, int64_t a6, int64_t a7) {
            if (a7 >= 0)
                ops.push_back(mkop(0, kind, {0, 1 + (int64_t)r.below(2), 2 + (int64_t)r.below(4), (int64_t)r.below(5), (int64_t)r.below(3), ds, a6, a7}));
            else
                ops.push_back(mkop(0, kind, {0, 1 + (int64_t)r.below(2), 2 + (int64_t)r.below(4), (int64_t)r.below(5), (int64_t)r.below(3), ds, a6}));
            ops.push_back(mkop(0, "end", {}));
            ops.push_back(mkop(0, "sdread", {0}));
            ops.push_back(mkop(0, "sdwrite", {0, ds2}));
            ops.push_back(mkop(0, "sdread", {0}));
        };
        if (t < 4)
            sd("sdnew", t, -1); // plain, unlimited, chunked, deflate
        else if (t < 9) {
            if (t == 8) // two datasets in one external file: the second one opens a file that exists already
                ops.push_back(mkop(0, "sdnew2", {1, 1, 3, 2, 0, ds2, 0, 4}));
            sd("sdnew2", 0, t - 4); // chunked+deflate, RLE, skipping Huffman, n-bit, external
        }
        else if (t == 9 || t == 10) {
            int64_t lk = t == 9 ? 1 : 0;
            if (lk)
                ops.push_back(mkop(0, "hlink", {1, 0, 0, 30, ds, 7, 2}));
            else
                ops.push_back(mkop(0, "hput", {0, 0, 0, 30, ds}));
            ops.push_back(mkop(0, "hput", {0, 1, 1, 10, ds2})); // something behind it, so that growth means promotion
            ops.push_back(mkop(0, "end", {}));
            ops.push_back(mkop(0, "hread", {lk, 0, 0}));
            ops.push_back(mkop(0, "happend", {lk, 0, 0, 40, ds2}));
            ops.push_back(mkop(0, "hread", {lk, 0, 0}));
        }
        else if (t == 11) {
            ops.push_back(mkop(0, "vsnew", {0, 20, 2, ds, 16}));
            ops.push_back(mkop(0, "vgnew", {0, 5}));
            ops.push_back(mkop(0, "end", {}));
            ops.push_back(mkop(0, "vsread", {0}));
            ops.push_back(mkop(0, "vsappend", {0, 25, 0, ds2}));
            ops.push_back(mkop(0, "vsread", {0}));
            ops.push_back(mkop(0, "vgread", {0}));
        }
        else if (t == 18) {
            // the switch back to fill mode stores the file's description in the middle of the session
            ops.push_back(mkop(0, "sdnew", {0, 0, 3, 2, 0, ds, 0}));
            ops.push_back(mkop(0, "sdfillmode", {0}));
            ops.push_back(mkop(0, "sdnew", {1, 0, 2, 2, 2, ds2, 0}));
            ops.push_back(mkop(0, "sdfillmode", {1}));
            ops.push_back(mkop(0, "end", {}));
            ops.push_back(mkop(0, "sdread", {0}));
            ops.push_back(mkop(0, "sdread", {1}));
        }
        else if (t == 17) {
            // a reader holds the file while the session's writing open swaps the stream under it
            ops.push_back(mkop(0, "hput", {0, 0, 0, 30, ds}));
            ops.push_back(mkop(0, "end", {}));
            ops.push_back(mkop(0, "hupgrade", {}));
            ops.push_back(mkop(0, "hput", {0, 1, 1, 20, ds2}));
            ops.push_back(mkop(0, "hread", {0, 0, 0}));
        }
        else if (t >= 14) {
            // several dataset ids are still open when the file is closed: SDend has to finish each of them and report the
            // failure of any one (data seeds with (ds >> 3) % 4 == 1 leave the id open, see Mixed)
            int64_t open1 = ((ds >> 5) << 5) | 8, open2 = ((ds2 >> 5) << 5) | 8;
            if (t == 14)
                ops.push_back(mkop(0, "sdnew", {0, 1, 4, 3, 0, open1, 2})); // chunked
            else if (t == 15)
                ops.push_back(mkop(0, "sdnew2", {0, 1, 4, 3, 0, open1, 0, 0})); // chunked + deflate
            else
                ops.push_back(mkop(0, "sdnew", {0, 1, 4, 3, 0, open1, 3})); // deflate
            ops.push_back(mkop(0, "sdnew", {1, 0, 3, 2, 1, open2, 0}));
            ops.push_back(mkop(0, "sdnew", {2, 0, 2, 2, 2, open2 + 32, 0}));
        }
        else if (t == 12) {
            ops.push_back(mkop(0, "grnew", {0, 4, 3, 1, ds}));
            ops.push_back(mkop(0, "end", {}));
            ops.push_back(mkop(0, "grread", {0}));
        }
        else {
            ops.push_back(mkop(0, "annew", {0, 4242, 0, 0}));
            ops.push_back(mkop(0, "annew", {2, 4243, 0, 0}));
            ops.push_back(mkop(0, "end", {}));
            ops.push_back(mkop(0, "anread", {0, 0}));
            ops.push_back(mkop(0, "anread", {2, 0}));
        }
        ops.push_back(mkop(0, "end", {}));
    }

    Plan generate(Rng &rng, bool thorough, uint64_t run) override
    {
        Plan p;
        p.seed              = rng.next();
        Rng kr              = rng.sub(1);
        p.knobs["ndds"]     = kr.chance(0.5) ? kr.range(2, 6) : 16;
        p.knobs["buffered"] = kr.chance(0.3) ? 1 : 0;
        p.knobs["cacheoff"] = kr.chance(0.3) ? 1 : 0;
        p.knobs["bufsize"]  = kr.range(16, 600);
        Rng r               = rng.sub(2);
        if (run < (uint64_t)NDIRECTED) {
            directed(p.ops, r, (int)run);
            return p;
        }
        // a program concentrates on one or two interfaces so that event traces stay short
        static const int fams[] = {0, 1, 2, 3, 4};
        int fam1 = fams[r.below(5)], fam2 = r.chance(0.5) ? fams[r.below(5)] : fam1;
        int n1 = (int)r.range(1, thorough ? 6 : 4), n2 = (int)r.range(0, 3);
        int maxlen = r.chance(0.3) ? 300 : 40;
        for (int i = 0; i < n1; i++)
            p.ops.push_back(MixedGen::write_op(r, r.chance(0.7) ? fam1 : fam2, r.chance(0.7), maxlen));
        reads_for(p.ops, r, fam1, fam2);
        p.ops.push_back(mkop(0, "end", {}));
        if (n2 > 0) {
            for (int i = 0; i < n2; i++)
                p.ops.push_back(MixedGen::write_op(r, r.chance(0.7) ? fam1 : fam2, false, maxlen));
            reads_for(p.ops, r, fam1, fam2);
            p.ops.push_back(mkop(0, "end", {}));
        }
        return p;
    }
    static void reads_for(std::vector<Op> &ops, Rng &r, int f1, int f2)
    {
        for (int f : {f1, f2}) {
            int n = (int)r.range(1, 3);
            for (int i = 0; i < n; i++) {
                switch (f) {
                    case 0:
                        ops.push_back(mkop(0, "hread", {(int64_t)r.below(2), (int64_t)r.below(3), (int64_t)r.below(8)}));
                        break;
                    case 1:
                        ops.push_back(mkop(0, r.chance(0.5) ? "vsread" : "vgread", {(int64_t)r.below(6)}));
                        break;
                    case 2:
                        ops.push_back(mkop(0, "sdread", {(int64_t)r.below(5)}));
                        break;
                    case 3:
                        ops.push_back(mkop(0, "grread", {(int64_t)r.below(4)}));
                        break;
                    default:
                        ops.push_back(mkop(0, "anread", {(int64_t)r.below(4), (int64_t)r.below(2)}));
                        break;
                }
            }
            if (f1 == f2)
                break;
        }
    }

    // Every prefix of a program that ends with a close is a workload of its own: what the file holds when a session has
    // been closed, whether every call up to there reported success, and whether a fault had fired by then.
    std::vector<std::array<uint64_t, 4>> ends;
    void session_end(Mixed &mx, int op)
    {
        uint64_t fired = 0;
        for (auto &f : simfs::faults())
            fired += f.fired ? 1 : 0;
        ends.push_back({(uint64_t)op, mx.call_failed ? 0u : 1u, simfs::disk_hash(simfs::disk()), fired});
    }

    // mode 0: run with the plan's faults.  mode 2: additionally return the event list.
    void execute(Ctx &ctx) override
    {
        const Plan &p = ctx.plan;
        ends.clear();
        simfs::set_buffered(p.knob("buffered", 0) != 0, (int)p.knob("bufsize", 64));
        simfs::set_faults(p.faults);
        Mixed mx(ctx, "/sim/io.hdf");
        mx.ndds = (int)p.knob("ndds", 16);
        // Once a call has reported failure the file may be torn; opening such a file again is reading a corrupt
        // file, which no property covers.  The current session still runs to its closes.
        mx.cache_off               = p.knob("cacheoff", 0) != 0;
        mx.no_reopen_after_failure = true;
        mx.skip_sd                 = false;
        mx.leave_sd_ids_open       = true;
        for (size_t i = 0; i < p.ops.size(); i++) {
            ctx.begin_op((int)i);
            // after a reported failure the program only releases and closes what it holds: whatever the failed
            // call tore (a half-written special header, ...) is not read back, in this session or a later one
            if (mx.call_failed && p.ops[i].kind != "end") {
                ctx.st.ops_skipped++;
                continue;
            }
            // known finding C16-gr-special-error-paths: raster images with a special layout, an attribute or a palette
            // (grnew2) are created as plain images here (guard unguard_gr2)
            Op o = p.ops[i];
            if (o.kind == "grnew2" && p.knob("unguard_gr2", 0) == 0) {
                o.kind = "grnew";
                o.a.resize(5);
            }
            // (datasets with coder, chunked+deflate and external layouts -- sdnew2 -- used to be created plain here: the SD coder
            // error paths were repaired, findings/fixed)
            if (mx.run(o))
                ctx.st.ops_done++;
            else
                ctx.st.ops_skipped++;
            if (o.kind == "end")
                session_end(mx, (int)i);
        }
        ctx.begin_op((int)p.ops.size());
        mx.end_session();
        session_end(mx, (int)p.ops.size());
        Blob b;
        b.u64(mx.call_failed ? 0 : 1);
        b.u64((uint64_t)(int64_t)mx.failed_op);
        b.str(mx.failed_call);
        uint64_t fired = 0;
        int      fop = -1, fkind = 0, fev = -1;
        for (auto &f : simfs::faults())
            if (f.fired) {
                fired++;
                fop   = f.op;
                fkind = f.kind;
            }
        b.u64(fired);
        // which event kind did the (first) fault hit?
        for (auto &e : simfs::events())
            if (e.fault != simfs::F_NONE) {
                fev = e.kind;
                break;
            }
        b.u64((uint64_t)(int64_t)fop);
        b.u64((uint64_t)fkind);
        b.u64((uint64_t)(int64_t)fev);
        b.str(simfs::fault_site());
        b.u64(ends.size());
        for (auto &e : ends)
            for (uint64_t x : e)
                b.u64(x);
        if (ctx.mode == 2) {
            const auto &ev = simfs::events();
            b.u64(ev.size());
            for (auto &e : ev) {
                b.u64((uint64_t)(int64_t)e.op);
                b.u64((uint64_t)e.ord);
                b.u64((uint64_t)e.kind);
            }
        }
        ctx.out = b.s;
    }

    struct Res {
        bool        all_ok = false;
        int         failed_op = -1, fault_op = -1, fault_kind = 0, fault_ev = -1;
        std::string failed_call, site;
        uint64_t    fired = 0;
        std::vector<std::array<int, 3>> events;
        std::vector<std::array<uint64_t, 4>> ends; // (op, every call so far succeeded, disk hash, faults fired so far) at each close
    };
    static Res parse(const std::string &s, bool with_events)
    {
        Res  r;
        Blob b;
        b.s           = s;
        r.all_ok      = b.g64() != 0;
        r.failed_op   = (int)(int64_t)b.g64();
        r.failed_call = b.gstr();
        r.fired       = b.g64();
        r.fault_op    = (int)(int64_t)b.g64();
        r.fault_kind  = (int)b.g64();
        r.fault_ev    = (int)(int64_t)b.g64();
        r.site        = b.gstr();
        for (uint64_t n = b.g64(), i = 0; i < n; i++) {
            std::array<uint64_t, 4> e;
            for (auto &x : e)
                x = b.g64();
            r.ends.push_back(e);
        }
        if (with_events) {
            uint64_t n = b.g64();
            for (uint64_t i = 0; i < n; i++) {
                int o = (int)(int64_t)b.g64(), d = (int)b.g64(), k = (int)b.g64();
                r.events.push_back({o, d, k});
            }
        }
        return r;
    }

    static std::vector<int> kinds_for(int evkind, bool buffered)
    {
        using namespace simfs;
        switch (evkind) {
            case EV_READ:
                return {F_EIO, F_SHORT, F_STICKY}; // sticky: this read and every later call on the stream fails
            case EV_WRITE:
                return buffered ? std::vector<int>{F_EIO} : std::vector<int>{F_EIO, F_SHORT, F_ENOSPC, F_STICKY};
            case EV_WRITEOUT:
                return {F_EIO, F_ENOSPC, F_STICKY};
            case EV_SEEK:
            case EV_FLUSH:
            case EV_CLOSE:
            case EV_TELL:
            case EV_STAT:
                return {F_EIO};
            case EV_OPEN:
                return {F_OPENFAIL};
        }
        return {};
    }

    std::string opname(const Plan &p, int op) const
    {
        if (op >= 0 && (size_t)op < p.ops.size())
            return p.ops[(size_t)op].kind;
        return "final-close";
    }

    // evaluate one faulty run against the fault-free reference
    Outcome evaluate(const Plan &q, const Outcome &dry, Outcome o, Exec &ex)
    {
        accumulate(ex.agg_extra, o.st);
        ex.agg_extra.probes["faulty-runs"]++;
        const simfs::Fault &f = q.faults[0];
        if (o.status != ST_OK) {
            // crash / memory error / hang / closed-stream misuse under a fault
            o.v.key       = strf("%s:%s:%s", o.v.key.c_str(), opname(q, f.op).c_str(), simfs::fault_name(f.kind));
            o.v.msg       = strf("with fault %s on I/O event %d of op %d (%s): %s", simfs::fault_name(f.kind), f.ord, f.op,
                           opname(q, f.op).c_str(), o.v.msg.c_str());
            o.plan_text   = q.to_text();
            return o;
        }
        Res r = parse(o.blob, false);
        if (!r.fired) {
            ex.agg_extra.probes["fault-not-reached"]++;
            return Outcome();
        }
        // a session that was closed with every call so far reporting success, after the fault had fired, left the file the
        // fault-free run leaves at that point -- whatever a later session reports when it trips over the damage
        Res d0 = parse(dry.blob, false);
        bool early = false;
        for (size_t k = 0; k < r.ends.size() && k < d0.ends.size() && !early; k++)
            early = r.ends[k][0] == d0.ends[k][0] && r.ends[k][3] > 0 && r.ends[k][1] == 1 && r.ends[k][2] != d0.ends[k][2];
        if (early && !r.all_ok)
            ex.agg_extra.probes["silent-until-a-later-session"]++;
        if (!r.all_ok && !early) {
            ex.agg_extra.probes["fault-reported"]++;
            return Outcome();
        }
        if (!early && o.st.diskhash == dry.st.diskhash && o.st.transcript == dry.st.transcript) {
            ex.agg_extra.probes["fault-harmless"]++; // swallowed, but nothing observable changed
            return Outcome();
        }
        Outcome v;
        v.status = ST_VIOL;
        v.v.cls  = "silent-fault";
        // key = precise site: the library call chain in which the failing stdio call was made
        v.v.key  = strf("silent:%s@%s", simfs::evkind_name(r.fault_ev), r.site.c_str());
        v.v.op   = f.op;
        v.v.msg  = strf("fault %s on I/O event %d (%s) of op %d (%s): every API call including the final close reported "
                        "success, but %s%s differ from the fault-free run",
                       simfs::fault_name(f.kind), f.ord, (std::string(simfs::evkind_name(r.fault_ev)) + " in " + r.site).c_str(), f.op, opname(q, f.op).c_str(),
                       o.st.diskhash != dry.st.diskhash ? "the file bytes" : "",
                       o.st.transcript != dry.st.transcript ? (o.st.diskhash != dry.st.diskhash ? " and the data returned by reads" : "the data returned by reads") : "");
        v.st          = o.st;
        v.stderr_text = o.stderr_text;
        v.plan_text   = q.to_text();
        return v;
    }

    Outcome judge(const Plan &plan, Exec &ex) override
    {
        Plan clean = plan;
        clean.faults.clear();
        Outcome dry = ex.run(clean, 2);
        if (dry.status != ST_OK)
            return dry; // the fault-free program itself misbehaves
        Res d = parse(dry.blob, true);
        if (!d.all_ok) {
            // a program whose fault-free run has a failing call says nothing about faults
            Outcome o = dry;
            o.st.checks = 0;
            ex.agg_extra.probes["program-with-failing-call-skipped:" + d.failed_call]++;
            return o;
        }
        if (!plan.faults.empty()) {
            Outcome o = ex.run(plan, 0);
            Outcome v = evaluate(plan, dry, o, ex);
            if (v.status == ST_OK)
                v.st = dry.st;
            return v;
        }
        bool   buffered = plan.knob("buffered", 0) != 0;
        size_t n = d.events.size(), cap = 400;
        Outcome result = dry;
        uint64_t salt  = plan.seed;
        for (size_t i = 0; i < n; i++) {
            if (n > cap && (i * cap / n) == ((i + 1) * cap / n))
                continue; // evenly spaced sample of long traces
            for (int fk : kinds_for(d.events[i][2], buffered)) {
                Plan         q = clean;
                simfs::Fault f;
                f.op    = d.events[i][0];
                f.ord   = d.events[i][1];
                f.kind  = fk;
                f.param = (int64_t)(mix64(salt, i * 16 + (uint64_t)fk) % 1000003);
                q.faults.push_back(f);
                Outcome o = ex.run(q, 0);
                Outcome v = evaluate(q, dry, o, ex);
                result.st.checks++;
                if (v.status != ST_OK)
                    return v;
            }
        }
        return result;
    }

    bool faults_removable() const override { return false; } // a replay is the program plus exactly one fault
    bool nontrivial(const Outcome &o) const override { return o.st.nevents >= 10 && o.st.checks > 0; }
};

Registrar reg(new IoFault);

} // namespace
} // namespace h4
