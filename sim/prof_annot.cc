// prof_annot.cc -- C11: annotations stay attached to their objects and keep their text.
#include "hx.h"
#include <set>

namespace h4 {
namespace {

const ann_type TYPES[] = {AN_FILE_LABEL, AN_FILE_DESC, AN_DATA_LABEL, AN_DATA_DESC};
const uint16   TTAG[]  = {DFTAG_FID, DFTAG_FD, DFTAG_DIL, DFTAG_DIA};

struct Ann {
    int         type = 0;
    uint16      atag = 0, aref = 0; // 0 = not known yet (written through the single-file interface)
    uint16      ttag = 0, tref = 0;
    std::string text;
    int32       id = FAIL; // live annotation id in the current AN session
};

static std::string mktext(uint64_t ds, int64_t len, bool allow_nul)
{
    std::string s;
    for (int64_t i = 0; i < len; i++) {
        uint64_t w = mix64(ds, (uint64_t)i);
        char     c = (char)(' ' + w % 95);
        if (allow_nul && (w >> 20) % 11 == 0 && i > 0 && i + 1 < len)
            c = 0;
        s += c;
    }
    return s;
}

struct Annot : Profile {
    const char *name() const override { return "annot"; }
    const char *property() const override { return "C11"; }
    int         runs(bool thorough) const override { return thorough ? 200000 : 10000; }
    std::string rule() const override
    {
        return "each case = one generated plan of 15..70 ops: ANcreate/ANcreatef + ANwriteann for the four types (texts 1..300 "
               "bytes, descriptions with embedded NULs), rewrites with longer/shorter text, reads, per-object and per-type "
               "listings, ANselect/ANget_tagref/ANid2tagref/ANtagref2id consistency, DFANputlabel/putdesc/addfid/addfds and "
               "DFANget* on two files between sessions, restarts; oracle = annotation-set model; non-trivial = >= 2 ops and >= 1 comparison";
    }
    std::vector<std::string> assumptions() const override
    {
        return {"an annotation is written right after it is created (two creates of one type without a write in between get the same ref from the library)",
                "objects annotated through the single-file interface carry at most one label and one description (a second put replaces)",
                "texts are at least one byte long (ANwriteann refuses length 0)"};
    }
    std::vector<std::string> required_probes() const override
    {
        return {"rewrite-longer", "rewrite-shorter", "desc-with-nul", "many-per-object", "select-all", "annlist", "dfan-put", "dfan-get",
                "restart", "create-first-in-session", "dfan-missing-file", "dfan-burst", "dfan-burst>32", "short-buffer-read", "create-refused-before-first-write"};
    }

    Plan generate(Rng &rng, bool thorough, uint64_t) override
    {
        Plan p;
        p.seed          = rng.next();
        Rng kr          = rng.sub(1);
        p.knobs["ndds"] = kr.chance(0.5) ? kr.range(2, 8) : 16;
        Rng r = rng.sub(2);
        int nops = (int)r.range(15, thorough ? 110 : 70);
        auto tlen = [&]() { return r.chance(0.15) ? r.range(100, 300) : r.range(1, 40); };
        static const std::vector<int> w     = {/*create*/ 22, /*rewrite*/ 12, /*read*/ 14, /*list*/ 8, /*fileinfo*/ 5, /*select*/ 6,
                                               /*endaccess*/ 5, /*dfanput*/ 6, /*dfanget*/ 5, /*restart*/ 4, /*dfanburst*/ 1, /*dfanrecreate*/ 2};
        bool desconly = r.chance(0.3); // the single-file interface is used for descriptions only (its label directory is never built)
        static const char            *names[] = {"create", "rewrite", "read", "list", "fileinfo", "select", "endaccess", "dfanput", "dfanget", "restart", "dfanburst", "dfanrecreate"};
        for (int i = 0; i < nops; i++) {
            int k = r.weighted(w);
            switch (k) {
                case 0:
                    p.ops.push_back(mkop(0, names[k], {(int64_t)r.below(4), (int64_t)r.below(2), (int64_t)r.below(3), tlen(),
                                                       (int64_t)(r.next() >> 16), r.chance(0.5) ? 1 : 0}));
                    break;
                case 1:
                    p.ops.push_back(mkop(0, names[k], {(int64_t)r.below(64), r.chance(0.3) ? -1 : tlen(), (int64_t)(r.next() >> 16)}));
                    break;
                case 2:
                case 6:
                    p.ops.push_back(mkop(0, names[k], {(int64_t)r.below(64)}));
                    break;
                case 3:
                    p.ops.push_back(mkop(0, names[k], {2 + (int64_t)r.below(2), (int64_t)r.below(2), (int64_t)r.below(3)}));
                    break;
                case 4:
                case 9:
                    p.ops.push_back(mkop(0, names[k], {}));
                    break;
                case 5:
                    p.ops.push_back(mkop(0, names[k], {(int64_t)r.below(4)}));
                    break;
                case 7: // file, kind (0 label 1 desc 2 file id 3 file desc), target, length, data
                    p.ops.push_back(mkop(0, names[k], {(int64_t)r.below(2), desconly ? 1 + 2 * (int64_t)r.below(2) : (int64_t)r.below(4), (int64_t)r.below(3), tlen(), (int64_t)(r.next() >> 16)}));
                    break;
                case 8:
                    p.ops.push_back(mkop(0, names[k], {(int64_t)r.below(2), desconly ? 1 : (int64_t)r.below(2), (int64_t)r.below(3)}));
                    break;
                case 10: // file, label/description, how many objects (the single-file interface keeps its directory in blocks of 16), seed
                    p.ops.push_back(mkop(0, names[k], {(int64_t)r.below(2), desconly ? 1 : (int64_t)r.below(2), r.range(14, 52), (int64_t)(r.next() >> 16)}));
                    break;
                case 11:
                    p.ops.push_back(mkop(0, names[k], {}));
                    break;
            }
        }
        p.ops.push_back(mkop(0, "restart", {}));
        return p;
    }

    struct S {
        Ctx             &ctx;
        std::vector<Ann> a[2]; // per file
        bool             on_disk[2] = {false, false};
        int32            fid = FAIL, an = FAIL;
        bool             session_has_call = false;
        explicit S(Ctx &c) : ctx(c) {}
    };
    static std::string path(int f) { return f == 0 ? "/sim/annot_a.hdf" : "/sim/annot_b.hdf"; }

    void open_an(S &s, int ndds, bool write)
    {
        s.fid = Hopen(path(0).c_str(), !s.on_disk[0] ? DFACC_CREATE : write ? DFACC_RDWR : DFACC_READ, (int16)ndds);
        if (s.fid == FAIL)
            s.ctx.fail("open-failed", "open-failed", "Hopen failed");
        s.an = ANstart(s.fid);
        if (s.an == FAIL)
            s.ctx.fail("open-failed", "open-failed:anstart", "ANstart failed");
        s.on_disk[0]       = true;
        s.session_has_call = false;
        for (auto &x : s.a[0])
            x.id = FAIL;
    }
    void close_an(S &s)
    {
        if (s.an == FAIL)
            return;
        for (auto &x : s.a[0])
            if (x.id != FAIL) {
                if (ANendaccess(x.id) == FAIL)
                    s.ctx.fail("endaccess-failed", "endaccess-failed", "ANendaccess of a live annotation id failed");
                x.id = FAIL;
            }
        if (ANend(s.an) == FAIL || Hclose(s.fid) == FAIL)
            s.ctx.fail("close-failed", "close-failed", strf("ANend/Hclose failed: %s", HEstring((hdf_err_code_t)HEvalue(1))));
        s.an = s.fid = FAIL;
    }
    int32 id_of(S &s, Ann &x)
    {
        if (x.id != FAIL)
            return x.id;
        int32 id = ANtagref2id(s.an, x.atag, x.aref);
        if (id == FAIL)
            s.ctx.fail("id-mismatch", "id-mismatch:tagref2id",
                       strf("ANtagref2id(%u/%u) fails for a stored annotation of type %d", x.atag, x.aref, x.type));
        x.id = id;
        return id;
    }
    void check_text(S &s, Ann &x, int32 id, const char *when)
    {
        int32 len = ANannlen(id);
        s.ctx.st.checks++;
        if (len != (int32)x.text.size())
            s.ctx.fail("length-mismatch", "length-mismatch",
                       strf("ANannlen of annotation %u/%u (type %d) = %d, written %zu bytes (%s)", x.atag, x.aref, x.type, (int)len, x.text.size(), when));
        std::vector<char> buf(x.text.size() + 16, 0x5A);
        if (ANreadann(id, buf.data(), (int32)x.text.size() + 1) == FAIL)
            s.ctx.fail("read-refused", "read-refused", strf("ANreadann of annotation %u/%u failed (%s)", x.atag, x.aref, when));
        if (memcmp(buf.data(), x.text.data(), x.text.size()) != 0)
            s.ctx.fail("text-mismatch", strf("text-mismatch:type%d", x.type),
                       strf("annotation %u/%u (type %d, %zu bytes) reads back differently (%s)", x.atag, x.aref, x.type, x.text.size(), when));
        for (size_t j = x.text.size() + 2; j < buf.size(); j++)
            if (buf[j] != 0x5A)
                s.ctx.fail("buffer-overrun", "buffer-overrun:readann", "ANreadann wrote beyond maxlen");
        if (x.text.size() >= 4) {
            // a buffer shorter than the text: a description fills it, a label fills all but the last byte (its terminator);
            // nothing is written behind it
            int32             m = (int32)x.text.size() - 1 - (int32)(x.text.size() % 3);
            bool              label = x.type == 0 || x.type == 2;
            std::vector<char> part((size_t)m + 8, 0x5A);
            if (ANreadann(id, part.data(), m) == FAIL)
                s.ctx.fail("read-refused", "read-refused:short-buffer", strf("ANreadann of annotation %u/%u into %d bytes (text: %zu) failed (%s)", x.atag, x.aref, (int)m, x.text.size(), when));
            size_t want = (size_t)(label ? m - 1 : m);
            if (memcmp(part.data(), x.text.data(), want) != 0)
                s.ctx.fail("text-mismatch", strf("text-mismatch:short-buffer:type%d", x.type),
                           strf("annotation %u/%u (type %d, %zu bytes) read into a buffer of %d bytes: the first %zu bytes are not the text (%s)", x.atag, x.aref, x.type, x.text.size(), (int)m, want, when));
            for (size_t j = (size_t)m; j < part.size(); j++)
                if (part[j] != 0x5A)
                    s.ctx.fail("buffer-overrun", "buffer-overrun:readann-short", "ANreadann wrote beyond a short buffer");
            s.ctx.probe("short-buffer-read");
        }
        uint16 t = 0, r = 0;
        if (ANid2tagref(id, &t, &r) == FAIL || t != x.atag || r != x.aref)
            s.ctx.fail("id-mismatch", "id-mismatch:id2tagref", strf("ANid2tagref gives %u/%u for the annotation stored as %u/%u (%s)", t, r, x.atag, x.aref, when));
        s.ctx.trb(buf.data(), x.text.size());
    }

    // everything the file says about annotations of one type, matched against the model
    void verify_type(S &s, int type, const char *when)
    {
        std::vector<Ann *> want;
        for (auto &x : s.a[0])
            if (x.type == type)
                want.push_back(&x);
        int32 cnt[4] = {0, 0, 0, 0};
        if (ANfileinfo(s.an, &cnt[0], &cnt[1], &cnt[2], &cnt[3]) == FAIL)
            s.ctx.fail("info-failed", "info-failed", "ANfileinfo failed");
        s.ctx.st.checks++;
        if (cnt[type] != (int32)want.size())
            s.ctx.fail("count-mismatch", strf("count-mismatch:fileinfo:type%d", type),
                       strf("ANfileinfo reports %d annotations of type %d, model has %zu (%s)", (int)cnt[type], type, want.size(), when));
        std::set<std::pair<uint16, uint16>> seen;
        for (int32 ix = 0; ix < cnt[type]; ix++) {
            int32 id = ANselect(s.an, ix, TYPES[type]);
            if (id == FAIL)
                s.ctx.fail("select-failed", "select-failed", strf("ANselect(%d, type %d) failed with %d annotations (%s)", (int)ix, type, (int)cnt[type], when));
            uint16 t = 0, r = 0, t2 = 0, r2 = 0;
            if (ANid2tagref(id, &t, &r) == FAIL || ANget_tagref(s.an, ix, TYPES[type], &t2, &r2) == FAIL || t != t2 || r != r2 || t != TTAG[type])
                s.ctx.fail("id-mismatch", "id-mismatch:select", strf("ANselect/ANid2tagref/ANget_tagref disagree for index %d of type %d: %u/%u vs %u/%u (%s)", (int)ix, type, t, r, t2, r2, when));
            if (!seen.insert({t, r}).second)
                s.ctx.fail("id-mismatch", "id-mismatch:select-duplicate", strf("two ANselect indices of type %d give the same annotation %u/%u (%s)", type, t, r, when));
            // match: by tag/ref when known, else by content (written through the single-file interface)
            int32 len = ANannlen(id);
            std::vector<char> buf((size_t)std::max<int32>(len, 0) + 4, 0);
            if (len < 0 || ANreadann(id, buf.data(), len + 1) == FAIL)
                s.ctx.fail("read-refused", "read-refused:select", strf("annotation %u/%u cannot be read (%s)", t, r, when));
            std::string got(buf.data(), (size_t)len);
            Ann        *hit = nullptr;
            for (Ann *x : want)
                if (x->aref == r && x->atag == t)
                    hit = x;
            if (!hit)
                for (Ann *x : want)
                    if (x->aref == 0 && x->text == got) {
                        hit       = x;
                        x->atag   = t;
                        x->aref   = r;
                        break;
                    }
            if (!hit)
                s.ctx.fail("set-mismatch", strf("set-mismatch:ghost:type%d", type),
                           strf("the file holds an annotation %u/%u of type %d (%d bytes) that the model does not know (%s)", t, r, type, (int)len, when));
            if (hit->text != got)
                s.ctx.fail("text-mismatch", strf("text-mismatch:type%d", type),
                           strf("annotation %u/%u (type %d): %d bytes read, %zu written, content differs (%s)", t, r, type, (int)len, hit->text.size(), when));
            if (ANendaccess(id) == FAIL)
                s.ctx.fail("endaccess-failed", "endaccess-failed:select", "ANendaccess failed");
            for (auto &x : s.a[0])
                if (x.id == id)
                    x.id = FAIL; // ids are shared per annotation: ending access ends ours too
        }
        for (Ann *x : want)
            if (x->aref == 0 || !seen.count({x->atag, x->aref}))
                s.ctx.fail("set-mismatch", strf("set-mismatch:lost:type%d", type),
                           strf("a stored annotation of type %d (%zu bytes, ref %u) is not enumerated (%s)", type, x->text.size(), x->aref, when));
        s.ctx.probe("select-all");
    }

    void execute(Ctx &ctx) override
    {
        S           s(ctx);
        const Plan &p    = ctx.plan;
        int         ndds = (int)p.knob("ndds", 16);
        for (size_t i = 0; i < p.ops.size(); i++) {
            const Op &o = p.ops[i];
            ctx.begin_op((int)i);
            const std::string &k = o.kind;
            bool               done = true;
            bool               an_op = k != "restart" && k != "dfanput" && k != "dfanget";
            if (an_op && s.an == FAIL)
                open_an(s, ndds, true);
            std::vector<Ann> &A = s.a[0];
            if (k == "create") {
                int    type = modn(o.arg(0), 4);
                uint16 ttag = (uint16)(8700 + modn(o.arg(1), 2)), tref = (uint16)(1 + modn(o.arg(2), 3));
                if (!s.session_has_call)
                    ctx.probe("create-first-in-session");
                int32 id = type < 2 ? ANcreatef(s.an, TYPES[type]) : ANcreate(s.an, ttag, tref, TYPES[type]);
                if (id == FAIL)
                    ctx.fail("create-refused", "create-refused", strf("ANcreate%s(type %d) failed", type < 2 ? "f" : "", type));
                Ann x;
                x.type = type;
                x.ttag = type < 2 ? 0 : ttag;
                x.tref = type < 2 ? 0 : tref;
                x.text = mktext((uint64_t)o.arg(4), std::max<int64_t>(1, o.arg(3)), type == 1 || type == 3);
                if (x.text.find('\0') != std::string::npos)
                    ctx.probe("desc-with-nul");
                if (modn(o.arg(4), 5) == 0) {
                    // a second annotation of the same type before the first one is written: both would get one reference
                    // number, so it is refused -- and a refused create leaves no trace (the counts checked later say so)
                    int32 dup = type < 2 ? ANcreatef(s.an, TYPES[type]) : ANcreate(s.an, ttag, tref, TYPES[type]);
                    if (dup != FAIL)
                        ctx.fail("create-accepted", "create-accepted:same-ref-twice", strf("a second ANcreate%s(type %d) before the first annotation is written returns an id", type < 2 ? "f" : "", type));
                    ctx.probe("create-refused-before-first-write");
                }
                if (ANwriteann(id, x.text.data(), (int32)x.text.size()) == FAIL)
                    ctx.fail("write-refused", "write-refused:new", strf("ANwriteann(%zu bytes) on a new annotation failed", x.text.size()));
                if (ANid2tagref(id, &x.atag, &x.aref) == FAIL || x.atag != TTAG[type])
                    ctx.fail("id-mismatch", "id-mismatch:new", "ANid2tagref of a new annotation failed or gives the wrong tag");
                for (auto &y : A)
                    if (y.atag == x.atag && y.aref == x.aref)
                        ctx.fail("id-mismatch", "id-mismatch:ref-reused", strf("a new annotation got tag/ref %u/%u, which another annotation already has", x.atag, x.aref));
                int same = 0;
                for (auto &y : A)
                    same += y.type == type && y.ttag == x.ttag && y.tref == x.tref;
                if (same >= 1 && type >= 2)
                    ctx.probe("many-per-object");
                if (o.arg(5)) {
                    if (ANendaccess(id) == FAIL)
                        ctx.fail("endaccess-failed", "endaccess-failed", "ANendaccess failed");
                }
                else
                    x.id = id;
                A.push_back(x);
                s.session_has_call = true;
            }
            else if (k == "rewrite" || k == "read" || k == "endaccess") {
                // only annotations whose tag/ref is known can be addressed
                std::vector<size_t> known;
                for (size_t q = 0; q < A.size(); q++)
                    if (A[q].aref != 0)
                        known.push_back(q);
                if (known.empty())
                    done = false;
                else {
                    Ann &x = A[known[(size_t)modn(o.arg(0), (int)known.size())]];
                    if (k == "endaccess") {
                        if (x.id == FAIL)
                            done = false;
                        else {
                            if (ANendaccess(x.id) == FAIL)
                                ctx.fail("endaccess-failed", "endaccess-failed", "ANendaccess failed");
                            x.id = FAIL;
                        }
                    }
                    else if (k == "read")
                        check_text(s, x, id_of(s, x), "in session");
                    else {
                        int32   id  = id_of(s, x);
                        int64_t len = o.arg(1) < 0 ? (int64_t)x.text.size() - 1 : o.arg(1);
                        if (len < 1)
                            len = 1;
                        std::string nt = mktext((uint64_t)o.arg(2), len, x.type == 1 || x.type == 3);
                        ctx.probe(nt.size() > x.text.size() ? "rewrite-longer" : "rewrite-shorter");
                        if (ANwriteann(id, nt.data(), (int32)nt.size()) == FAIL)
                            ctx.fail("write-refused", strf("write-refused:rewrite:%s", nt.size() > x.text.size() ? "longer" : "shorter"),
                                     strf("ANwriteann rewriting annotation %u/%u (type %d) from %zu to %zu bytes failed: %s", x.atag, x.aref, x.type,
                                          x.text.size(), nt.size(), HEstring((hdf_err_code_t)HEvalue(1))));
                        x.text = nt;
                        check_text(s, x, id, "right after rewrite");
                    }
                    s.session_has_call = true;
                }
            }
            else if (k == "list") {
                int    type = 2 + modn(o.arg(0), 2);
                uint16 ttag = (uint16)(8700 + modn(o.arg(1), 2)), tref = (uint16)(1 + modn(o.arg(2), 3));
                std::set<std::pair<uint16, uint16>> want;
                bool                                unknown = false;
                for (auto &x : A)
                    if (x.type == type && x.ttag == ttag && x.tref == tref) {
                        want.insert({x.atag, x.aref});
                        unknown |= x.aref == 0;
                    }
                if (unknown)
                    done = false;
                else {
                    intn n = ANnumann(s.an, TYPES[type], ttag, tref);
                    ctx.st.checks++;
                    if (n != (intn)want.size())
                        ctx.fail("count-mismatch", strf("count-mismatch:numann:type%d", type),
                                 strf("ANnumann(type %d, object %u/%u) = %d, model %zu", type, ttag, tref, (int)n, want.size()));
                    if (n > 0) {
                        std::vector<int32> ids((size_t)n + 2, -7);
                        if (ANannlist(s.an, TYPES[type], ttag, tref, ids.data()) == FAIL)
                            ctx.fail("list-failed", "list-failed", "ANannlist failed");
                        std::set<std::pair<uint16, uint16>> got;
                        for (intn q = 0; q < n; q++) {
                            uint16 t = 0, r = 0;
                            if (ANid2tagref(ids[(size_t)q], &t, &r) == FAIL)
                                ctx.fail("id-mismatch", "id-mismatch:annlist", "ANannlist returned an id that ANid2tagref rejects");
                            got.insert({t, r});
                        }
                        if (got != want || ids[(size_t)n] != -7)
                            ctx.fail("set-mismatch", strf("set-mismatch:annlist:type%d", type),
                                     strf("ANannlist(type %d, object %u/%u) does not return exactly the %zu annotations of that object", type, ttag, tref, want.size()));
                        // the ids handed out stay open: release those we do not hold
                        for (intn q = 0; q < n; q++) {
                            bool ours = false;
                            for (auto &x : A)
                                ours |= x.id == ids[(size_t)q];
                            if (!ours)
                                ANendaccess(ids[(size_t)q]);
                        }
                    }
                    ctx.probe("annlist");
                    s.session_has_call = true;
                }
            }
            else if (k == "fileinfo") {
                int32 c[4] = {0, 0, 0, 0};
                if (ANfileinfo(s.an, &c[0], &c[1], &c[2], &c[3]) == FAIL)
                    ctx.fail("info-failed", "info-failed", "ANfileinfo failed");
                ctx.st.checks++;
                for (int t = 0; t < 4; t++) {
                    int32 w = 0;
                    for (auto &x : A)
                        w += x.type == t;
                    if (c[t] != w)
                        ctx.fail("count-mismatch", strf("count-mismatch:fileinfo:type%d", t), strf("ANfileinfo: %d annotations of type %d, model %d", (int)c[t], t, (int)w));
                }
                s.session_has_call = true;
            }
            else if (k == "select") {
                verify_type(s, modn(o.arg(0), 4), "in session");
                s.session_has_call = true;
            }
            else if (k == "dfanburst") {
                // many objects annotated through the single-file interface in one go, each read back, one rewritten: the
                // interface keeps a directory of what it has seen, which has to grow with them
                int    f = modn(o.arg(0), 2), kind = modn(o.arg(1), 2), cnt = (int)std::max<int64_t>(1, std::min<int64_t>(60, o.arg(2)));
                int    type = kind == 0 ? 2 : 3;
                uint16 ttag = 8711;
                close_an(s);
                std::vector<Ann> &B = s.a[f];
                auto put = [&](int i, uint64_t seed) {
                    std::string txt = mktext(seed, 3 + (int64_t)(seed % 17), false);
                    intn r = kind == 0 ? DFANputlabel(path(f).c_str(), ttag, (uint16)(1 + i), (char *)txt.c_str())
                                       : DFANputdesc(path(f).c_str(), ttag, (uint16)(1 + i), (char *)txt.c_str(), (int32)txt.size());
                    if (r == FAIL)
                        ctx.fail("write-refused", strf("write-refused:dfan-burst%d", kind), strf("DFAN put number %d of a burst on %s failed: %s", i, path(f).c_str(), herr().c_str()));
                    s.on_disk[f] = true;
                    Ann *old = nullptr;
                    for (auto &x : B)
                        if (x.type == type && x.ttag == ttag && x.tref == (uint16)(1 + i))
                            old = &x;
                    if (old)
                        old->text = txt;
                    else {
                        Ann x;
                        x.type = type;
                        x.ttag = ttag;
                        x.tref = (uint16)(1 + i);
                        x.text = txt;
                        B.push_back(x);
                    }
                };
                auto check = [&](const char *when) {
                    for (int i = 0; i < cnt; i++) {
                        const Ann *x = nullptr;
                        for (auto &y : B)
                            if (y.type == type && y.ttag == ttag && y.tref == (uint16)(1 + i))
                                x = &y;
                        char buf[64];
                        memset(buf, 0, sizeof buf);
                        int32 len = kind == 0 ? DFANgetlablen(path(f).c_str(), ttag, (uint16)(1 + i)) : DFANgetdesclen(path(f).c_str(), ttag, (uint16)(1 + i));
                        intn  r   = len == FAIL ? FAIL
                                                : kind == 0 ? DFANgetlabel(path(f).c_str(), ttag, (uint16)(1 + i), buf, (int32)sizeof buf - 1)
                                                            : DFANgetdesc(path(f).c_str(), ttag, (uint16)(1 + i), buf, (int32)sizeof buf - 1);
                        ctx.st.checks++;
                        if (!x || r == FAIL || len != (int32)x->text.size() || memcmp(buf, x->text.data(), x->text.size()) != 0)
                            ctx.fail("text-mismatch", strf("text-mismatch:dfan-burst%d", kind),
                                     strf("%s: the %s of object %u/%d (number %d of %d written in one go) reads back with length %d, written %zu", when, kind ? "description" : "label", ttag,
                                          1 + i, i, cnt, (int)len, x ? x->text.size() : (size_t)0));
                    }
                };
                for (int i = 0; i < cnt; i++)
                    put(i, (uint64_t)o.arg(3) + (uint64_t)i * 7919u);
                check("after the burst");
                put(cnt / 2, (uint64_t)o.arg(3) + 99991u); // one of them again: replaced, not added
                put(cnt - 1, (uint64_t)o.arg(3) + 99989u);
                check("after rewriting two of them");
                ctx.probe("dfan-burst");
                if (cnt > 32)
                    ctx.probe("dfan-burst>32");
            }
            else if (k == "dfanrecreate") {
                // the second file is made anew under its old name, and the single-file interface is told so (DFANclear drops what
                // it remembers of the last file): annotations of the old file are gone, the ones put from now on are the file's
                close_an(s);
                int32 nf = Hopen(path(1).c_str(), DFACC_CREATE, (int16)ndds);
                if (nf == FAIL || Hclose(nf) == FAIL)
                    ctx.fail("open-failed", "open-failed:recreate", "creating the second file anew failed");
                if (DFANclear() == FAIL)
                    ctx.fail("write-refused", "write-refused:dfanclear", "DFANclear failed");
                s.a[1].clear();
                s.on_disk[1] = true;
                ctx.probe("file-made-anew-and-dfanclear");
            }
            else if (k == "dfanput" || k == "dfanget") {
                int    f = modn(o.arg(0), 2), kind = modn(o.arg(1), k == "dfanput" ? 4 : 2);
                uint16 ttag = 8710, tref = (uint16)(1 + modn(o.arg(2), 3)); // objects only the single-file interface annotates
                close_an(s); // the single-file interface opens the file itself
                std::vector<Ann> &B = s.a[f];
                if (k == "dfanput") {
                    int         type = kind == 0 ? 2 : kind == 1 ? 3 : kind == 2 ? 0 : 1;
                    std::string txt  = mktext((uint64_t)o.arg(4), std::max<int64_t>(1, o.arg(3)), false);
                    intn        r;
                    if (kind == 0)
                        r = DFANputlabel(path(f).c_str(), ttag, tref, (char *)txt.c_str());
                    else if (kind == 1)
                        r = DFANputdesc(path(f).c_str(), ttag, tref, (char *)txt.c_str(), (int32)txt.size());
                    else {
                        int32 fid = Hopen(path(f).c_str(), s.on_disk[f] ? DFACC_RDWR : DFACC_CREATE, (int16)ndds);
                        if (fid == FAIL)
                            ctx.fail("open-failed", "open-failed:dfan", "Hopen for DFANaddfid/DFANaddfds failed");
                        r = kind == 2 ? DFANaddfid(fid, (char *)txt.c_str()) : DFANaddfds(fid, (char *)txt.c_str(), (int32)txt.size());
                        if (Hclose(fid) == FAIL)
                            ctx.fail("close-failed", "close-failed:dfan", "Hclose after DFANaddfid/DFANaddfds failed");
                    }
                    if (r == FAIL)
                        ctx.fail("write-refused", strf("write-refused:dfan%d", kind), strf("DFAN put kind %d on %s failed: %s", kind, path(f).c_str(), HEstring((hdf_err_code_t)HEvalue(1))));
                    s.on_disk[f] = true;
                    Ann *old = nullptr;
                    if (kind < 2)
                        for (auto &x : B)
                            if (x.type == type && x.ttag == ttag && x.tref == tref)
                                old = &x;
                    if (old)
                        old->text = txt; // one label / description per object: replaced
                    else {
                        Ann x;
                        x.type = type;
                        x.ttag = kind < 2 ? ttag : 0;
                        x.tref = kind < 2 ? tref : 0;
                        x.text = txt;
                        B.push_back(x);
                    }
                    ctx.probe("dfan-put");
                }
                else if (!s.on_disk[f]) {
                    // the file does not exist yet: the query fails, and must leave nothing behind that a later call on
                    // this name (once the file exists) could mistake for its directory of annotations
                    int32 len = kind == 0 ? DFANgetlablen(path(f).c_str(), ttag, tref) : DFANgetdesclen(path(f).c_str(), ttag, tref);
                    ctx.st.checks++;
                    if (len != FAIL)
                        ctx.fail("set-mismatch", "set-mismatch:dfan-missing-file", strf("DFANget%slen on the missing file %s returns %d", kind ? "desc" : "lab", path(f).c_str(), (int)len));
                    ctx.probe("dfan-missing-file");
                }
                else {
                    int  type = kind == 0 ? 2 : 3;
                    Ann *x    = nullptr;
                    for (auto &y : B)
                        if (y.type == type && y.ttag == ttag && y.tref == tref)
                            x = &y;
                    char  buf[600];
                    memset(buf, 0x5A, sizeof buf);
                    int32 len = kind == 0 ? DFANgetlablen(path(f).c_str(), ttag, tref) : DFANgetdesclen(path(f).c_str(), ttag, tref);
                    ctx.st.checks++;
                    if (!x) {
                        if (len != FAIL)
                            ctx.fail("set-mismatch", "set-mismatch:dfan-ghost", strf("DFANget%slen finds an annotation for object %u/%u of %s that has none", kind ? "desc" : "lab", ttag, tref, path(f).c_str()));
                    }
                    else {
                        if (len != (int32)x->text.size())
                            ctx.fail("length-mismatch", strf("length-mismatch:dfan%d", kind),
                                     strf("DFANget%slen(%s, %u/%u) = %d, written %zu", kind ? "desc" : "lab", path(f).c_str(), ttag, tref, (int)len, x->text.size()));
                        intn r = kind == 0 ? DFANgetlabel(path(f).c_str(), ttag, tref, buf, (int32)x->text.size() + 1)
                                           : DFANgetdesc(path(f).c_str(), ttag, tref, buf, (int32)x->text.size());
                        if (r == FAIL || memcmp(buf, x->text.data(), x->text.size()) != 0)
                            ctx.fail("text-mismatch", strf("text-mismatch:dfan%d", kind),
                                     strf("DFANget%s(%s, %u/%u) does not return the %zu bytes written", kind ? "desc" : "label", path(f).c_str(), ttag, tref, x->text.size()));
                    }
                    ctx.probe("dfan-get");
                }
            }
            else if (k == "restart") {
                close_an(s);
                ctx.probe("restart");
                if (s.on_disk[0]) {
                    open_an(s, ndds, false);
                    for (int t = 0; t < 4; t++)
                        verify_type(s, t, "after reopen");
                    for (auto &x : s.a[0])
                        if (x.aref != 0) {
                            check_text(s, x, id_of(s, x), "after reopen");
                        }
                    close_an(s);
                }
            }
            else
                done = false;
            if (done) {
                ctx.st.ops_done++;
                uint64_t h = 1469598103934665603ULL;
                for (int f = 0; f < 2; f++)
                    for (auto &x : s.a[f])
                        h = fnv64i(((uint64_t)x.type << 40) | ((uint64_t)x.ttag << 24) | ((uint64_t)x.tref << 16) | (x.text.size() & 0xffff), h);
                ctx.state(h);
            }
            else
                ctx.st.ops_skipped++;
        }
    }
};

Registrar reg(new Annot);

} // namespace
} // namespace h4
