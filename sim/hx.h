// hx.h -- shared helpers for profiles: HDF headers, op-table helpers, buffers.
#pragma once
#include "engine.h"
extern "C" {
#include "hdf.h"
#include "mfhdf.h"
}
#include <algorithm>
#include <cstring>

// guarded hooks in /repo (HDF4_VERIF_SIM): see MANIFEST.hooks
extern "C" {
extern int32 h4verif_vdata_buffer_max;
extern int32 h4verif_sd_fill_chunk_max;
extern int16 h4verif_ndds_override;
extern int32 h4verif_block_len_override;
extern int32 h4verif_block_num_override;
}

namespace h4 {

// tuning knobs that the public API does not expose: drawn per run so that short histories cross the boundaries
static inline void apply_hook_knobs(const Plan &p)
{
    if (p.knob("vsbuf", 0) > 0)
        h4verif_vdata_buffer_max = (int32)p.knob("vsbuf", 0);
    if (p.knob("sdfillmax", 0) > 0)
        h4verif_sd_fill_chunk_max = (int32)p.knob("sdfillmax", 0);
    if (p.knob("ndds_override", 0) > 0)
        h4verif_ndds_override = (int16)p.knob("ndds_override", 0);
    if (p.knob("blklen", 0) > 0)
        h4verif_block_len_override = (int32)p.knob("blklen", 0);
    if (p.knob("blknum", 0) > 0)
        h4verif_block_num_override = (int32)p.knob("blknum", 0);
}

// op-kind table of a profile: name -> small integer
struct OpTable {
    std::vector<std::string> names;
    int                      id(const std::string &k) const
    {
        for (size_t i = 0; i < names.size(); i++)
            if (names[i] == k)
                return (int)i;
        return -1;
    }
};

static inline Op mkop(int client, const char *kind, std::initializer_list<int64_t> a)
{
    Op o;
    o.client = client;
    o.kind   = kind;
    o.a      = a;
    return o;
}

// total index: any integer maps into [0,n)
static inline int modn(int64_t v, int n)
{
    if (n <= 0)
        return 0;
    int64_t r = v % n;
    if (r < 0)
        r += n;
    return (int)r;
}

static inline std::vector<uint8_t> data_block(uint64_t dseed, size_t n, uint64_t at = 0)
{
    std::vector<uint8_t> v(n);
    fill_data(dseed, v.data(), n, at);
    return v;
}

static inline std::string hexs(const uint8_t *p, size_t n, size_t maxn = 16)
{
    std::string s;
    for (size_t i = 0; i < n && i < maxn; i++)
        s += strf("%02x", p[i]);
    if (n > maxn)
        s += "..";
    return s;
}

// the library's error stack, innermost last (for messages only; oracles never look at codes)
static inline std::string herr()
{
    std::string s;
    for (int l = 1; l <= 6; l++) {
        int16 v = HEvalue(l);
        if (v == DFE_NONE)
            break;
        if (!s.empty())
            s += " <- ";
        s += HEstring((hdf_err_code_t)v);
    }
    return s.empty() ? "no error recorded" : s;
}

// client scheduling for generators: weighted pick with bursts
struct Sched {
    int    nclients, cur = 0;
    double burst;
    Sched(Rng &r, int n) : nclients(n), burst(0.3 + 0.6 * ((double)r.below(100) / 100.0)) { cur = (int)r.below((uint64_t)n); }
    int    next(Rng &r)
    {
        if (nclients > 1 && !r.chance(burst))
            cur = (int)r.below((uint64_t)nclients);
        return cur;
    }
};

} // namespace h4
