// simfs.h -- the simulated disk: link-time replacement of the stdio calls the library makes.
// Every call on a path under /sim/ is one numbered I/O event; faults are attached to events.
#pragma once
#include <cstdint>
#include <map>
#include <memory>
#include <string>
#include <vector>

namespace simfs {

enum EvKind {
    EV_OPEN = 0,
    EV_CLOSE,
    EV_READ,
    EV_WRITE,
    EV_SEEK,
    EV_TELL,
    EV_FLUSH,
    EV_STAT,
    EV_REMOVE,
    EV_RENAME,
    EV_WRITEOUT, // buffered mode: the stream buffer reaches the disk
    EV_NKINDS
};
const char *evkind_name(int k);

enum FaultKind {
    F_NONE = 0,
    F_EIO,      // the event returns its failure value, no bytes move
    F_SHORT,    // read/write transfers a proper prefix
    F_ENOSPC,   // this and every later event that would extend a file fails
    F_STICKY,   // this and all later events on that stream fail
    F_OPENFAIL, // fopen returns NULL
    F_NKINDS
};
const char *fault_name(int k);

struct Event {
    uint32_t seq;
    int      op;  // API op index current when the event happened
    int      ord; // ordinal of the event inside that op
    int      kind;
    int      stream;
    int      file;
    int64_t  off;
    int64_t  len;
    int64_t  result;
    uint64_t dhash;
    int      fault; // fault kind applied (F_NONE if none)
};

struct Fault {
    int     op;
    int     ord;
    int     kind;
    int64_t param;
    bool    fired = false;
};

// a change that reached the disk, in order
struct WriteRec {
    int                  kind; // 0 data write, 1 truncate-to-zero/create, 2 remove, 3 rename (path -> path2)
    std::string          path, path2;
    int64_t              off = 0;
    std::vector<uint8_t> data;
    int                  op    = 0;
    uint32_t             evseq = 0;
    std::string          site; // library call chain of the write, innermost first (only with keep_writelog_sites; not serialised)
};

static const int64_t PAGE = 4096;

struct FileData {
    std::map<int64_t, std::vector<uint8_t>> pages; // absent page = zeros
    int64_t                                 len    = 0;
    bool                                    frozen = false;
    void    write(int64_t off, const uint8_t *p, int64_t n);
    void    read(int64_t off, uint8_t *p, int64_t n) const; // no bounds check: beyond len reads zeros
    void    truncate0();
    uint64_t hash() const; // hash of logical content (length + non-zero pages)
};

typedef std::map<std::string, std::shared_ptr<FileData>> Disk;

Disk     disk_clone();                // deep copy of the current disk
void     disk_restore(const Disk &d); // replace the current disk (all streams must be closed)
void     disk_apply(Disk &d, const WriteRec &w);
uint64_t disk_hash(const Disk &d);
std::vector<uint8_t> file_bytes(const Disk &d, const std::string &path, int64_t maxlen = (int64_t)1 << 28);
std::string          wlog_serialize(const std::vector<WriteRec> &w);
std::vector<WriteRec> wlog_deserialize(const std::string &s);
std::string          disk_serialize(const Disk &d);
Disk                 disk_deserialize(const std::string &s);

// run control
void reset_all();                        // empty disk, no streams, counters zero
void set_buffered(bool on, int bufsize); // stdio mode for streams opened from now on
void set_op(int op);                     // engine: the API op about to run
void set_faults(const std::vector<Fault> &f);
std::vector<Fault> &faults();
void     keep_events(bool on);
const std::vector<Event> &events();
uint32_t nevents();
uint64_t event_hash();
const std::vector<WriteRec> &writelog();
void     clear_writelog();
void     keep_writelog(bool on);
void     keep_writelog_sites(bool on); // record the library call chain of every logged write
void     freeze(const std::string &path, bool on); // C14 mutation monitor
void     freeze_all(bool on);
const std::vector<std::string> &mutations();      // mutating events seen on frozen files
const std::vector<std::string> &misuse();         // use of closed streams etc. (memory-unsafe in real stdio)
int      open_streams();
void     set_env(const std::string &name, const std::string &val);
void     set_nofile_limit(long n);
Disk    &disk();
const uint64_t *kind_counts();  // events per kind
const uint64_t *fault_counts(); // faults fired per kind
const std::string &fault_site(); // library call chain (innermost first) where the first fault fired

} // namespace simfs
