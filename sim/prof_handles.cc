// prof_handles.cc -- C13: handles are safe: valid ones never alias, stale ones are always rejected.
// Honest ops open/attach/select/create/release handles of every interface over two files; adversary ops use ids that
// were released, are of another kind, belong to another file or were never issued.  Oracle: a live-handle table (every
// live id answers an identity question with the object it was issued for), every adversarial call returns its failure
// value, a refused Hclose leaves the file usable, ASan stays silent, and after full teardown a fresh open works.
#include "hx.h"

namespace h4 {
namespace {

enum Kind { H_FID = 0, H_AID, H_VS, H_VG, H_SD, H_SDS, H_GR, H_RI, H_AN, H_ANN, NKIND };
const char *KNAME[] = {"file id", "access id", "vdata id", "vgroup id", "SD id", "SDS id", "GR id", "RI id", "AN id", "annotation id"};

struct Hd {
    int   kind = 0;
    int32 id   = FAIL;
    int   file = 0;   // which path
    int   owner = -1; // index of the handle it depends on (fid for aid/vs/vg/gr/an, sd for sds, gr for ri, an for ann)
    bool  live = false;
    // identity
    uint16      tag = 0, ref = 0;
    std::string name;
    int         mode = 0; // file id: 1 read 2 write
};

struct Handles : Profile {
    const char *name() const override { return "handles"; }
    const char *property() const override { return "C13"; }
    int         runs(bool thorough) const override { return thorough ? 150000 : 8000; }
    std::string rule() const override
    {
        return "each case = one generated plan of 30..120 ops over two files: honest open/attach/select/create/release of file, "
               "access-element, Vdata, Vgroup, SD, SDS, GR, RI, AN and annotation ids (nested opens of one path in different modes, "
               "release in any order, Hclose with access ids attached) interleaved with adversarial calls (released ids incl. double "
               "release, ids of another kind, of the other file, never issued); oracle = live-handle table + failure values + ASan + shadow run "
               "(the plan without its adversarial calls must leave byte-identical files); "
               "non-trivial = >= 5 ops and >= 1 adversarial call checked";
    }
    std::vector<std::string> assumptions() const override
    {
        return {"an SDS id is released by SDend of its file, not by SDendaccess (SD ids are positional names); a numerically re-issued SD id "
                "is a valid id and is not used as a stale probe",
                "one writable SDstart per path at a time"};
    }
    std::vector<std::string> required_probes() const override
    {
        return {"stale-rejected", "wrongkind-rejected", "never-rejected", "double-release-rejected", "close-refused-with-aids", "nested-open",
                "upgrade-open", "foreign-rejected", "teardown", "identity-checked", "shadow-run-compared", "wrongkind-hlevel",
                "stale-extra-call", "wrongkind-extra-call", "never-extra-call", "aid-on-special-element", "badopen-refused", "more-than-256-sd-files", "ids-sharing-a-chain", "failed-call-releases"};
    }

    Plan generate(Rng &rng, bool thorough, uint64_t) override
    {
        Plan p;
        p.seed = rng.next();
        Rng r  = rng.sub(2);
        int nops = (int)r.range(30, thorough ? 160 : 120);
        static const std::vector<int> w     = {/*hopen*/ 8, /*acquire*/ 30, /*release*/ 22, /*check*/ 8, /*stale*/ 14, /*wrongkind*/ 8, /*never*/ 4,
                                               /*closebusy*/ 4, /*foreign*/ 3, /*teardown*/ 2, /*use*/ 10, /*badopen*/ 3, /*manyfiles*/ 0, /*hashchain*/ 2, /*vgtwice*/ 2};
        static const char            *names[] = {"hopen", "acquire", "release", "check", "stale", "wrongkind", "never", "closebusy", "foreign", "teardown", "use", "badopen", "manyfiles", "hashchain", "vgtwice"};
        p.ops.push_back(mkop(0, "hopen", {0, 0}));
        if (r.chance(0.03)) // rarely, and first: several hundred SD files open at once (ids carry the number of the file's slot)
            p.ops.push_back(mkop(0, "manyfiles", {257 + (int64_t)r.below(8)}));
        for (int i = 0; i < nops; i++) {
            int k = r.weighted(w);
            switch (k) {
                case 0:
                    p.ops.push_back(mkop(0, names[k], {(int64_t)r.below(2), (int64_t)r.below(3)}));
                    break;
                case 1: // kind, which owner, object selector
                    p.ops.push_back(mkop(0, names[k], {1 + (int64_t)r.below(NKIND - 1), (int64_t)r.below(100), (int64_t)r.below(4), (int64_t)r.below(2)}));
                    break;
                case 2:
                case 10:
                    p.ops.push_back(mkop(0, names[k], {(int64_t)r.below(100)}));
                    break;
                case 4:
                    p.ops.push_back(mkop(0, names[k], {(int64_t)r.below(100), (int64_t)r.below(3), (int64_t)r.below(14)}));
                    break;
                case 5:
                    p.ops.push_back(mkop(0, names[k], {(int64_t)r.below(100), (int64_t)r.below(NKIND), (int64_t)r.below(14)}));
                    break;
                case 6:
                    p.ops.push_back(mkop(0, names[k], {(int64_t)r.below(NKIND), (int64_t)r.below(6), (int64_t)r.below(14)}));
                    break;
                case 11:
                    p.ops.push_back(mkop(0, names[k], {(int64_t)r.below(6), (int64_t)r.below(2)}));
                    break;
                case 14: // which file id, which vgroup
                    p.ops.push_back(mkop(0, names[k], {(int64_t)r.below(100), (int64_t)r.below(2)}));
                    break;
                case 13: // kind of id (file / access), file, order in which the three are released
                    p.ops.push_back(mkop(0, names[k], {(int64_t)r.below(3), (int64_t)r.below(2), (int64_t)r.below(6)})); // kind 2: two files
                    break;
                default:
                    p.ops.push_back(mkop(0, names[k], {(int64_t)r.below(100)}));
                    break;
            }
        }
        p.ops.push_back(mkop(0, "teardown", {0}));
        return p;
    }

    struct S {
        Ctx            &ctx;
        std::vector<Hd> h;      // every handle ever issued (live or released)
        bool            on_disk[2] = {false, false};
        bool            populated[2] = {false, false};
        int             sd_writer[2] = {0, 0};
        explicit S(Ctx &c) : ctx(c) {}
    };
    static std::string path(int f) { return strf("/sim/hd%d.hdf", f); }

    // ---- identity question for a live handle, or a harmless query on any id; returns true if the call succeeded
    bool query(S &s, int kind, int32 id, Hd *expect)
    {
        Ctx &ctx = s.ctx;
        switch (kind) {
            case H_FID: {
                char *fn = NULL;
                intn  acc = 0, att = 0;
                if (Hfidinquire(id, &fn, &acc, &att) == FAIL)
                    return false;
                if (expect && (!fn || path(expect->file) != fn))
                    ctx.fail("alias", "alias:fid", strf("file id issued for %s answers for %s", path(expect->file).c_str(), fn ? fn : "(null)"));
                return true;
            }
            case H_AID: {
                uint16 t = 0, r = 0;
                int32  fid = 0, len = 0, off = 0, pos = 0;
                int16  acc = 0, sp = 0;
                if (Hinquire(id, &fid, &t, &r, &len, &off, &pos, &acc, &sp) == FAIL)
                    return false;
                if (expect && ((t & ~0x4000) != expect->tag || r != expect->ref))
                    ctx.fail("alias", "alias:aid", strf("access id issued for %u/%u answers for %u/%u", expect->tag, expect->ref, t, r));
                if (expect) {
                    // ... and for the element of ITS file: length and first byte differ between the files
                    uint8 b = 0;
                    if (len != elem_len(expect->file, expect->ref))
                        ctx.fail("alias", "alias:aid-length", strf("access id on %u/%u of file %d reports length %d, the element has %d", t, r, expect->file, (int)len, (int)elem_len(expect->file, expect->ref)));
                    if (Hseek(id, 0, DF_START) == FAIL || Hread(id, 1, &b) != 1 || b != elem_byte(expect->file, expect->ref))
                        ctx.fail("alias", "alias:aid-bytes", strf("access id on %u/%u of file %d reads byte %02x, the element starts with %02x", t, r, expect->file, b, elem_byte(expect->file, expect->ref)));
                }
                return true;
            }
            case H_VS: {
                char nm[VSNAMELENMAX + 1] = "";
                if (VSgetname(id, nm) == FAIL)
                    return false;
                if (expect && expect->name != nm)
                    ctx.fail("alias", "alias:vs", strf("vdata id issued for '%s' answers for '%s'", expect->name.c_str(), nm));
                return VSelts(id) != FAIL;
            }
            case H_VG: {
                char nm[256] = "";
                if (Vgetname(id, nm) == FAIL)
                    return false;
                if (expect && expect->name != nm)
                    ctx.fail("alias", "alias:vg", strf("vgroup id issued for '%s' answers for '%s'", expect->name.c_str(), nm));
                return Vntagrefs(id) != FAIL;
            }
            case H_SD: {
                int32 nd = 0, na = 0;
                return SDfileinfo(id, &nd, &na) != FAIL;
            }
            case H_SDS: {
                char  nm[256] = "";
                int32 rank = 0, dims[H4_MAX_VAR_DIMS], nt = 0, na = 0;
                if (SDgetinfo(id, nm, &rank, dims, &nt, &na) == FAIL)
                    return false;
                if (expect && expect->name != nm)
                    ctx.fail("alias", "alias:sds", strf("SDS id issued for '%s' answers for '%s'", expect->name.c_str(), nm));
                return true;
            }
            case H_GR: {
                int32 n = 0, a = 0;
                return GRfileinfo(id, &n, &a) != FAIL;
            }
            case H_RI: {
                char  nm[256] = "";
                int32 nc = 0, nt = 0, il = 0, dims[2], na = 0;
                if (GRgetiminfo(id, nm, &nc, &nt, &il, dims, &na) == FAIL)
                    return false;
                if (expect && expect->name != nm)
                    ctx.fail("alias", "alias:ri", strf("RI id issued for '%s' answers for '%s'", expect->name.c_str(), nm));
                return true;
            }
            case H_AN: {
                int32 a = 0, b = 0, c = 0, d = 0;
                return ANfileinfo(id, &a, &b, &c, &d) != FAIL;
            }
            case H_ANN: {
                uint16 t = 0, r = 0;
                if (ANid2tagref(id, &t, &r) == FAIL)
                    return false;
                if (expect && (t != expect->tag || r != expect->ref))
                    ctx.fail("alias", "alias:ann", strf("annotation id issued for %u/%u answers for %u/%u", expect->tag, expect->ref, t, r));
                return ANannlen(id) != FAIL;
            }
        }
        return false;
    }
    // Further entry points of each interface, tried only with ids that are known to be invalid (released, of another
    // kind, never issued): 1 = the call reported success, 0 = refused, -1 = nothing to try.  Every call here fails for no
    // other reason than its id, and a refused call has no effect (the shadow run compares the files).
    int extra_accepts(int kind, int32 id, int which, const char **name)
    {
        uint8  buf[64];
        int32  i32 = 0, j32 = 0, dims[H4_MAX_VAR_DIMS] = {0}, st[H4_MAX_VAR_DIMS] = {0}, ed[H4_MAX_VAR_DIMS];
        uint16 t = 0, r = 0;
        char   nm[512];
        uint32 u[4];
        for (auto &e : ed)
            e = 1;
        memset(buf, 0, sizeof buf);
#define XC(n, nmstr, expr)                                                                                                            \
    case n:                                                                                                                            \
        *name = nmstr;                                                                                                                 \
        return (expr) ? 1 : 0;
        switch (kind) {
            case H_FID:
                switch (which % 12) {
                    XC(0, "Hnumber", Hnumber(id, DFTAG_WILDCARD) != FAIL)
                    XC(1, "Hnewref", Hnewref(id) != 0)
                    XC(2, "Hsync", Hsync(id) != FAIL)
                    XC(3, "Hgetfileversion", Hgetfileversion(id, &u[0], &u[1], &u[2], nm) != FAIL)
                    XC(4, "Htagnewref", Htagnewref(id, 8801) != 0)
                    XC(5, "Vstart", Vstart(id) != FAIL)
                    XC(6, "GRstart", GRstart(id) != FAIL)
                    XC(7, "ANstart", ANstart(id) != FAIL)
                    XC(8, "Hcache", Hcache(id, TRUE) != FAIL)
                    XC(9, "Hputelement", Hputelement(id, 8802, 1, buf, 8) != FAIL)
                    XC(10, "VSattach", VSattach(id, -1, "w") != FAIL)
                    XC(11, "Hfind", Hfind(id, DFTAG_WILDCARD, DFREF_WILDCARD, &t, &r, &i32, &j32, DF_FORWARD) != FAIL)
                }
                break;
            case H_AID:
                switch (which % 10) {
                    XC(0, "Hread", Hread(id, 1, buf) != FAIL)
                    XC(1, "Hseek", Hseek(id, 0, DF_START) != FAIL)
                    XC(2, "Htell", Htell(id) != FAIL)
                    XC(3, "Hwrite", Hwrite(id, 1, buf) != FAIL)
                    XC(4, "Htrunc", Htrunc(id, 0) != FAIL)
                    XC(5, "Hnextread", Hnextread(id, DFTAG_WILDCARD, DFREF_WILDCARD, DF_CURRENT) != FAIL)
                    XC(6, "Happendable", Happendable(id) != FAIL)
                    XC(7, "HQuerylength", HQuerylength(id, &i32) != FAIL)
                    XC(8, "Hsetlength", Hsetlength(id, 4) != FAIL)
                    XC(9, "HQueryposition", HQueryposition(id, &i32) != FAIL)
                }
                break;
            case H_VS:
                switch (which % 8) {
                    XC(0, "VSinquire", VSinquire(id, &i32, &j32, nm, &dims[0], nm) != FAIL)
                    XC(1, "VSseek", VSseek(id, 0) != FAIL)
                    XC(2, "VSsetfields", VSsetfields(id, "x") != FAIL)
                    XC(3, "VSread", VSread(id, buf, 1, FULL_INTERLACE) != FAIL)
                    XC(4, "VSwrite", VSwrite(id, buf, 1, FULL_INTERLACE) != FAIL)
                    XC(5, "VSfnattrs", VSfnattrs(id, _HDF_VDATA) != FAIL)
                    XC(6, "VSsetname", VSsetname(id, "zz") != FAIL)
                    XC(7, "VSgetclass", VSgetclass(id, nm) != FAIL)
                }
                break;
            case H_VG:
                switch (which % 7) {
                    XC(0, "Vgettagref", Vgettagref(id, 0, &i32, &j32) != FAIL)
                    XC(1, "Vaddtagref", Vaddtagref(id, 8800, 1) != FAIL)
                    XC(2, "Vnattrs", Vnattrs(id) != FAIL)
                    XC(3, "Vsetname", Vsetname(id, "zz") != FAIL)
                    XC(4, "Vgetclass", Vgetclass(id, nm) != FAIL)
                    XC(5, "Vinqtagref", Vinqtagref(id, 8800, 1) != FALSE)
                    XC(6, "Vdeletetagref", Vdeletetagref(id, 8800, 1) != FAIL)
                }
                break;
            case H_SD:
                switch (which % 5) {
                    XC(0, "SDselect", SDselect(id, 0) != FAIL)
                    XC(1, "SDnametoindex", SDnametoindex(id, "hsd0_0") != FAIL)
                    XC(2, "SDcreate", SDcreate(id, "zz", DFNT_INT32, 1, ed) != FAIL)
                    XC(3, "SDsetattr", SDsetattr(id, "zz", DFNT_UINT8, 1, buf) != FAIL)
                    XC(4, "SDreftoindex", SDreftoindex(id, 1) != FAIL)
                }
                break;
            case H_SDS:
                switch (which % 6) {
                    XC(0, "SDgetdimid", SDgetdimid(id, 0) != FAIL)
                    XC(1, "SDreaddata", SDreaddata(id, st, NULL, ed, buf) != FAIL)
                    XC(2, "SDwritedata", SDwritedata(id, st, NULL, ed, buf) != FAIL)
                    XC(3, "SDidtoref", SDidtoref(id) != FAIL)
                    XC(4, "SDsetdatastrs", SDsetdatastrs(id, "l", NULL, NULL, NULL) != FAIL)
                    XC(5, "SDiscoordvar", SDiscoordvar(id) == TRUE)
                }
                break;
            case H_GR:
                switch (which % 4) {
                    XC(0, "GRselect", GRselect(id, 0) != FAIL)
                    XC(1, "GRnametoindex", GRnametoindex(id, "hri0_0") != FAIL)
                    XC(2, "GRcreate", GRcreate(id, "zz", 1, DFNT_UINT8, MFGR_INTERLACE_PIXEL, ed) != FAIL)
                    XC(3, "GRreftoindex", GRreftoindex(id, 1) != FAIL)
                }
                break;
            case H_RI:
                switch (which % 5) {
                    XC(0, "GRgetlutid", GRgetlutid(id, 0) != FAIL)
                    XC(1, "GRreadimage", GRreadimage(id, st, NULL, ed, buf) != FAIL)
                    XC(2, "GRwriteimage", GRwriteimage(id, st, NULL, ed, buf) != FAIL)
                    XC(3, "GRidtoref", GRidtoref(id) != 0)
                    XC(4, "GRreqimageil", GRreqimageil(id, MFGR_INTERLACE_PIXEL) != FAIL)
                }
                break;
            case H_AN:
                switch (which % 3) {
                    XC(0, "ANnumann", ANnumann(id, AN_DATA_LABEL, 8800, 1) != FAIL)
                    XC(1, "ANcreatef", ANcreatef(id, AN_FILE_LABEL) != FAIL)
                    XC(2, "ANselect", ANselect(id, 0, AN_FILE_LABEL) != FAIL)
                }
                break;
            case H_ANN:
                switch (which % 3) {
                    XC(0, "ANreadann", ANreadann(id, nm, 16) != FAIL)
                    XC(1, "ANwriteann", ANwriteann(id, "zz", 2) != FAIL)
                    XC(2, "ANget_tagref-id", ANid2tagref(id, &t, &r) != FAIL)
                }
                break;
        }
#undef XC
        return -1;
    }

    // the release call of a kind; true if it reported success
    bool release_call(int kind, int32 id)
    {
        switch (kind) {
            case H_FID:
                return Hclose(id) != FAIL;
            case H_AID:
                return Hendaccess(id) != FAIL;
            case H_VS:
                return VSdetach(id) != FAIL;
            case H_VG:
                return Vdetach(id) != FAIL;
            case H_SD:
                return SDend(id) != FAIL;
            case H_SDS:
                return SDendaccess(id) != FAIL;
            case H_GR:
                return GRend(id) != FAIL;
            case H_RI:
                return GRendaccess(id) != FAIL;
            case H_AN:
                return ANend(id) != FAIL;
            case H_ANN:
                return ANendaccess(id) != FAIL;
        }
        return false;
    }

    std::vector<int> live_of(S &s, int kind, int file = -1)
    {
        std::vector<int> v;
        for (size_t i = 0; i < s.h.size(); i++)
            if (s.h[i].live && (kind < 0 || s.h[i].kind == kind) && (file < 0 || s.h[i].file == file))
                v.push_back((int)i);
        return v;
    }
    int dependents(S &s, int idx)
    {
        int n = 0;
        for (auto &x : s.h)
            if (x.live && x.owner == idx && x.kind != H_ANN)
                n++;
        return n;
    }
    int add(S &s, int kind, int32 id, int file, int owner)
    {
        Hd x;
        x.kind  = kind;
        x.id    = id;
        x.file  = file;
        x.owner = owner;
        x.live  = true;
        s.h.push_back(x);
        return (int)s.h.size() - 1;
    }
    static uint8 elem_byte(int f, int ref) { return (uint8)(0x40 + 0x20 * f + ref); }
    static int32 elem_len(int f, int ref) { return ref == 4 ? 24 + 16 * f : 8; }
    // every file gets a few objects of each interface the first time it is opened for writing
    void populate(S &s, int f, int32 fid)
    {
        if (s.populated[f])
            return;
        s.populated[f] = true;
        uint8 d[8]     = {1, 2, 3, 4, 5, 6, 7, 8};
        for (int q = 0; q < 3; q++) {
            d[0] = elem_byte(f, q + 1); // the files hold elements of the same names with different bytes
            if (Hputelement(fid, 8800, (uint16)(1 + q), d, 8) == FAIL)
                s.ctx.fail("setup-failed", "setup-failed:hput", "populating a file failed");
        }
        d[0] = 1;
        {
            // a descriptor without data (a writer started the element and never wrote): reading it fails
            int32 eaid = Hstartaccess(fid, 8803, 1, DFACC_WRITE);
            if (eaid == FAIL || Hendaccess(eaid) == FAIL)
                s.ctx.fail("setup-failed", "setup-failed:nodata", "populating a file failed");
        }
        {
            // a linked-block element of the same name in every file, with its own length and bytes: access ids on special
            // elements share bookkeeping per element, which must never be taken from the other file
            std::vector<uint8> lb((size_t)elem_len(f, 4), elem_byte(f, 4));
            int32 aid = HLcreate(fid, 8800, 4, 8, 2);
            if (aid == FAIL || Hwrite(aid, (int32)lb.size(), lb.data()) == FAIL || Hendaccess(aid) == FAIL)
                s.ctx.fail("setup-failed", "setup-failed:hlcreate", "populating a file failed");
        }
        Vstart(fid);
        for (int q = 0; q < 2; q++) {
            int32 v = q;
            if (VHstoredata(fid, "x", (const uint8 *)&v, 1, DFNT_INT32, strf("hvs%d_%d", f, q).c_str(), "c") == FAIL)
                s.ctx.fail("setup-failed", "setup-failed:vs", "populating a file failed");
            int32 vg = Vattach(fid, -1, "w");
            if (vg == FAIL || Vsetname(vg, strf("hvg%d_%d", f, q).c_str()) == FAIL || Vdetach(vg) == FAIL)
                s.ctx.fail("setup-failed", "setup-failed:vg", "populating a file failed");
        }
        int32 gr = GRstart(fid), dims[2] = {2, 2}, st[2] = {0, 0};
        for (int q = 0; q < 2; q++) {
            int32 ri = GRcreate(gr, strf("hri%d_%d", f, q).c_str(), 1, DFNT_UINT8, MFGR_INTERLACE_PIXEL, dims);
            if (ri == FAIL || GRwriteimage(ri, st, NULL, dims, d) == FAIL || GRendaccess(ri) == FAIL)
                s.ctx.fail("setup-failed", "setup-failed:gr", "populating a file failed");
        }
        GRend(gr);
        int32 an = ANstart(fid);
        for (int q = 0; q < 2; q++) {
            int32 a = ANcreatef(an, AN_FILE_LABEL);
            if (a == FAIL || ANwriteann(a, "label", 5) == FAIL || ANendaccess(a) == FAIL)
                s.ctx.fail("setup-failed", "setup-failed:an", "populating a file failed");
        }
        ANend(an);
        Vend(fid);
    }
    void populate_sd(S &s, int f, int32 sd)
    {
        int32 dm[1] = {2}, v[2] = {1, 2}, st[1] = {0};
        for (int q = 0; q < 2; q++) {
            if (SDnametoindex(sd, strf("hsd%d_%d", f, q).c_str()) != FAIL)
                continue;
            int32 id = SDcreate(sd, strf("hsd%d_%d", f, q).c_str(), DFNT_INT32, 1, dm);
            if (id == FAIL || SDwritedata(id, st, NULL, dm, v) == FAIL || SDendaccess(id) == FAIL)
                s.ctx.fail("setup-failed", "setup-failed:sd", "populating a file failed");
        }
    }

    void check_all(S &s)
    {
        for (auto &x : s.h)
            if (x.live) {
                s.ctx.st.checks++;
                if (!query(s, x.kind, x.id, &x))
                    s.ctx.fail("live-rejected", strf("live-rejected:%d", x.kind), strf("a live %s (0x%x) is rejected by its own interface", KNAME[x.kind], (unsigned)x.id));
                s.ctx.probe("identity-checked");
                if (x.kind == H_FID && s.populated[x.file]) {
                    // a call that fails half way (the element is found, reading it fails) lets go of what it had attached
                    char *fn = NULL;
                    intn  acc = 0, att0 = -1, att1 = -2;
                    uint8 b[16];
                    Hfidinquire(x.id, &fn, &acc, &att0);
                    if (Hgetelement(x.id, 8803, 1, b) != FAIL)
                        s.ctx.fail("failed-call-accepted", "failed-call-accepted:Hgetelement", "Hgetelement of a descriptor without data returns bytes");
                    Hfidinquire(x.id, &fn, &acc, &att1);
                    if (att0 != att1)
                        s.ctx.fail("retained-state", "retained-state:attach-after-failed-call",
                                   strf("a failed Hgetelement leaves %d access elements attached to the file where %d were before", (int)att1, (int)att0));
                    s.ctx.probe("failed-call-releases");
                }
            }
    }
    bool is_live_value(S &s, int kind, int32 id)
    {
        for (auto &x : s.h)
            if (x.live && x.id == id && (x.kind == kind || (kind == H_SD || kind == H_SDS)))
                return true;
        return false;
    }
    void release(S &s, int idx, bool force_children)
    {
        Hd &x = s.h[(size_t)idx];
        if (!x.live)
            return;
        if (force_children)
            for (size_t i = 0; i < s.h.size(); i++)
                if (s.h[i].live && s.h[i].owner == idx)
                    release(s, (int)i, true);
        if (x.kind == H_FID && dependents(s, idx) == 0) {
            // interfaces started on this file id are ended with it
            Vend(x.id);
        }
        if (!release_call(x.kind, x.id))
            s.ctx.fail("release-failed", strf("release-failed:%d", x.kind), strf("releasing a live %s failed: %s", KNAME[x.kind], HEstring((hdf_err_code_t)HEvalue(1))));
        if (x.kind == H_ANN)
            return; // by design ANendaccess releases nothing: annotation ids live until ANend
        x.live = false;
        if (x.kind == H_AN) // ANend ends every annotation id of the file
            for (auto &y : s.h)
                if (y.live && y.kind == H_ANN && y.file == x.file)
                    y.live = false;
        if (x.kind == H_SD && x.mode == 2)
            s.sd_writer[x.file] = 0;
        // an SDS id dies with its SD id
        if (x.kind == H_SD)
            for (auto &y : s.h)
                if (y.live && y.kind == H_SDS && y.owner == idx)
                    y.live = false;
    }

    // Shadow run: the same plan without its adversarial calls.  Those calls are all refused, so they must be no-ops for
    // everything durable: the files of the two runs are byte-identical at the end (atoms and ids are not on disk).
    static bool adversarial(const std::string &k)
    {
        return k == "stale" || k == "wrongkind" || k == "never" || k == "foreign" || k == "closebusy" || k == "badopen";
    }
    Outcome judge(const Plan &plan, Exec &ex) override
    {
        Outcome full = ex.run(plan);
        if (full.status != ST_OK)
            return full;
        Plan   shadow = plan;
        size_t nadv   = 0;
        shadow.knobs["shadow"] = 1; // the executor leaves the adversarial calls out and keeps everything else (op places, scaffolding)
        for (auto &o : shadow.ops)
            if (adversarial(o.kind))
                nadv++;
        if (nadv == 0)
            return full;
        Outcome sh = ex.run(shadow);
        accumulate(ex.agg_extra, sh.st);
        if (sh.status != ST_OK)
            return full; // the shorter plan is a case of its own in the search; this case is judged by its own run
        full.st.checks++;
        full.st.probes["shadow-run-compared"]++;
        if (sh.st.diskhash != full.st.diskhash) {
            full.status = ST_VIOL;
            full.v.cls  = "adversarial-call-had-effect";
            full.v.key  = "adversarial-call-had-effect:disk";
            full.v.msg  = strf("the %zu adversarial calls of this plan (stale, foreign, wrong-kind, never issued ids, Hclose with ids attached) were all refused, yet the files differ from "
                               "those of the same plan without them",
                               nadv);
        }
        return full;
    }

    void execute(Ctx &ctx) override
    {
        S           s(ctx);
        const Plan &p = ctx.plan;
        for (size_t i = 0; i < p.ops.size(); i++) {
            const Op &o = p.ops[i];
            ctx.begin_op((int)i);
            const std::string &k = o.kind;
            bool               done = true;
            bool               shadow = p.knob("shadow", 0) != 0;
            if (shadow && adversarial(k) && k != "foreign" && k != "badopen")
                done = false;
            else if (k == "hopen") {
                int f = modn(o.arg(0), 2), mode = modn(o.arg(1), 3);
                int acc = !s.on_disk[f] ? DFACC_CREATE : mode == 2 ? DFACC_READ : DFACC_RDWR;
                auto open_fids = live_of(s, H_FID, f);
                if (acc == DFACC_CREATE && !open_fids.empty())
                    acc = DFACC_RDWR;
                bool any_write = false;
                for (int q : open_fids)
                    any_write |= s.h[(size_t)q].mode == 2;
                int32 fid = Hopen(path(f).c_str(), acc, 0);
                if (fid == FAIL)
                    ctx.fail("open-failed", "open-failed", strf("Hopen(%s, %d) failed with %zu other opens of the path: %s", path(f).c_str(), acc, open_fids.size(), HEstring((hdf_err_code_t)HEvalue(1))));
                s.on_disk[f] = true;
                int idx = add(s, H_FID, fid, f, -1);
                s.h[(size_t)idx].mode = acc == DFACC_READ ? 1 : 2;
                if (!open_fids.empty())
                    ctx.probe("nested-open");
                if (Vstart(fid) == FAIL)
                    ctx.fail("open-failed", "open-failed:vstart", "Vstart failed");
                if (acc != DFACC_READ) {
                    if (!open_fids.empty() && !any_write) {
                        // the path was open read-only: this open asked for write access and got a file id, so it must be able to write
                        ctx.probe("upgrade-open");
                        uint8 d[4] = {9, 9, 9, 9};
                        if (Hputelement(fid, 8801, (uint16)(1 + i % 50), d, 4) == FAIL)
                            ctx.fail("upgrade-denied", "upgrade-denied",
                                     "Hopen(RDWR) of a path that is already open read-only returned a file id, but writing through it is denied");
                    }
                    populate(s, f, fid);
                }
            }
            else if (k == "acquire") {
                int kind = modn(o.arg(0), NKIND);
                if (kind == H_FID)
                    kind = H_AID;
                int sel = (int)o.arg(2);
                if (kind == H_SD) {
                    int f = modn(o.arg(1), 2);
                    if (!s.on_disk[f] || !s.populated[f])
                        done = false;
                    else {
                        bool  wr = o.arg(3) != 0 && s.sd_writer[f] == 0;
                        int32 sd = SDstart(path(f).c_str(), wr ? DFACC_RDWR : DFACC_READ);
                        if (sd == FAIL)
                            ctx.fail("acquire-failed", "acquire-failed:sd", strf("SDstart(%s) failed: %s", path(f).c_str(), HEstring((hdf_err_code_t)HEvalue(1))));
                        // positional SD ids: another live handle with the same value means the library re-issued it
                        int idx = add(s, H_SD, sd, f, -1);
                        s.h[(size_t)idx].mode = wr ? 2 : 1;
                        if (wr) {
                            s.sd_writer[f] = 1;
                            populate_sd(s, f, sd);
                        }
                    }
                }
                else if (kind == H_SDS) {
                    auto sds = live_of(s, H_SD);
                    if (sds.empty())
                        done = false;
                    else {
                        int    oi = sds[(size_t)modn(o.arg(1), (int)sds.size())];
                        Hd    &od = s.h[(size_t)oi];
                        std::string nm = strf("hsd%d_%d", od.file, modn(sel, 2));
                        int32  ix = SDnametoindex(od.id, nm.c_str());
                        if (ix == FAIL)
                            done = false;
                        else {
                            int32 id = SDselect(od.id, ix);
                            if (id == FAIL)
                                ctx.fail("acquire-failed", "acquire-failed:sds", "SDselect failed");
                            bool dup = false;
                            for (auto &y : s.h)
                                dup |= y.live && y.kind == H_SDS && y.id == id;
                            if (!dup) {
                                int idx = add(s, H_SDS, id, od.file, oi);
                                s.h[(size_t)idx].name = nm;
                            }
                        }
                    }
                }
                else {
                    auto fids = live_of(s, H_FID);
                    if (fids.empty())
                        done = false;
                    else {
                        int  fi = fids[(size_t)modn(o.arg(1), (int)fids.size())];
                        Hd  &fd = s.h[(size_t)fi];
                        int  f  = fd.file;
                        if (!s.populated[f])
                            done = false;
                        else if (kind == H_AID) {
                            uint16 ref = (uint16)(1 + modn(sel, 4));
                            int32  aid = Hstartread(fd.id, 8800, ref);
                            if (ref == 4)
                                ctx.probe("aid-on-special-element");
                            if (aid == FAIL)
                                ctx.fail("acquire-failed", "acquire-failed:aid", "Hstartread of an existing element failed");
                            int idx = add(s, H_AID, aid, f, fi);
                            s.h[(size_t)idx].tag = 8800;
                            s.h[(size_t)idx].ref = ref;
                        }
                        else if (kind == H_VS || kind == H_VG) {
                            std::string nm = strf(kind == H_VS ? "hvs%d_%d" : "hvg%d_%d", f, modn(sel, 2));
                            int32 ref = kind == H_VS ? VSfind(fd.id, nm.c_str()) : Vfind(fd.id, nm.c_str());
                            if (ref <= 0)
                                ctx.fail("acquire-failed", "acquire-failed:find", strf("%s not found in its file", nm.c_str()));
                            int32 id = kind == H_VS ? VSattach(fd.id, ref, "r") : Vattach(fd.id, ref, "r");
                            if (id == FAIL)
                                ctx.fail("acquire-failed", "acquire-failed:attach", strf("attaching %s failed", nm.c_str()));
                            int idx = add(s, kind, id, f, fi);
                            s.h[(size_t)idx].name = nm;
                            s.h[(size_t)idx].ref  = (uint16)ref;
                        }
                        else if (kind == H_GR || kind == H_AN) {
                            // one GR / AN interface per file id at a time
                            // GR: one per file id.  AN: one per file -- the annotation trees belong to the shared
                            // file record and ANend through any file id of the path tears them down
                            bool have = false;
                            for (auto &y : s.h)
                                have |= y.live && y.kind == kind && (y.owner == fi || (kind == H_AN && y.file == f));
                            if (have)
                                done = false;
                            else {
                                int32 id = kind == H_GR ? GRstart(fd.id) : ANstart(fd.id);
                                if (id == FAIL)
                                    ctx.fail("acquire-failed", "acquire-failed:start", strf("%s failed", kind == H_GR ? "GRstart" : "ANstart"));
                                add(s, kind, id, f, fi);
                            }
                        }
                        else if (kind == H_RI) {
                            auto grs = live_of(s, H_GR);
                            if (grs.empty())
                                done = false;
                            else {
                                int   gi = grs[(size_t)modn(o.arg(1), (int)grs.size())];
                                Hd   &gd = s.h[(size_t)gi];
                                std::string nm = strf("hri%d_%d", gd.file, modn(sel, 2));
                                int32 ix = GRnametoindex(gd.id, nm.c_str());
                                int32 ri = ix == FAIL ? FAIL : GRselect(gd.id, ix);
                                if (ri == FAIL)
                                    ctx.fail("acquire-failed", "acquire-failed:ri", strf("selecting %s failed", nm.c_str()));
                                int idx = add(s, H_RI, ri, gd.file, gi);
                                s.h[(size_t)idx].name = nm;
                            }
                        }
                        else if (kind == H_ANN) {
                            auto ans = live_of(s, H_AN);
                            if (ans.empty())
                                done = false;
                            else {
                                int   ai = ans[(size_t)modn(o.arg(1), (int)ans.size())];
                                Hd   &ad = s.h[(size_t)ai];
                                int32 id = ANselect(ad.id, modn(sel, 2), AN_FILE_LABEL);
                                if (id == FAIL)
                                    ctx.fail("acquire-failed", "acquire-failed:ann", "ANselect failed");
                                bool dup = false;
                                for (auto &y : s.h)
                                    dup |= y.live && y.kind == H_ANN && y.id == id;
                                if (!dup) {
                                    int idx = add(s, H_ANN, id, ad.file, ai);
                                    ANid2tagref(id, &s.h[(size_t)idx].tag, &s.h[(size_t)idx].ref);
                                }
                            }
                        }
                    }
                }
            }
            else if (k == "release") {
                auto lv = live_of(s, -1);
                if (lv.empty())
                    done = false;
                else {
                    int idx = lv[(size_t)modn(o.arg(0), (int)lv.size())];
                    // a handle that others depend on is released after them (the adversary tries the other order)
                    if (dependents(s, idx) > 0)
                        done = false;
                    else
                        release(s, idx, false);
                }
            }
            else if (k == "use") {
                auto lv = live_of(s, -1);
                if (lv.empty())
                    done = false;
                else {
                    Hd &x = s.h[(size_t)lv[(size_t)modn(o.arg(0), (int)lv.size())]];
                    ctx.st.checks++;
                    if (!query(s, x.kind, x.id, &x))
                        ctx.fail("live-rejected", strf("live-rejected:%d", x.kind), strf("a live %s is rejected by its own interface", KNAME[x.kind]));
                }
            }
            else if (k == "check")
                check_all(s);
            else if (k == "stale") {
                // a released id: query it, or release it again
                std::vector<int> dead;
                for (size_t q = 0; q < s.h.size(); q++) {
                    const Hd &d = s.h[q];
                    if (d.live || is_live_value(s, d.kind, d.id))
                        continue;
                    if (d.kind == H_AN && d.owner >= 0 && s.h[(size_t)d.owner].live)
                        continue; // an AN id IS the file id it was started on: valid as long as that is
                    if ((d.kind == H_SDS || d.kind == H_SD) && !live_of(s, H_SD).empty())
                        continue; // positional SD ids: a live SD id may have re-issued the same numbers
                    dead.push_back((int)q);
                }
                if (dead.empty())
                    done = false;
                else {
                    Hd &x = s.h[(size_t)dead[(size_t)modn(o.arg(0), (int)dead.size())]];
                    ctx.st.checks++;
                    if (modn(o.arg(1), 3) == 0) {
                        if (release_call(x.kind, x.id))
                            ctx.fail("stale-accepted", strf("stale-accepted:release:%d", x.kind), strf("releasing an already released %s (0x%x) reports success", KNAME[x.kind], (unsigned)x.id));
                        ctx.probe("double-release-rejected");
                    }
                    else {
                        if (query(s, x.kind, x.id, nullptr))
                            ctx.fail("stale-accepted", strf("stale-accepted:query:%d", x.kind), strf("a released %s (0x%x) is still accepted by its interface", KNAME[x.kind], (unsigned)x.id));
                        ctx.probe("stale-rejected");
                        const char *cn = "";
                        if (o.arg(2) > 0 && extra_accepts(x.kind, x.id, (int)o.arg(2) - 1, &cn) == 1)
                            ctx.fail("stale-accepted", strf("stale-accepted:%s", cn), strf("a released %s (0x%x) is accepted by %s", KNAME[x.kind], (unsigned)x.id, cn));
                        if (o.arg(2) > 0)
                            ctx.probe("stale-extra-call");
                    }
                }
            }
            else if (k == "wrongkind") {
                auto lv = live_of(s, -1);
                if (lv.empty())
                    done = false;
                else {
                    Hd &x    = s.h[(size_t)lv[(size_t)modn(o.arg(0), (int)lv.size())]];
                    int kind = modn(o.arg(1), NKIND);
                    // SD ids live in their own number space: an SD/SDS id may numerically equal an atom and vice versa
                    bool sdspace = x.kind == H_SD || x.kind == H_SDS, tgt_sd = kind == H_SD || kind == H_SDS;
                    bool fid_an = (x.kind == H_FID && kind == H_AN) || (x.kind == H_AN && kind == H_FID); // same id by design
                    // (ids of other kinds used to be kept away from calls taking a file, access or AN id: repaired, findings/fixed)
                    if (kind == H_FID || kind == H_AID || kind == H_AN)
                        ctx.probe("wrongkind-hlevel");
                    if (kind == x.kind || (sdspace && tgt_sd) || is_live_value(s, kind, x.id) || fid_an)
                        done = false;
                    else {
                        ctx.st.checks++;
                        if (query(s, kind, x.id, nullptr))
                            ctx.fail("wrongkind-accepted", strf("wrongkind-accepted:%d-as-%d", x.kind, kind),
                                     strf("a %s (0x%x) is accepted where a %s is required", KNAME[x.kind], (unsigned)x.id, KNAME[kind]));
                        ctx.probe("wrongkind-rejected");
                        const char *cn = "";
                        if (o.arg(2) > 0 && extra_accepts(kind, x.id, (int)o.arg(2) - 1, &cn) == 1)
                            ctx.fail("wrongkind-accepted", strf("wrongkind-accepted:%s", cn), strf("a %s (0x%x) is accepted by %s", KNAME[x.kind], (unsigned)x.id, cn));
                        if (o.arg(2) > 0)
                            ctx.probe("wrongkind-extra-call");
                    }
                }
            }
            else if (k == "never") {
                static const int32 vals[] = {-1, 0, 12345, 0x7fffffff, -2147483647 - 1, 0x00100001};
                int   kind = modn(o.arg(0), NKIND);
                int32 id   = vals[modn(o.arg(1), 6)];
                if (is_live_value(s, kind, id))
                    done = false;
                else {
                    ctx.st.checks++;
                    if (query(s, kind, id, nullptr))
                        ctx.fail("never-accepted", strf("never-accepted:%d", kind), strf("the never issued value 0x%x is accepted as a %s", (unsigned)id, KNAME[kind]));
                    if (release_call(kind, id))
                        ctx.fail("never-accepted", strf("never-accepted:release:%d", kind), strf("releasing the never issued value 0x%x as a %s reports success", (unsigned)id, KNAME[kind]));
                    ctx.probe("never-rejected");
                    const char *cn = "";
                    if (o.arg(2) > 0 && extra_accepts(kind, id, (int)o.arg(2) - 1, &cn) == 1)
                        ctx.fail("never-accepted", strf("never-accepted:%s", cn), strf("the never issued value 0x%x is accepted by %s", (unsigned)id, cn));
                    if (o.arg(2) > 0)
                        ctx.probe("never-extra-call");
                }
            }
            else if (k == "closebusy") {
                // the last file id of a path, with access elements attached: Hclose must fail and change nothing
                auto fids = live_of(s, H_FID);
                int  pick = -1;
                for (int q : fids) {
                    int aids = 0;
                    for (auto &y : s.h)
                        aids += y.live && y.kind == H_AID && y.owner == q;
                    // the last open of the path: no other file id and no SD id (SDstart holds its own open of the file)
                    if (aids > 0 && live_of(s, H_FID, s.h[(size_t)q].file).size() == 1 && live_of(s, H_SD, s.h[(size_t)q].file).empty())
                        pick = q;
                }
                if (pick < 0)
                    done = false;
                else {
                    Hd &x = s.h[(size_t)pick];
                    ctx.st.checks++;
                    if (Hclose(x.id) != FAIL)
                        ctx.fail("close-accepted", "close-accepted", "Hclose of a file with attached access elements reports success");
                    if (!query(s, H_FID, x.id, &x))
                        ctx.fail("close-broke-file", "close-broke-file:fid", "after a refused Hclose the file id is no longer usable");
                    for (auto &y : s.h)
                        if (y.live && y.owner == pick && !query(s, y.kind, y.id, &y))
                            ctx.fail("close-broke-file", strf("close-broke-file:%d", y.kind), strf("after a refused Hclose an attached %s is no longer usable", KNAME[y.kind]));
                    uint8 buf[8];
                    for (auto &y : s.h)
                        if (y.live && y.kind == H_AID && y.owner == pick) {
                            if (Hseek(y.id, 0, DF_START) == FAIL || Hread(y.id, 8, buf) != 8)
                                ctx.fail("close-broke-file", "close-broke-file:read", "after a refused Hclose an attached access element cannot be read");
                        }
                    ctx.probe("close-refused-with-aids");
                }
            }
            else if (k == "foreign") {
                // a vgroup of one file inserted into a vgroup of the other file
                auto vgs = live_of(s, H_VG);
                int  a = -1, b = -1;
                for (int q : vgs)
                    for (int w2 : vgs)
                        if (s.h[(size_t)q].file != s.h[(size_t)w2].file) {
                            a = q;
                            b = w2;
                        }
                if (a < 0)
                    done = false;
                else {
                    // needs a write attachment in file a
                    Hd   &ga = s.h[(size_t)a];
                    int   fi = ga.owner;
                    if (fi < 0 || s.h[(size_t)fi].mode != 2)
                        done = false;
                    else {
                        int32 vg = Vattach(s.h[(size_t)fi].id, -1, "w");
                        if (vg == FAIL)
                            ctx.fail("acquire-failed", "acquire-failed:vg-new", "Vattach(-1,w) failed");
                        Vsetname(vg, "foreign_target");
                        ctx.st.checks++;
                        if (!shadow && Vinsert(vg, s.h[(size_t)b].id) != FAIL)
                            ctx.fail("foreign-accepted", "foreign-accepted:vinsert", "Vinsert accepts a vgroup id that belongs to another file");
                        Vdetach(vg);
                        ctx.probe("foreign-rejected");
                    }
                }
            }
            else if (k == "hashchain") {
                // Three ids of one kind that are valid at the same time and lie a multiple of the id table's size apart (64
                // for file ids, 256 for access ids: they share a chain of the table), released in a given order: releasing one
                // must not disturb the two others.
                int f = modn(o.arg(1), 2), kind = o.arg(0) == 2 ? 2 : modn(o.arg(0), 2);
                if (!s.on_disk[f] || !s.populated[f])
                    done = false;
                else if (kind == 2) {
                    // Two files whose ids share a chain of the id table, the older one opened again while both are open: the
                    // library has to find the record of the open file (a second, independent record would let a creating
                    // open truncate the file under the first id).
                    if (!s.on_disk[1 - f] || !s.populated[1 - f])
                        done = false;
                    else {
                        int32 a = Hopen(path(f).c_str(), DFACC_READ, 0);
                        if (a == FAIL)
                            ctx.fail("open-failed", "open-failed:hashchain", "Hopen(READ) failed");
                        for (int c2 = 0; c2 < 63; c2++) {
                            int32 t = Hopen(path(1 - f).c_str(), DFACC_READ, 0);
                            if (t == FAIL || Hclose(t) == FAIL)
                                ctx.fail("acquire-failed", "acquire-failed:hashchain-churn", "an id could not be issued and released");
                        }
                        int32 b = Hopen(path(1 - f).c_str(), DFACC_READ, 0);
                        if (b == FAIL)
                            ctx.fail("open-failed", "open-failed:hashchain", "Hopen(READ) of the second file failed");
                        int32 again = Hopen(path(f).c_str(), DFACC_CREATE, 0);
                        ctx.st.checks++;
                        if (again != FAIL)
                            ctx.fail("accepted", "accepted:create-over-open-file",
                                     "Hopen(DFACC_CREATE) on a file that is open through another id (64 ids earlier) succeeded: the file is truncated under that id");
                        int32 a2 = Hopen(path(f).c_str(), DFACC_READ, 0);
                        uint8 got[64];
                        memset(got, 0, sizeof got);
                        if (a2 == FAIL || Hgetelement(a2, 8800, 1, got) != elem_len(f, 1) || got[0] != elem_byte(f, 1) ||
                            Hgetelement(a, 8800, 1, got) != elem_len(f, 1) || got[0] != elem_byte(f, 1) ||
                            Hgetelement(b, 8800, 1, got) != elem_len(1 - f, 1) || got[0] != elem_byte(1 - f, 1))
                            ctx.fail("alias", "alias:file-ids-sharing-a-chain", "with two files open whose ids share a chain of the id table, an id does not read its own file's element");
                        if ((a2 != FAIL && Hclose(a2) == FAIL) || Hclose(b) == FAIL || Hclose(a) == FAIL)
                            ctx.fail("release-failed", "release-failed:hashchain", strf("closing the ids failed: %s", herr().c_str()));
                        ctx.probe("two-files-sharing-a-chain");
                    }
                }
                else {
                    int32 base = Hopen(path(f).c_str(), DFACC_READ, 0);
                    if (base == FAIL)
                        ctx.fail("open-failed", "open-failed:hashchain", "Hopen(READ) failed");
                    int   gap = kind == 0 ? 64 : 256;
                    int32 id[3];
                    auto  get = [&]() { return kind == 0 ? Hopen(path(f).c_str(), DFACC_READ, 0) : Hstartread(base, 8800, 1); };
                    auto  put = [&](int32 x) { return kind == 0 ? Hclose(x) : Hendaccess(x); };
                    auto  ok  = [&](int32 x) {
                        char *fn = NULL;
                        intn  a = 0, b = 0;
                        return kind == 0 ? Hfidinquire(x, &fn, &a, &b) != FAIL : Htell(x) != FAIL;
                    };
                    for (int q = 0; q < 3; q++) {
                        id[q] = get();
                        if (id[q] == FAIL)
                            ctx.fail("acquire-failed", "acquire-failed:hashchain", "an id could not be issued");
                        for (int c2 = 0; q < 2 && c2 < gap - 1; c2++) { // ids in between are issued and released
                            int32 t = get();
                            if (t == FAIL || put(t) == FAIL)
                                ctx.fail("acquire-failed", "acquire-failed:hashchain-churn", "an id could not be issued and released");
                        }
                    }
                    static const int order[6][3] = {{0, 1, 2}, {0, 2, 1}, {1, 0, 2}, {1, 2, 0}, {2, 0, 1}, {2, 1, 0}};
                    const int       *od = order[modn(o.arg(2), 6)];
                    bool             gone[3] = {false, false, false};
                    for (int q = 0; q < 3; q++) {
                        if (put(id[od[q]]) == FAIL)
                            ctx.fail("release-failed", "release-failed:hashchain", strf("releasing id %d of three (%s ids %d apart) failed: %s", od[q], kind == 0 ? "file" : "access", gap, herr().c_str()));
                        gone[od[q]] = true;
                        for (int w = 0; w < 3; w++)
                            if (!gone[w] && !ok(id[w]))
                                ctx.fail("live-rejected", strf("live-rejected:hashchain:%d", kind),
                                         strf("after id %d of three %s ids (%d apart) was released, id %d, which was not, is rejected", od[q], kind == 0 ? "file" : "access", gap, w));
                    }
                    if (Hclose(base) == FAIL)
                        ctx.fail("release-failed", "release-failed:hashchain-base", strf("Hclose failed: %s", herr().c_str()));
                    ctx.probe("ids-sharing-a-chain");
                }
            }
            else if (k == "vgtwice") {
                // One vgroup attached twice at the same time through one file id, for writing and then for reading: the second
                // attachment must not take anything from the first (its access mode, its unsaved changes, its count).
                auto fids = live_of(s, H_FID);
                int  fi   = fids.empty() ? -1 : fids[(size_t)modn(o.arg(0), (int)fids.size())];
                // (each file id has its own tables of the V interface: with two ids open on the path, what one stores is not
                // what the other has in memory, so the scenario runs with one id on the path)
                if (fi < 0 || s.h[(size_t)fi].mode != 2 || !s.populated[s.h[(size_t)fi].file] || live_of(s, H_FID, s.h[(size_t)fi].file).size() != 1)
                    done = false;
                else {
                    Hd         &fd  = s.h[(size_t)fi];
                    std::string nm  = strf("hvg%d_%d", fd.file, modn(o.arg(1), 2));
                    int32       ref = Vfind(fd.id, nm.c_str());
                    int32       v1  = ref <= 0 ? FAIL : Vattach(fd.id, ref, "w");
                    if (v1 == FAIL)
                        ctx.fail("acquire-failed", "acquire-failed:attach", strf("attaching %s for writing failed", nm.c_str()));
                    int32 n0 = Vntagrefs(v1), len0 = Hlength(fd.id, DFTAG_VG, (uint16)ref);
                    if (Vaddtagref(v1, 8901, 1 + n0) == FAIL)
                        ctx.fail("acquire-failed", "acquire-failed:vgtwice", "Vaddtagref through a write attachment failed");
                    int32 v2 = Vattach(fd.id, ref, "r");
                    if (v2 == FAIL)
                        ctx.fail("acquire-failed", "acquire-failed:attach", strf("attaching %s a second time failed", nm.c_str()));
                    ctx.st.checks++;
                    if (Vntagrefs(v2) != n0 + 1 || Vntagrefs(v1) != n0 + 1)
                        ctx.fail("alias", "alias:vgroup-attached-twice", strf("%s attached twice: the attachments count %d and %d members, there are %d", nm.c_str(), (int)Vntagrefs(v1), (int)Vntagrefs(v2), (int)n0 + 1));
                    if (Vaddtagref(v1, 8901, 2 + n0) == FAIL)
                        ctx.fail("live-rejected", "live-rejected:write-attachment-after-read-attach",
                                 strf("%s: after the same vgroup was attached for reading, the write attachment obtained before refuses Vaddtagref", nm.c_str()));
                    if (Vdetach(v2) == FAIL || Vdetach(v1) == FAIL)
                        ctx.fail("release-failed", "release-failed:vgtwice", "Vdetach failed");
                    int32 v3 = Vattach(fd.id, ref, "r");
                    if (v3 == FAIL || Vntagrefs(v3) != n0 + 2)
                        ctx.fail("retained-state", "retained-state:vgroup-attached-twice",
                                 strf("%s has %d members after two were added through a write attachment that overlapped a read attachment (%d before)", nm.c_str(), v3 == FAIL ? -1 : (int)Vntagrefs(v3), (int)n0));
                    if (v3 != FAIL)
                        Vdetach(v3);
                    // and the stored record has grown by the two members (tag and reference, two bytes each)
                    int32 len1 = Hlength(fd.id, DFTAG_VG, (uint16)ref);
                    if (len0 == FAIL || len1 != len0 + 8)
                        ctx.fail("retained-state", "retained-state:vgroup-record-not-updated",
                                 strf("%s: the stored vgroup record has %d bytes after two members were added (%d before): the changes made through the write attachment were not stored", nm.c_str(), (int)len1, (int)len0));
                    ctx.probe("vgroup-attached-twice");
                }
            }
            else if (k == "manyfiles") {
                // More SD files open at once than fit in 8 bits: dataset and dimension ids of the files in the high slots
                // designate objects of THEIR file.
                int n = (int)std::max<int64_t>(2, std::min<int64_t>(300, o.arg(0)));
                simfs::set_nofile_limit(2048);
                std::vector<int32> sd((size_t)n, FAIL), ds((size_t)n, FAIL);
                for (int q = 0; q < n; q++) {
                    int32 dm[1] = {2 + q % 3};
                    sd[(size_t)q] = SDstart(strf("/sim/many%03d.hdf", q).c_str(), DFACC_CREATE);
                    ds[(size_t)q] = sd[(size_t)q] == FAIL ? FAIL : SDcreate(sd[(size_t)q], strf("ds_of_%03d", q).c_str(), DFNT_INT16, 1, dm);
                    if (ds[(size_t)q] == FAIL || SDsetdimname(SDgetdimid(ds[(size_t)q], 0), strf("dim_of_%03d", q).c_str()) == FAIL)
                        ctx.fail("acquire-failed", "acquire-failed:manyfiles", strf("SD file number %d of %d cannot be created: %s", q, n, herr().c_str()));
                }
                for (int q = 0; q < n; q++) {
                    char  nm[256] = "", dn[256] = "";
                    int32 rank = 0, dims[H4_MAX_VAR_DIMS], nt = 0, na = 0, size = 0, dnt = 0, dna = 0;
                    int32 dim = SDgetdimid(ds[(size_t)q], 0);
                    ctx.st.checks++;
                    if (SDgetinfo(ds[(size_t)q], nm, &rank, dims, &nt, &na) == FAIL || strf("ds_of_%03d", q) != nm)
                        ctx.fail("alias", "alias:sds-many-files", strf("the dataset id of file %d of %d open files answers for '%s'", q, n, nm));
                    if (dim == FAIL || SDdiminfo(dim, dn, &size, &dnt, &dna) == FAIL || strf("dim_of_%03d", q) != dn || size != 2 + q % 3)
                        ctx.fail("alias", "alias:dim-many-files", strf("the dimension id of file %d of %d open files answers for '%s' (size %d)", q, n, dn, (int)size));
                    for (int q2 = 0; q2 < q; q2++)
                        if (q2 % 64 == q % 64 && SDgetdimid(ds[(size_t)q2], 0) == dim)
                            ctx.fail("alias", "alias:dim-id-many-files", strf("files %d and %d (of %d open) give the same dimension id", q2, q, n));
                }
                for (int q = n - 1; q >= 0; q--) {
                    if (SDendaccess(ds[(size_t)q]) == FAIL || SDend(sd[(size_t)q]) == FAIL)
                        ctx.fail("release-failed", "release-failed:manyfiles", strf("closing SD file number %d of %d failed: %s", q, n, herr().c_str()));
                    simfs::disk().erase(strf("/sim/many%03d.hdf", q));
                }
                ctx.probe("more-than-256-sd-files");
            }
            else if (k == "badopen") {
                // Opens that must fail -- a file that is not there, a file that is no HDF file -- return the failure value and
                // leave nothing behind: no stream, no file record that a later open of the same name would pick up, and not
                // a byte changed in the file that was refused.  (The junk file is scaffolding: the shadow run creates it too.)
                const char *junk = "/sim/hd_junk.bin";
                if (!simfs::disk().count(junk)) {
                    FILE *jf = fopen(junk, "wb");
                    if (jf) {
                        static const char text[] = "this is not a hierarchical data file, just some text that is long enough to be read";
                        fwrite(text, 1, sizeof text, jf);
                        fclose(jf);
                    }
                }
                if (!shadow) {
                    int  which = modn(o.arg(0), 6), f = modn(o.arg(1), 2);
                    int  streams = simfs::open_streams();
                    bool refused = true;
                    const char *what = "";
                    switch (which) {
                        case 0:
                            what    = "Hopen(READ) of a file that does not exist";
                            refused = Hopen("/sim/hd_missing.hdf", DFACC_READ, 0) == FAIL;
                            break;
                        case 1:
                            what    = "SDstart(READ) of a file that does not exist";
                            refused = SDstart("/sim/hd_missing.hdf", DFACC_READ) == FAIL;
                            break;
                        case 2:
                            what    = "Hopen(READ) of a file that is no HDF file";
                            refused = Hopen(junk, DFACC_READ, 0) == FAIL;
                            break;
                        case 3:
                            what    = "Hopen(RDWR) of a file that is no HDF file";
                            refused = Hopen(junk, DFACC_RDWR, 0) == FAIL;
                            break;
                        case 4:
                            what    = "SDstart(RDWR) of a file that is no HDF file";
                            refused = SDstart(junk, DFACC_RDWR) == FAIL;
                            break;
                        default:
                            if (s.on_disk[f])
                                done = false;
                            else {
                                what    = "Hopen(READ) of a path of this run before the file is created";
                                refused = Hopen(path(f).c_str(), DFACC_READ, 0) == FAIL;
                            }
                            break;
                    }
                    if (done) {
                        ctx.st.checks++;
                        if (!refused)
                            ctx.fail("badopen-accepted", strf("badopen-accepted:%d", which), strf("%s returned an id", what));
                        if (simfs::open_streams() != streams)
                            ctx.fail("retained-state", strf("retained-state:stream-after-badopen:%d", which),
                                     strf("%s failed, but %d stdio streams are open where %d were before", what, simfs::open_streams(), streams));
                        ctx.probe("badopen-refused");
                    }
                }
            }
            else if (k == "teardown") {
                check_all(s);
                // release everything, dependents first, in a plan-chosen rotation
                for (int pass = 0; pass < 4; pass++)
                    for (size_t q = 0; q < s.h.size(); q++) {
                        size_t idx = (q + (size_t)o.arg(0)) % s.h.size();
                        if (s.h[idx].live && dependents(s, (int)idx) == 0)
                            release(s, (int)idx, false);
                    }
                for (auto &x : s.h)
                    if (x.live)
                        release(s, (int)(&x - &s.h[0]), true);
                if (simfs::open_streams() != 0)
                    ctx.fail("retained-state", "retained-state:stream", strf("%d stdio streams are still open after every handle was released", simfs::open_streams()));
                // nothing is left that affects later opens: each file opens, lists and closes
                for (int f = 0; f < 2; f++)
                    if (s.on_disk[f]) {
                        int32 fid = Hopen(path(f).c_str(), DFACC_READ, 0);
                        if (fid == FAIL)
                            ctx.fail("retained-state", "retained-state:open", strf("%s cannot be opened after full teardown", path(f).c_str()));
                        intn  att = 0, acc = 0;
                        char *fn = NULL;
                        Hfidinquire(fid, &fn, &acc, &att);
                        if (att != 0)
                            ctx.fail("retained-state", "retained-state:attach", strf("a fresh open of %s reports %d attached access elements", path(f).c_str(), (int)att));
                        if (Hclose(fid) == FAIL)
                            ctx.fail("retained-state", "retained-state:close", "closing a fresh open after teardown failed");
                    }
                // every id issued in this run is stale now
                for (auto &x : s.h)
                    if (x.kind != H_SD && x.kind != H_SDS && query(s, x.kind, x.id, nullptr))
                        ctx.fail("stale-accepted", strf("stale-accepted:teardown:%d", x.kind), strf("after teardown a %s (0x%x) is still accepted", KNAME[x.kind], (unsigned)x.id));
                ctx.probe("teardown");
            }
            else
                done = false;
            if (done) {
                ctx.st.ops_done++;
                uint64_t hsh = 1469598103934665603ULL;
                int      cnt[NKIND] = {0};
                for (auto &x : s.h)
                    if (x.live)
                        cnt[x.kind]++;
                for (int q = 0; q < NKIND; q++)
                    hsh = fnv64i((uint64_t)cnt[q], hsh);
                ctx.state(hsh);
            }
            else
                ctx.st.ops_skipped++;
        }
    }
    bool nontrivial(const Outcome &o) const override { return o.st.ops_done >= 5 && o.st.checks >= 1; }
};

Registrar reg(new Handles);

} // namespace
} // namespace h4
