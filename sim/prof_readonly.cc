// prof_readonly.cc -- C14: read-only access never alters a file; write requests through it are refused.
// Phase A builds a file with the mixed workload and closes it.  Phase B freezes every simulated file, opens
// read-only and runs a random program over read, inquiry AND mutation calls.  Phase C opens read-write, changes
// nothing and closes.
#include "mixed.h"
#include <map>

namespace h4 {
namespace {

// mutation calls tried on read-only handles; each must return its failure value
const char *MUTS[] = {"Hputelement-new", "Hputelement-existing", "Hstartwrite", "Hstartaccess-write", "HLcreate", "HXcreate", "Hdeldd",
                      "Hdupdd", "HDreuse_tagref", "Hwrite-on-read-aid", "Htrunc-on-read-aid", "Vattach-new", "Vattach-w", "VSattach-new",
                      "VSattach-w", "VSwrite-on-r", "Vaddtagref-on-r", "Vsetname-on-r", "VSsetattr-on-r", "Vsetattr-on-r", "Vdelete", "VSdelete",
                      "VHstoredata", "SDcreate", "SDwritedata", "SDsetattr-file", "SDsetattr-sds", "SDsetdatastrs", "SDsetdimname",
                      "SDsetdimscale", "SDsetfillvalue", "SDsetcompress", "SDsetchunk", "SDsetexternalfile", "SDsetrange", "SDsetcal",
                      "GRcreate", "GRwriteimage", "GRsetattr-file", "GRsetattr-image", "GRwritelut", "GRsetcompress", "ANcreatef", "ANcreate",
                      "ANwriteann", "Vsetclass-on-r", "VSsetname-on-r", "Hsync", "Hcache", "Vattach-w-while-r", "VSattach-w-while-r",
                      // appended later (indices of stored plans stay valid)
                      "VSsetclass-on-r", "VSfdefine-on-r", "VSsetinterlace-on-r", "VSsetexternalfile-on-r", "Vdeletetagref-on-r",
                      "Vinsert-on-r", "SDsetdimstrs", "SDsetnbitdataset", "SDsetdimval_comp", "GRsetexternalfile", "GRsetchunk",
                      "SDwritechunk", "GRwritechunk", "Hsetlength-on-read-aid", "Happendable-on-read-aid",
                      "SDstart-not-hdf", "Hopen-not-hdf", "SDstart-rdwr-not-hdf", "GRwriteimage-legacy-rle", "SDreaddata-behind-the-data"};
const int   NMUT   = sizeof MUTS / sizeof MUTS[0];

// Mutators kept out of the search unless knob unguard_ro_api=1 is set.  Empty: the sixteen mutators that read-only
// handles used to accept (in memory only) were repaired in the library; their replays are under findings/fixed.
const char *GUARDED[] = {nullptr};

struct ReadOnly : Profile {
    const char *name() const override { return "readonly"; }
    const char *property() const override { return "C14"; }
    int         runs(bool thorough) const override { return thorough ? 150000 : 6000; }
    std::string rule() const override
    {
        return "each case = phase A (3..10 mixed H/V/VS/SD/GR/AN write ops incl. linked-block, external, chunked and "
               "compressed objects) + phase B (10..40 read, inquiry and mutation calls on read-only handles, all files "
               "frozen in the simulated disk) + phase C (read-write open and close without edits); non-trivial = phase B ran "
               ">= 3 ops and >= 1 mutator was refused";
    }
    std::vector<std::string> assumptions() const override
    {
        return {"'would have to write data or create a stored object' is read as: every call of the mutator table in prof_readonly.cc",
                "calls that only change handle-local state (Hsync/Hcache on a read-only file) may succeed; they are checked by the disk monitor only"};
    }
    std::vector<std::string> required_probes() const override
    {
        std::vector<std::string> v = {"mutator-refused", "phase-c", "external-present", "read-in-phase-b"};
        for (int i = 0; i < NMUT; i++)
            if (strcmp(MUTS[i], "Hsync") && strcmp(MUTS[i], "Hcache") && strcmp(MUTS[i], "Happendable-on-read-aid")) // these may succeed: nothing is written
                v.push_back(std::string("refused:") + MUTS[i]);
        return v;
    }

    Plan generate(Rng &rng, bool thorough, uint64_t) override
    {
        Plan p;
        p.seed          = rng.next();
        Rng kr          = rng.sub(1);
        p.knobs["ndds"] = kr.chance(0.5) ? kr.range(2, 8) : 16;
        p.knobs["oldversion"] = kr.chance(0.35) ? 1 : 0;
        p.knobs["legacy_r8"] = kr.chance(0.3) ? 1 : 0; // a run-length encoded DFR8 image is added to the file before it is frozen
        p.knobs["with_writer"] = kr.chance(0.15) ? 1 : 0; // another client holds the file open for writing during phase B (SD calls only)
        p.knobs["reader_in_c"] = kr.chance(0.35) ? 1 + (int64_t)kr.below(3) : 0; // a reader is half way through an element while phase C opens the file for writing
        Rng r = rng.sub(2);
        int na = (int)r.range(3, 10), nb = (int)r.range(10, thorough ? 60 : 40);
        for (int i = 0; i < na; i++) {
            if (r.chance(0.15))
                p.ops.push_back(mkop(0, "hext", {(int64_t)r.below(3), (int64_t)r.below(8), 1 + r.sizeish(60), (int64_t)(r.next() >> 16)}));
            else
                p.ops.push_back(MixedGen::write_op(r, (int)r.below(5), false, 60));
        }
        if (r.chance(0.2))
            p.ops.push_back(mkop(0, "hempty", {})); // a descriptor without data: a writer started an element and never wrote it
        if (r.chance(0.12))
            p.ops.push_back(mkop(0, "hnoversion", {})); // the application removed the library-version element: the file has none
        p.ops.push_back(mkop(0, "end", {}));
        p.ops.push_back(mkop(0, "freeze", {}));
        std::vector<Op> reads;
        MixedGen::read_all(reads);
        reads.pop_back(); // the trailing end
        for (int i = 0; i < nb; i++) {
            if (r.chance(0.45))
                p.ops.push_back(reads[(size_t)r.below(reads.size())]);
            else
                p.ops.push_back(mkop(0, "mut", {(int64_t)r.below(NMUT), (int64_t)r.below(6), (int64_t)r.below(8), (int64_t)(r.next() >> 16)}));
        }
        p.ops.push_back(mkop(0, "end", {}));
        p.ops.push_back(mkop(0, "phasec", {}));
        return p;
    }
    bool removable(const Plan &p, size_t i) const override
    {
        const std::string &k = p.ops[i].kind;
        return k != "freeze" && k != "phasec" && k != "end";
    }

    // one mutator on read-only handles.  Returns: 1 refused (FAIL), 0 accepted, -1 not applicable here
    bool legacy_r8 = false; // the file holds a run-length encoded image of the DFR8 interface (its last image)
    int mutate(Mixed &mx, int api, int64_t a1, int64_t a2, uint64_t ds)
    {
        uint8  data[16];
        fill_data(ds, data, sizeof data);
        uint16 tag = Mixed::htag(a1), ref = Mixed::href(a2);
        const std::string n = MUTS[api];
        auto   need_h = [&]() { return mx.need_h(); };
        if (n == "SDstart-not-hdf" || n == "SDstart-rdwr-not-hdf" || n == "Hopen-not-hdf") {
            // (the open fails for every access mode; what matters is that the refused file is still there, unchanged: the
            // frozen-disk monitor and the byte compare see to that)
            int32 id = n == "Hopen-not-hdf" ? Hopen("/sim/ro_junk.bin", DFACC_READ, 0) : SDstart("/sim/ro_junk.bin", n == "SDstart-not-hdf" ? DFACC_READ : DFACC_RDWR);
            return id == FAIL;
        }
        if (n.compare(0, 2, "SD") == 0) {
            if (!mx.need_sd())
                return -1;
            int32 ix = SDnametoindex(mx.sdid, strf("sd%d", modn(a1, 5)).c_str());
            if (n == "SDcreate") {
                int32 dm[1] = {3};
                int32 id    = SDcreate(mx.sdid, "ro_new", DFNT_INT32, 1, dm);
                if (id != FAIL)
                    SDendaccess(id);
                return id == FAIL;
            }
            if (n == "SDsetattr-file")
                return SDsetattr(mx.sdid, "ro_attr", DFNT_UINT8, 4, data) == FAIL;
            if (ix < 0)
                return -1;
            int32 id = SDselect(mx.sdid, ix);
            if (id == FAIL)
                return -1;
            int   res = -1;
            char  nm[256];
            int32 rank = 0, dims[H4_MAX_VAR_DIMS], nt = 0, na = 0, start[H4_MAX_VAR_DIMS] = {0}, edge[H4_MAX_VAR_DIMS];
            SDgetinfo(id, nm, &rank, dims, &nt, &na);
            for (int j = 0; j < rank; j++)
                edge[j] = 1;
            if (n == "SDwritedata")
                res = (rank < 1 || dims[0] == 0) ? -1 : SDwritedata(id, start, NULL, edge, data) == FAIL;
            else if (n == "SDreaddata-behind-the-data") {
                // not a write at all: a read that begins inside the data and ends behind it is refused -- and leaves nothing
                // behind that the closing of this read-only id would store (the freeze monitor watches the close)
                uint8_t rb[64];
                edge[0]  = 2;
                start[0] = dims[0] - 1;
                res      = (rank < 1 || dims[0] < 1) ? -1 : SDreaddata(id, start, NULL, edge, rb) == FAIL;
            }
            else if (n == "SDsetattr-sds")
                res = SDsetattr(id, "ro_attr", DFNT_UINT8, 4, data) == FAIL;
            else if (n == "SDsetdatastrs")
                res = SDsetdatastrs(id, "l", "u", NULL, NULL) == FAIL;
            else if (n == "SDsetdimname")
                res = rank < 1 ? -1 : SDsetdimname(SDgetdimid(id, 0), "ro_dim") == FAIL;
            else if (n == "SDsetdimscale") {
                std::vector<uint8_t> sc((size_t)(rank < 1 ? 1 : dims[0] ? dims[0] : 1) * 4, 1);
                res = (rank < 1 || dims[0] == 0) ? -1 : SDsetdimscale(SDgetdimid(id, 0), dims[0], DFNT_INT32, sc.data()) == FAIL;
            }
            else if (n == "SDsetfillvalue")
                res = SDsetfillvalue(id, data) == FAIL;
            else if (n == "SDsetdimstrs")
                res = rank < 1 ? -1 : SDsetdimstrs(SDgetdimid(id, 0), "l", "u", NULL) == FAIL;
            else if (n == "SDsetdimval_comp")
{
                // asking for the mode the dimension already has changes nothing and may succeed: the other mode is asked for
                int32 dimid = rank < 1 ? FAIL : SDgetdimid(id, 0);
                intn  cur   = dimid == FAIL ? FAIL : SDisdimval_bwcomp(dimid);
                res = cur == FAIL ? -1 : SDsetdimval_comp(dimid, cur == SD_DIMVAL_BW_COMP ? SD_DIMVAL_BW_INCOMP : SD_DIMVAL_BW_COMP) == FAIL;
            }
            else if (n == "SDsetnbitdataset")
                res = SDsetnbitdataset(id, 0, 3, 0, 0) == FAIL;
            else if (n == "SDsetrange")
                res = SDsetrange(id, data, data + 8) == FAIL;
            else if (n == "SDsetcal")
                res = SDsetcal(id, 1.0, 0.0, 0.0, 0.0, DFNT_INT16) == FAIL;
            else if (n == "SDsetcompress") {
                comp_info ci;
                memset(&ci, 0, sizeof ci);
                ci.deflate.level = 1;
                res              = SDsetcompress(id, COMP_CODE_DEFLATE, &ci) == FAIL;
            }
            else if (n == "SDwritechunk") {
                HDF_CHUNK_DEF cd;
                int32         fl = 0, org[H4_MAX_VAR_DIMS] = {0};
                memset(&cd, 0, sizeof cd);
                if (SDgetchunkinfo(id, &cd, &fl) == FAIL || fl == HDF_NONE)
                    res = -1; // not a chunked dataset
                else {
                    std::vector<uint8_t> cb(65536, 3);
                    res = SDwritechunk(id, org, cb.data()) == FAIL;
                }
            }
            else if (n == "SDsetchunk") {
                HDF_CHUNK_DEF cd;
                memset(&cd, 0, sizeof cd);
                for (int j = 0; j < rank; j++)
                    cd.chunk_lengths[j] = 1;
                res = rank < 1 ? -1 : SDsetchunk(id, cd, HDF_CHUNK) == FAIL;
            }
            else if (n == "SDsetexternalfile") {
                // on a dataset that is external already the call is documented to have no effect and to succeed: not a mutation
                if (SDgetexternalinfo(id, 0, NULL, NULL, NULL) > 0) {
                    SDendaccess(id);
                    return -1;
                }
                res = SDsetexternalfile(id, "/sim/ro_ext.dat", 0) == FAIL;
            }
            SDendaccess(id);
            return res;
        }
        if (n.compare(0, 2, "GR") == 0) {
            if (!mx.need_gr())
                return -1;
            if (n == "GRcreate") {
                int32 dm[2] = {2, 2};
                int32 ri    = GRcreate(mx.grid, "ro_img", 1, DFNT_UINT8, MFGR_INTERLACE_PIXEL, dm);
                if (ri != FAIL)
                    GRendaccess(ri);
                return ri == FAIL;
            }
            if (n == "GRsetattr-file")
                return GRsetattr(mx.grid, "ro_attr", DFNT_UINT8, 4, data) == FAIL;
            if (n == "GRwriteimage-legacy-rle") {
                // the image DFR8addimage stored run-length encoded (the last one of the file, it has no name)
                int32 nimg = 0, nat = 0;
                if (!legacy_r8 || GRfileinfo(mx.grid, &nimg, &nat) == FAIL || nimg < 1)
                    return -1;
                int32 ri = GRselect(mx.grid, nimg - 1);
                if (ri == FAIL)
                    return -1;
                int32                start[2] = {0, 0}, cnt[2] = {6, 5};
                std::vector<uint8_t> px(30, (uint8_t)(7 + a2 % 5));
                int                  res = GRwriteimage(ri, start, NULL, cnt, px.data()) == FAIL;
                GRendaccess(ri);
                return res;
            }
            int32 ix = GRnametoindex(mx.grid, strf("gr%d", modn(a1, 4)).c_str());
            if (ix < 0)
                return -1;
            int32 ri = GRselect(mx.grid, ix);
            if (ri == FAIL)
                return -1;
            int   res = -1;
            int32 start[2] = {0, 0}, cnt[2] = {1, 1};
            if (n == "GRwriteimage")
                res = GRwriteimage(ri, start, NULL, cnt, data) == FAIL;
            else if (n == "GRsetattr-image")
                res = GRsetattr(ri, "ro_attr", DFNT_UINT8, 4, data) == FAIL;
            else if (n == "GRwritelut") {
                std::vector<uint8_t> lut(768, 7);
                int32                l = GRgetlutid(ri, 0);
                res                    = l == FAIL ? -1 : GRwritelut(l, 3, DFNT_UINT8, MFGR_INTERLACE_PIXEL, 256, lut.data()) == FAIL;
            }
            else if (n == "GRwritechunk") {
                HDF_CHUNK_DEF cd;
                int32         fl = 0, org[2] = {0, 0};
                memset(&cd, 0, sizeof cd);
                if (GRgetchunkinfo(ri, &cd, &fl) == FAIL || fl == HDF_NONE)
                    res = -1;
                else {
                    std::vector<uint8_t> cb(65536, 3);
                    res = GRwritechunk(ri, org, cb.data()) == FAIL;
                }
            }
            else if (n == "GRsetexternalfile")
                res = GRsetexternalfile(ri, "/sim/ro_grext.dat", 0) == FAIL;
            else if (n == "GRsetchunk") {
                HDF_CHUNK_DEF cd;
                memset(&cd, 0, sizeof cd);
                cd.chunk_lengths[0] = cd.chunk_lengths[1] = 1;
                res = GRsetchunk(ri, cd, HDF_CHUNK) == FAIL;
            }
            else if (n == "GRsetcompress") {
                comp_info ci;
                memset(&ci, 0, sizeof ci);
                res = GRsetcompress(ri, COMP_CODE_RLE, &ci) == FAIL;
            }
            GRendaccess(ri);
            return res;
        }
        if (n.compare(0, 2, "AN") == 0) {
            if (!mx.need_an())
                return -1;
            if (n == "ANcreatef") {
                int32 id = ANcreatef(mx.anid, AN_FILE_LABEL);
                if (id == FAIL)
                    return 1;
                intn w = ANwriteann(id, "ro label", 8);
                ANendaccess(id);
                return w == FAIL; // the stored object would be created by the write
            }
            if (n == "ANcreate") {
                int32 id = ANcreate(mx.anid, tag, ref, AN_DATA_DESC);
                if (id == FAIL)
                    return 1;
                intn w = ANwriteann(id, "ro desc", 7);
                ANendaccess(id);
                return w == FAIL;
            }
            int32 nfl = 0, nfd = 0, ndl = 0, ndd = 0;
            ANfileinfo(mx.anid, &nfl, &nfd, &ndl, &ndd);
            if (nfl < 1)
                return -1;
            int32 id = ANselect(mx.anid, 0, AN_FILE_LABEL);
            if (id == FAIL)
                return -1;
            intn w = ANwriteann(id, "overwritten", 11);
            ANendaccess(id);
            return w == FAIL;
        }
        if (!need_h())
            return -1;
        int32 fid = mx.fid;
        if (n == "Hputelement-new")
            return Hputelement(fid, 8990, 1, data, 8) == FAIL;
        if (n == "Hstartwrite") {
            int32 aid = Hstartwrite(fid, 8991, 1, 8);
            if (aid != FAIL)
                Hendaccess(aid);
            return aid == FAIL;
        }
        if (n == "HLcreate") {
            int32 aid = HLcreate(fid, 8992, 1, 8, 2);
            if (aid != FAIL)
                Hendaccess(aid);
            return aid == FAIL;
        }
        if (n == "HXcreate") {
            int32 aid = HXcreate(fid, 8993, 1, "/sim/ro_ext2.dat", 0, 8);
            if (aid != FAIL)
                Hendaccess(aid);
            return aid == FAIL;
        }
        if (n == "Hsync")
            return Hsync(fid) == FAIL ? 1 : -1; // allowed to succeed: nothing to flush
        if (n == "Hcache")
            return Hcache(fid, (intn)(a1 & 1)) == FAIL ? 1 : -1;
        if (n == "Vattach-new") {
            int32 vg = Vattach(fid, -1, "w");
            if (vg != FAIL)
                Vdetach(vg);
            return vg == FAIL;
        }
        if (n == "VSattach-new") {
            int32 vs = VSattach(fid, -1, "w");
            if (vs != FAIL)
                VSdetach(vs);
            return vs == FAIL;
        }
        if (n == "VHstoredata")
            return VHstoredata(fid, "x", data, 2, DFNT_INT32, "ro_vs", "c") == FAIL;
        // the rest needs an existing object
        bool have_elem = Hexist(fid, tag, ref) != FAIL;
        if (!have_elem) {
            // the drawn name is not in the file: take one of the workload's elements (plain, linked, alias, external)
            std::vector<std::pair<uint16, uint16>> all;
            uint16 ft = 0, fr = 0;
            int32  fo = 0, fl = 0;
            while (Hfind(fid, DFTAG_WILDCARD, DFREF_WILDCARD, &ft, &fr, &fo, &fl, DF_FORWARD) != FAIL)
                if (ft >= 8200 && ft < 8600)
                    all.push_back({ft, fr});
            if (!all.empty()) {
                tag = all[(size_t)modn(a2, (int64_t)all.size())].first;
                ref = all[(size_t)modn(a2, (int64_t)all.size())].second;
                have_elem = true;
            }
        }
        if (n == "Hputelement-existing")
            return have_elem ? Hputelement(fid, tag, ref, data, 1) == FAIL : -1;
        if (n == "Hstartaccess-write") {
            if (!have_elem)
                return -1;
            int32 aid = Hstartaccess(fid, tag, ref, DFACC_RDWR);
            if (aid != FAIL)
                Hendaccess(aid);
            return aid == FAIL;
        }
        if (n == "Hdeldd")
            return have_elem ? Hdeldd(fid, tag, ref) == FAIL : -1;
        if (n == "Hdupdd")
            return have_elem ? Hdupdd(fid, 8994, 1, tag, ref) == FAIL : -1;
        if (n == "HDreuse_tagref")
            return have_elem ? HDreuse_tagref(fid, tag, ref) == FAIL : -1;
        if (n == "Hsetlength-on-read-aid" && Hexist(fid, 8997, 1) != FAIL) {
            // the descriptor without data: for a reader it is "new" as well, but a reader gives it no room in the file
            int32 aid = Hstartread(fid, 8997, 1);
            if (aid == FAIL)
                return -1;
            int res = Hsetlength(aid, 16) == FAIL;
            Hendaccess(aid);
            return res;
        }
        if (n == "Hwrite-on-read-aid" || n == "Htrunc-on-read-aid" || n == "Hsetlength-on-read-aid" || n == "Happendable-on-read-aid") {
            if (!have_elem)
                return -1;
            int32 aid = Hstartread(fid, tag, ref);
            if (aid == FAIL)
                return -1;
            int res = n == "Hwrite-on-read-aid"       ? Hwrite(aid, 1, data) == FAIL
                      : n == "Htrunc-on-read-aid"     ? Htrunc(aid, 0) == FAIL
                      : n == "Hsetlength-on-read-aid" ? Hsetlength(aid, 64) == FAIL
                                                      : (Happendable(aid) == FAIL ? 1 : -1); // a flag in memory only: may succeed, must not write
            Hendaccess(aid);
            return res;
        }
        int32 vsref = VSfind(fid, strf("vd%d", modn(a1, 6)).c_str()), vgref = Vfind(fid, strf("vg%d", modn(a1, 6)).c_str());
        if (n == "VSattach-w" || n == "VSwrite-on-r" || n == "VSsetattr-on-r" || n == "VSdelete" || n == "VSsetname-on-r" || n == "VSsetclass-on-r" ||
            n == "VSfdefine-on-r" || n == "VSsetinterlace-on-r" || n == "VSsetexternalfile-on-r") {
            if (vsref <= 0)
                return -1;
            if (n == "VSdelete")
                return VSdelete(fid, vsref) == FAIL;
            int32 vs = VSattach(fid, vsref, n == "VSattach-w" ? "w" : "r");
            if (n == "VSattach-w") {
                if (vs != FAIL)
                    VSdetach(vs);
                return vs == FAIL;
            }
            if (vs == FAIL)
                return -1;
            int res;
            if (n == "VSwrite-on-r") {
                char  flds[512] = "";
                int32 nr = 0, il = 0, sz = 0;
                char  vn[128];
                VSinquire(vs, &nr, &il, flds, &sz, vn);
                VSsetfields(vs, flds);
                std::vector<uint8_t> rec((size_t)std::max<int32>(sz, 1), 1);
                res = VSwrite(vs, rec.data(), 1, FULL_INTERLACE) == FAIL;
            }
            else if (n == "VSsetattr-on-r")
                res = VSsetattr(vs, _HDF_VDATA, "ro_attr", DFNT_UINT8, 4, data) == FAIL;
            else if (n == "VSsetclass-on-r")
                res = VSsetclass(vs, "ro_class") == FAIL;
            else if (n == "VSfdefine-on-r")
                res = VSfdefine(vs, "ro_field", DFNT_INT32, 1) == FAIL;
            else if (n == "VSsetinterlace-on-r")
                res = VSsetinterlace(vs, NO_INTERLACE) == FAIL;
            else if (n == "VSsetexternalfile-on-r")
                res = VSsetexternalfile(vs, "/sim/ro_vsext.dat", 0) == FAIL;
            else
                res = VSsetname(vs, "ro_renamed") == FAIL;
            VSdetach(vs);
            return res;
        }
        if (n == "VSattach-w-while-r") {
            if (vsref <= 0)
                return -1;
            int32 r1 = VSattach(fid, vsref, "r");
            if (r1 == FAIL)
                return -1;
            int32 w1 = VSattach(fid, vsref, "w");
            int   res = w1 == FAIL;
            if (w1 != FAIL)
                VSdetach(w1);
            else {
                // the refused attachment must not have made the read attachment writable, or spoilt its release
                if (VSsetname(r1, "ro_renamed2") != FAIL || VSsetclass(r1, "ro_class2") != FAIL)
                    res = 0;
                if (VSdetach(r1) == FAIL)
                    res = 0;
                return res;
            }
            VSdetach(r1);
            return res;
        }
        if (vgref <= 0)
            return -1;
        if (n == "Vattach-w-while-r") {
            int32 r1 = Vattach(fid, vgref, "r");
            if (r1 == FAIL)
                return -1;
            int32 w1 = Vattach(fid, vgref, "w");
            int   res = w1 == FAIL;
            if (w1 != FAIL)
                Vdetach(w1);
            else {
                if (Vsetname(r1, "ro_renamed2") != FAIL || Vaddtagref(r1, 8996, 1) != FAIL)
                    res = 0;
                if (Vdetach(r1) == FAIL)
                    res = 0;
                return res;
            }
            Vdetach(r1);
            return res;
        }
        if (n == "Vdelete")
            return Vdelete(fid, vgref) == FAIL;
        int32 vg = Vattach(fid, vgref, n == "Vattach-w" ? "w" : "r");
        if (n == "Vattach-w") {
            if (vg != FAIL)
                Vdetach(vg);
            return vg == FAIL;
        }
        if (vg == FAIL)
            return -1;
        int res = -1;
        if (n == "Vaddtagref-on-r")
            res = Vaddtagref(vg, 8995, 1) == FAIL;
        else if (n == "Vsetname-on-r")
            res = Vsetname(vg, "ro_renamed") == FAIL;
        else if (n == "Vsetclass-on-r")
            res = Vsetclass(vg, "ro_class") == FAIL;
        else if (n == "Vsetattr-on-r")
            res = Vsetattr(vg, "ro_attr", DFNT_UINT8, 4, data) == FAIL;
        else if (n == "Vdeletetagref-on-r") {
            int32 mt = 0, mr = 0;
            res = Vgettagref(vg, 0, &mt, &mr) == FAIL ? -1 : Vdeletetagref(vg, mt, mr) == FAIL;
        }
        else if (n == "Vinsert-on-r") {
            int32 other = Vfind(fid, strf("vg%d", modn(a2, 6)).c_str());
            int32 og    = other > 0 && other != vgref ? Vattach(fid, other, "r") : FAIL;
            if (og != FAIL) {
                res = Vinsert(vg, og) == FAIL;
                Vdetach(og);
            }
        }
        Vdetach(vg);
        return res;
    }

    // every stored element (tag, ref, length, bytes), through the low-level directory
    std::map<std::pair<uint16, uint16>, uint64_t> raw_elements(Ctx &ctx, const std::string &path)
    {
        std::map<std::pair<uint16, uint16>, uint64_t> m;
        int32 fid = Hopen(path.c_str(), DFACC_READ, 0);
        if (fid == FAIL)
            ctx.fail("read-failed", "read-failed:Hopen", "Hopen(READ) for the raw element dump failed");
        uint16 t = 0, r = 0;
        int32  off = 0, len = 0;
        while (Hfind(fid, DFTAG_WILDCARD, DFREF_WILDCARD, &t, &r, &off, &len, DF_FORWARD) != FAIL) {
            std::vector<uint8_t> buf((size_t)std::max<int32>(len, 0) + 8);
            uint64_t             h = fnv64i((uint64_t)len, 1469598103934665603ULL);
            // the stored bytes at (offset, length), special elements included
            std::vector<uint8_t> file = simfs::file_bytes(simfs::disk(), path);
            if (off >= 0 && len >= 0 && (size_t)off + (size_t)len <= file.size())
                h = fnv64(file.data() + off, (size_t)len, h);
            m[{t, r}] = h;
        }
        Hclose(fid);
        return m;
    }

    std::vector<uint64_t> read_everything(Ctx &ctx, Mixed &mx, const char *phase)
    {
        std::vector<Op> reads;
        MixedGen::read_all(reads);
        std::vector<uint64_t> out;
        for (auto &o : reads) {
            uint64_t before   = ctx.st.transcript;
            ctx.st.transcript = 1469598103934665603ULL;
            mx.run(o);
            out.push_back(mx.absent ? 0 : ctx.st.transcript);
            ctx.st.transcript = fnv64i(ctx.st.transcript, before);
            if (mx.call_failed)
                ctx.fail("read-failed", std::string("read-failed:") + mx.failed_call, strf("%s: %s failed while reading back (%s)", phase, mx.failed_call.c_str(), o.kind.c_str()));
        }
        return out;
    }

    void execute(Ctx &ctx) override
    {
        const Plan &p = ctx.plan;
        Mixed       mx(ctx, "/sim/ro.hdf");
        mx.ndds = (int)p.knob("ndds", 16);
        apply_hook_knobs(p);
        std::vector<uint64_t> ta;
        uint64_t              frozen_hash = 0;
        bool                  frozen = false;
        int                   refused = 0;
        int32                 writer_fid = FAIL;
        legacy_r8 = false;
        bool                  noversion = false; // the file has no library-version element: whoever has it open for writing adds one
        for (size_t i = 0; i < p.ops.size(); i++) {
            const Op &o = p.ops[i];
            ctx.begin_op((int)i);
            if (o.kind == "hempty") {
                if (mx.need_h()) {
                    int32 aid = Hstartaccess(mx.fid, 8997, 1, DFACC_WRITE);
                    if (aid == FAIL || Hendaccess(aid) == FAIL)
                        ctx.fail("workload-call-failed", "workload-call-failed:hempty", "creating a descriptor without data failed");
                    ctx.probe("descriptor-without-data");
                }
                continue;
            }
            if (o.kind == "hnoversion") {
                if (mx.need_h()) {
                    if (Hdeldd(mx.fid, DFTAG_VERSION, 1) == FAIL)
                        ctx.fail("workload-call-failed", "workload-call-failed:hnoversion", "removing the version element failed");
                    ctx.probe("file-without-version-element");
                    noversion = true;
                }
                continue;
            }
            if (o.kind == "freeze") {
                mx.end_session();
                if (mx.call_failed)
                    ctx.fail("workload-call-failed", "workload-call-failed:" + mx.failed_call, "building the file: " + mx.failed_call + " failed");
                if (!mx.on_disk)
                    return; // nothing was created: trivial case
                // reference read-back of everything, read-only
                mx.acc_mode = DFACC_READ;
                ta          = read_everything(ctx, mx, "reading the new file back");
                mx.end_session();
                {
                    // a file that is no HDF file lies next to the others: opening it is refused and leaves it alone
                    FILE *jf = fopen("/sim/ro_junk.bin", "wb");
                    if (jf) {
                        static const char text[] = "plain text, not a hierarchical data file; long enough for any header to be read from it ........";
                        fwrite(text, 1, sizeof text, jf);
                        fclose(jf);
                    }
                }
                if (p.knob("legacy_r8", 0)) {
                    // an image of the old single-file raster interface, run-length encoded, joins the file
                    std::vector<uint8_t> px(30);
                    for (int q = 0; q < 30; q++)
                        px[q] = (uint8_t)(q / 7);
                    if (DFR8addimage(mx.path.c_str(), px.data(), 6, 5, COMP_RLE) == FAIL)
                        ctx.fail("workload-call-failed", "workload-call-failed:DFR8addimage", "adding a run-length encoded DFR8 image failed");
                    legacy_r8 = true;
                    ctx.probe("legacy-rle-image-present");
                }
                if (p.knob("with_writer", 0) && !noversion) {
                    // Another client has the file open for writing (and edits nothing).  The access mode of the H layer belongs
                    // to the file, not to the id, so H-level calls are left out of such a phase B; an SD handle opened for
                    // reading has its own mode and must stay read-only whoever else has the file open.
                    writer_fid = Hopen(mx.path.c_str(), DFACC_RDWR, 0);
                    if (writer_fid == FAIL)
                        ctx.fail("open-failed", "open-failed:writer", "Hopen(RDWR) for the second client failed");
                    ctx.probe("second-client-holds-file-for-writing");
                }
                simfs::freeze_all(true);
                frozen_hash = simfs::disk_hash(simfs::disk());
                frozen      = true;
                if (simfs::disk().count("/sim/mixed_ext.dat"))
                    ctx.probe("external-present");
                continue;
            }
            if (o.kind == "phasec") {
                mx.end_session();
                if (!frozen)
                    return;
                // clause 1 and 2: nothing touched the frozen files
                ctx.st.checks++;
                if (!simfs::mutations().empty())
                    ctx.fail("ro-write", "ro-write:" + first_word(simfs::mutations()[0]), "read-only session: " + simfs::mutations()[0]);
                if (simfs::disk_hash(simfs::disk()) != frozen_hash)
                    ctx.fail("ro-write", "ro-write:bytes-differ", "a file differs byte-for-byte after the read-only session");
                // phase C: read-write open, no edits, close
                simfs::freeze_all(false);
                if (writer_fid != FAIL) {
                    if (Hclose(writer_fid) == FAIL)
                        ctx.fail("close-failed", "close-failed:writer", strf("closing the second client's id failed: %s", herr().c_str()));
                    writer_fid = FAIL;
                }
                if (p.knob("oldversion", 0) && !noversion) {
                    // pretend the file was written by an older release: patch the stored library version (first
                    // 12 bytes of the DFTAG_VERSION element are major, minor, release)
                    auto it = simfs::disk().find(mx.path);
                    std::vector<uint8_t> f = simfs::file_bytes(simfs::disk(), mx.path);
                    size_t nd = f.size() > 6 ? (((size_t)f[4] << 8) | f[5]) : 0; // entries of the first descriptor block
                    for (size_t d = 10; d + 12 <= f.size() && d < 10 + 12 * nd; d += 12)
                        if (f[d] == 0 && f[d + 1] == 30) { // tag 30 in the first descriptor block
                            size_t   off = ((size_t)f[d + 4] << 24) | ((size_t)f[d + 5] << 16) | ((size_t)f[d + 6] << 8) | f[d + 7];
                            uint8_t  old[12] = {0, 0, 0, 4, 0, 0, 0, 2, 0, 0, 0, 10};
                            if (off + 12 <= f.size())
                                it->second->write((int64_t)off, old, 12);
                            ctx.probe("old-version-file");
                            break;
                        }
                }
                auto raw_before = raw_elements(ctx, mx.path);
                mx.acc_mode = DFACC_RDWR;
                mx.call_failed = false;
                // A reader may be in the middle of an element when the file is opened for writing: the open swaps the stream
                // of the shared file record under it.  The reader goes on where it was, and what it gets is the element.
                int32                ro = FAIL, raid = FAIL, rlen = 0, rgot = 0;
                uint16               rt = 0, rr = 0;
                std::vector<uint8_t> rbuf;
                uint32               v0[3] = {0, 0, 0};
                char                 vs0[81] = "";
                intn                 hadver = FAIL;
                int                  rmode = (int)p.knob("reader_in_c", 0);
                if (rmode) {
                    ro = Hopen(mx.path.c_str(), DFACC_READ, 0);
                    if (ro == FAIL)
                        ctx.fail("read-failed", "read-failed:Hopen", "Hopen(READ) for the reader of phase C failed");
                    hadver = Hgetfileversion(ro, &v0[0], &v0[1], &v0[2], vs0);
                    uint16 t = 0, r = 0;
                    int32  off = 0, len = 0;
                    while (Hfind(ro, DFTAG_WILDCARD, DFREF_WILDCARD, &t, &r, &off, &len, DF_FORWARD) != FAIL)
                        if (!(t & 0x4000) && t != DFTAG_VERSION && len >= 2 && (rlen == 0 || rmode == 3)) {
                            rt   = t; // mode 3: the last such element, else the first
                            rr   = r;
                            rlen = len;
                        }
                    if (rlen) {
                        rbuf.assign((size_t)rlen, 0);
                        raid = Hstartread(ro, rt, rr);
                        rgot = raid == FAIL ? FAIL : Hread(raid, rmode == 2 ? rlen - 1 : rlen / 2, rbuf.data());
                        if (raid == FAIL || rgot <= 0)
                            ctx.fail("read-failed", "read-failed:reader-in-c", strf("the reader of phase C could not start reading %u/%u", rt, rr));
                        ctx.probe("reader-half-way-while-opened-for-writing");
                    }
                }
                bool hopen = mx.need_h();
                if (hopen && ro != FAIL) {
                    uint32 v1[3] = {0, 0, 0};
                    char   vs1[81] = "";
                    intn   hasver = Hgetfileversion(mx.fid, &v1[0], &v1[1], &v1[2], vs1);
                    ctx.st.checks++;
                    if (!noversion && (hasver != hadver || memcmp(v0, v1, sizeof v0) || strcmp(vs0, vs1)))
                        ctx.fail("phasec-changed", "phasec-changed:version-under-reader",
                                 strf("the library version of the file reads %u.%u.%u before and %u.%u.%u after the file was opened for writing next to a reader", v0[0],
                                      v0[1], v0[2], v1[0], v1[1], v1[2]));
                    if (raid != FAIL) {
                        // the reader's access was started for reading: cutting the element short through it is refused, whoever
                        // else has the file open for writing by now
                        ctx.st.checks++;
                        if (Htrunc(raid, 1) != FAIL)
                            ctx.fail("ro-accepted", "ro-accepted:Htrunc-on-read-aid-beside-writer",
                                     strf("Htrunc through an access id started for reading cut element %u/%u short once the file was open for writing", rt, rr));
                        int32 rest = Hread(raid, rlen - rgot, rbuf.data() + rgot);
                        std::vector<uint8_t> whole((size_t)rlen + 8, 0);
                        int32 all = Hgetelement(ro, rt, rr, whole.data());
                        if (rest != rlen - rgot || all != rlen)
                            ctx.fail("read-failed", "read-failed:reader-in-c", strf("the reader of phase C could not finish reading %u/%u (%d, %d of %d)", rt, rr, rest, all, rlen));
                        if (memcmp(rbuf.data(), whole.data(), (size_t)rlen))
                            ctx.fail("phasec-changed", "phasec-changed:reader-continues",
                                     strf("a reader half way through element %u/%u when the file was opened for writing got other bytes for the rest of it", rt, rr));
                        ctx.st.checks++;
                    }
                }
                if (hopen && mx.need_sd() && mx.need_gr() && mx.need_an())
                    mx.end_session();
                if (raid != FAIL && Hendaccess(raid) == FAIL)
                    ctx.fail("close-failed", "close-failed:reader-in-c", "Hendaccess of the reader of phase C failed");
                if (ro != FAIL && Hclose(ro) == FAIL)
                    ctx.fail("close-failed", "close-failed:reader-in-c", strf("Hclose of the reader of phase C failed: %s", herr().c_str()));
                if (mx.call_failed)
                    ctx.fail("phasec-failed", "phasec-failed:" + mx.failed_call, "opening read-write and closing without edits: " + mx.failed_call + " failed");
                mx.acc_mode = DFACC_READ;
                std::vector<uint64_t> tc = read_everything(ctx, mx, "after the no-edit read-write session");
                mx.end_session();
                for (size_t q = 0; q < ta.size() && q < tc.size(); q++)
                    if (ta[q] != tc[q])
                        ctx.fail("phasec-changed", "phasec-changed",
                                 strf("object read by read-all op %zu reads back differently after a read-write open/close without any edit", q));
                auto raw_after = raw_elements(ctx, mx.path);
                for (auto &kv : raw_before) {
                    auto it = raw_after.find(kv.first);
                    if (it == raw_after.end() || it->second != kv.second)
                        ctx.fail("phasec-changed", strf("phasec-changed:raw:tag%u", kv.first.first),
                                 strf("stored element %u/%u %s after a read-write open/close without any edit", kv.first.first, kv.first.second,
                                      it == raw_after.end() ? "is gone" : "has different bytes"));
                }
                ctx.probe("phase-c");
                continue;
            }
            if (o.kind == "mut") {
                if (!frozen)
                    continue;
                int api = modn(o.arg(0), NMUT);
                if (writer_fid != FAIL && strncmp(MUTS[api], "SD", 2) != 0) {
                    ctx.st.ops_skipped++;
                    continue;
                }
                bool guarded = false;
                for (int g = 0; GUARDED[g]; g++)
                    guarded |= strcmp(GUARDED[g], MUTS[api]) == 0;
                if (guarded && p.knob("unguard_ro_api", 0) == 0) {
                    ctx.st.ops_skipped++;
                    continue;
                }
                mx.call_failed = false;
                int r = mutate(mx, api, o.arg(1), o.arg(2), (uint64_t)o.arg(3));
                mx.call_failed = false;
                ctx.st.ops_done++;
                ctx.tr((uint64_t)(r + 2));
                if (!simfs::mutations().empty())
                    ctx.fail("ro-write", std::string("ro-write:") + MUTS[api], std::string(MUTS[api]) + " on a read-only handle: " + simfs::mutations()[0]);
                if (r == 0)
                    ctx.fail("ro-accepted", std::string("ro-accepted:") + MUTS[api],
                             std::string(MUTS[api]) + " through a read-only handle returned success instead of its failure value");
                if (r == 1) {
                    refused++;
                    ctx.probe("mutator-refused");
                    ctx.probe((std::string("refused:") + MUTS[api]).c_str());
                }
                ctx.st.checks++;
                continue;
            }
            if (frozen) {
                mx.acc_mode = DFACC_READ;
                mx.call_failed = false;
            }
            if (frozen && writer_fid != FAIL && o.kind != "sdread" && o.kind != "end") {
                ctx.st.ops_skipped++;
                continue;
            }
            if (mx.run(o))
                ctx.st.ops_done++;
            else
                ctx.st.ops_skipped++;
            if (frozen) {
                ctx.probe("read-in-phase-b");
                if (mx.call_failed)
                    ctx.fail("read-failed", std::string("read-failed:") + mx.failed_call, "read-only session: " + mx.failed_call + " failed in " + o.kind);
                if (!simfs::mutations().empty())
                    ctx.fail("ro-write", "ro-write:" + o.kind, "read call " + o.kind + " on a read-only handle: " + simfs::mutations()[0]);
            }
            else if (mx.call_failed)
                ctx.fail("workload-call-failed", "workload-call-failed:" + mx.failed_call, "building the file: " + mx.failed_call + " failed in " + o.kind);
        }
        (void)refused;
    }
    static std::string first_word(const std::string &s) { return s.substr(0, s.find(' ')); }
    bool nontrivial(const Outcome &o) const override { return o.st.ops_done >= 3 && o.st.checks >= 2; }
};

Registrar reg(new ReadOnly);

} // namespace
} // namespace h4
