// engine.h -- plans, profiles, child execution, driver, minimiser, evidence.  DESIGN.md section 2.
#pragma once
#include "simfs.h"
#include "util.h"
#include <functional>
#include <map>
#include <set>
#include <string>
#include <unordered_set>
#include <vector>

namespace h4 {

// ---------------------------------------------------------------- plan = the replay file
struct Op {
    int                  client = 0;
    std::string          kind;
    std::vector<int64_t> a;
    int64_t              arg(size_t i, int64_t d = 0) const { return i < a.size() ? a[i] : d; }
};

struct Plan {
    std::string                    profile;
    uint64_t                       seed = 0;
    std::map<std::string, int64_t> knobs;
    std::vector<Op>                ops;
    std::vector<simfs::Fault>      faults;
    std::string                    expect_class, expect_key, note;
    int64_t knob(const std::string &k, int64_t d = 0) const
    {
        auto it = knobs.find(k);
        return it == knobs.end() ? d : it->second;
    }
    std::string to_text() const;
    static bool from_text(const std::string &s, Plan &p);
    uint64_t    hash() const;
};

// ---------------------------------------------------------------- result of one execution in a child
enum Status { ST_OK = 0, ST_VIOL, ST_ASAN, ST_CRASH, ST_HANG, ST_ENGINE };
const char *status_name(int s);

struct Violation {
    std::string cls; // violation class: minimisation keeps it fixed
    std::string key; // precise key: known findings are matched on it
    std::string msg;
    int         op = -1;
};

struct RunStats {
    std::map<std::string, uint64_t> probes;
    std::vector<uint64_t>           states; // hashes of abstract states seen (distinct-state measure)
    uint64_t evhash = 0, transcript = 1469598103934665603ULL, diskhash = 0;
    uint32_t nevents = 0;
    int      ops_done = 0, ops_skipped = 0, checks = 0, api_fail = 0;
    uint64_t evkinds[simfs::EV_NKINDS] = {0};
    uint64_t faults[simfs::F_NKINDS]   = {0};
};

struct Outcome {
    int         status = ST_OK;
    Violation   v;
    RunStats    st;
    std::string blob;   // profile-specific payload from the child (event list, disk image, per-call results...)
    std::string plan_text; // judge(): the derived plan that actually failed (e.g. the program plus one fault)
    std::string stderr_text;
};

struct ViolationEx {
    Violation v;
};

struct Ctx {
    const Plan  &plan;
    int          mode = 0;       // profile-specific execution mode
    const std::string *in = nullptr; // profile-specific input blob (inherited through fork)
    RunStats     st;
    std::string  out;             // blob returned to the parent
    int          cur_op = -1;
    explicit Ctx(const Plan &p) : plan(p) {}
    [[noreturn]] void fail(const std::string &cls, const std::string &key, const std::string &msg);
    void probe(const char *name, uint64_t n = 1) { st.probes[name] += n; }
    void state(uint64_t h) { st.states.push_back(h); }
    void tr(uint64_t v) { st.transcript = fnv64i(v, st.transcript); }
    void trb(const void *p, size_t n) { st.transcript = fnv64(p, n, fnv64i(n, st.transcript)); }
    void begin_op(int i)
    {
        cur_op = i;
        simfs::set_op(i);
    }
};

// ---------------------------------------------------------------- a profile = workload + oracle for one property
struct Exec; // child launcher handed to judge()

struct Profile {
    virtual ~Profile() {}
    virtual const char *name() const                           = 0;
    virtual const char *property() const                       = 0;
    virtual const char *level() const { return "exploration"; }
    virtual int         runs(bool thorough) const              = 0;
    virtual Plan        generate(Rng &rng, bool thorough, uint64_t run) = 0;
    // runs inside a forked child; reports through ctx (ctx.fail throws)
    virtual void execute(Ctx &ctx) = 0;
    // decide one case; default = one child execution.  May launch several children (reference + faulty runs...).
    virtual Outcome judge(const Plan &plan, Exec &ex);
    // evidence strings
    virtual std::string rule() const                     = 0;
    virtual std::vector<std::string> assumptions() const { return {}; }
    virtual std::vector<std::string> required_probes() const { return {}; }
    // is a finished run non-trivial (did real work and real checks)?
    virtual bool nontrivial(const Outcome &o) const { return o.st.checks > 0 && o.st.ops_done >= 2; }
    // generic argument shrinking allowed for this op/arg?
    virtual bool shrinkable(const Op &, size_t) const { return true; }
    virtual int  minimise_budget() const { return 700; }
    // may the minimiser drop this op?  (structural markers of a plan are kept)
    virtual bool removable(const Plan &, size_t) const { return true; }
    virtual bool faults_removable() const { return true; }
};

struct Exec {
    Profile *prof;
    uint64_t children = 0; // child executions launched (evidence)
    RunStats agg_extra;    // stats of secondary executions (folded into the evidence)
    Outcome  run(const Plan &plan, int mode = 0, const std::string *in = nullptr);
};

void     accumulate(RunStats &into, const RunStats &from); // fold a secondary execution into the evidence counters
void     register_profile(Profile *p);
Profile *find_profile(const std::string &name_or_property);
std::vector<Profile *> &all_profiles();

struct Registrar {
    explicit Registrar(Profile *p) { register_profile(p); }
};

// ---------------------------------------------------------------- driver
struct DriverOpts {
    std::string property, tier = "quick", replay;
    uint64_t    seed    = 1;
    int         workers = 16;
    int64_t     runs_override = -1;
    double      wall_cap_s = 0; // 0 = profile default
    bool        selftest = false, verbose = false, no_minimise = false;
    std::string verif_dir = "/verif";
};
int driver_main(const DriverOpts &o);
int replay_main(const DriverOpts &o);

Plan minimise(Profile *prof, const Plan &plan, const Violation &v, Exec &ex, int *evals);

} // namespace h4
