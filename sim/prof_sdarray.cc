// prof_sdarray.cc -- C03: SDS hyperslab reads and writes behave as an n-dimensional array.
#include "hx.h"

namespace h4 {
namespace {

const int NDS = 4, MAXRANK = 4;

// dataset names: each one is a proper prefix of the next, so a name lookup that compares a prefix only selects the wrong dataset
static std::string sname(int i) { return "sds" + std::string("abcdefghijklmnop").substr(0, (size_t)(i % 16)); }

struct NT {
    int32 code;
    int   size;
    int   cls; // 0 int8-like, 1 char, 2 int16-like, 3 int32-like, 4 float32, 5 float64
};
const NT NTS[] = {{DFNT_INT8, 1, 0},   {DFNT_UINT8, 1, 0},   {DFNT_CHAR8, 1, 1},   {DFNT_INT16, 2, 2},  {DFNT_UINT16, 2, 2},
                  {DFNT_INT32, 4, 3},  {DFNT_UINT32, 4, 3},  {DFNT_FLOAT32, 4, 4}, {DFNT_FLOAT64, 8, 5}};
const int NNT     = 9;
const int32 FLAV[] = {0, DFNT_LITEND, DFNT_NATIVE};

enum { C_UNWRITTEN = 0, C_WRITTEN = 1, C_UNSPEC = 2 };

struct MDs {
    bool    exists = false;
    int     rank = 0, nt = 0, flav = 0;
    int32   dims[MAXRANK] = {0, 0, 0, 0}; // dims[0] == 0 => unlimited
    int32   nrec = 0;                     // current extent of an unlimited dim 0
    bool    unlimited = false, fill_set = false, any_write = false, nofill_at_first_write = false, late_fill = false;
    bool    maybe_materialised = false; // a refused write may have created the stored element already
    uint8_t fill[8];
    std::vector<uint8_t> cell; // value bytes, row-major over the current extent
    std::vector<uint8_t> st;
    int32   sdsid = FAIL;
    int     esz() const { return NTS[nt].size; }
    int32   extent(int d) const { return (d == 0 && unlimited) ? nrec : dims[d]; }
    size_t  ncells() const
    {
        size_t n = 1;
        for (int d = 0; d < rank; d++)
            n *= (size_t)extent(d);
        return n;
    }
    size_t rowcells() const
    {
        size_t n = 1;
        for (int d = 1; d < rank; d++)
            n *= (size_t)dims[d];
        return n;
    }
};

static void default_fill(const NT &t, uint8_t *out)
{
    switch (t.cls) {
        case 0: {
            char v = FILL_BYTE;
            memcpy(out, &v, 1);
            break;
        }
        case 1: {
            char v = FILL_CHAR;
            memcpy(out, &v, 1);
            break;
        }
        case 2: {
            short v = FILL_SHORT;
            memcpy(out, &v, 2);
            break;
        }
        case 3: {
            int32 v = (int32)FILL_LONG;
            memcpy(out, &v, 4);
            break;
        }
        case 4: {
            float v = FILL_FLOAT;
            memcpy(out, &v, 4);
            break;
        }
        default: {
            double v = FILL_DOUBLE;
            memcpy(out, &v, 8);
            break;
        }
    }
}

// element value number `n` of data block dseed, as bytes valid for the type (floats: exactly representable)
static void value_bytes(const NT &t, uint64_t dseed, uint64_t n, uint8_t *out)
{
    uint64_t w = mix64(dseed, n);
    switch (t.cls) {
        case 4: {
            float f = (float)(int32)(w % 2000001) - 1000000.0f;
            memcpy(out, &f, 4);
            break;
        }
        case 5: {
            double f = (double)(int64_t)(w % 2000000001ULL) - 1000000000.0;
            memcpy(out, &f, 8);
            break;
        }
        case 1: {
            out[0] = (uint8_t)(32 + w % 95);
            break;
        }
        default:
            memcpy(out, &w, (size_t)t.size);
    }
}

struct SdArray : Profile {
    const char *name() const override { return "sdarray"; }
    const char *property() const override { return "C03"; }
    int         runs(bool thorough) const override { return thorough ? 200000 : 10000; }
    std::string rule() const override
    {
        return "each case = one generated plan: up to 4 datasets (rank 0..4, 9 number types x 3 flavours, unlimited "
               "first dimension, fill value/mode, block size), 15..70 hyperslab writes/reads with start/stride/count in "
               "and out of range, SDend/SDstart restarts; oracle = n-d array model (cells: written / fill / "
               "unspecified); non-trivial = >= 2 ops and >= 1 comparison; distinct = plan hash";
    }
    std::vector<std::string> assumptions() const override
    {
        return {"cells never written with fill mode off are unspecified",
                "after a FAILed out-of-range write the cells of the requested region that lie inside the extent are "
                "unspecified and the unlimited extent is re-read from SDgetinfo",
                "a fill value set after the first write makes unwritten cells old-or-new",
                "one writable SDstart at a time"};
    }
    std::vector<std::string> required_probes() const override
    {
        return {"strided-write", "strided-read", "unlimited-grow", "skipped-records", "oor-read", "oor-write", "restart",
                "fill-checked", "rank0", "user-fill"};
    }

    Plan generate(Rng &rng, bool thorough, uint64_t) override
    {
        Plan p;
        p.seed              = rng.next();
        Rng kr              = rng.sub(1);
        p.knobs["clients"]  = kr.range(1, 2);
        p.knobs["shareddims"] = kr.chance(0.3) ? 1 : 0; // the last dimension gets a name made of its size: datasets share it
        if (kr.chance(0.5))
            p.knobs["sdfillmax"] = 8 * kr.range(1, 40); // fill-value chunk buffer (hook)
        if (kr.chance(0.5))
            p.knobs["ndds_override"] = kr.range(2, 12); // SDstart hard-wires 200 descriptors per block (hook)
        if (kr.chance(0.3)) {
            p.knobs["blklen"] = kr.range(8, 200);
            p.knobs["blknum"] = kr.range(1, 4);
        }
        Rng   r = rng.sub(2);
        int   nops = (int)r.range(15, thorough ? 110 : 70);
        Sched sc(r, (int)p.knobs["clients"]);
        int   nds = (int)r.range(1, NDS);
        auto  mkcreate = [&](int i) {
            int64_t rank = r.chance(0.08) ? 0 : r.chance(0.05) ? (r.chance(0.5) ? 32 : r.range(5, 31)) : r.range(1, 4);
            return mkop(0, "create", {i, rank, r.range(1, 7), r.range(1, 6), r.range(1, 5), r.range(1, 4), (int64_t)r.below(NNT),
                                      (int64_t)r.below(3), r.chance(0.35) ? 1 : 0, r.chance(0.4) ? 1 + (int64_t)r.below(1000) : 0,
                                      r.chance(0.2) ? r.range(1, 300) : 0});
        };
        p.ops.push_back(mkcreate(0));
        static const std::vector<int> w     = {/*create*/ 4, /*write*/ 30, /*read*/ 28, /*info*/ 4, /*endaccess*/ 4, /*restart*/ 4,
                                               /*fillmode*/ 2, /*setfill*/ 2, /*readall*/ 4};
        static const char            *names[] = {"create", "write", "read", "info", "endaccess", "restart", "fillmode", "setfill", "readall"};
        for (int i = 0; i < nops; i++) {
            int     c = sc.next(r);
            int     k = r.weighted(w);
            int64_t d = (int64_t)r.below((uint64_t)nds);
            switch (k) {
                case 0:
                    p.ops.push_back(mkcreate((int)d));
                    break;
                case 1:
                case 2: {
                    // start/stride/count as fractions resolved by the executor against the current shape;
                    // oor selects a deliberately out-of-range request
                    Op o = mkop(c, names[k], {d, r.chance(0.12) ? 1 + (int64_t)r.below(4) : 0});
                    for (int j = 0; j < MAXRANK; j++) {
                        o.a.push_back((int64_t)r.below(1000)); // start fraction
                        o.a.push_back(r.chance(0.6) ? 1 : r.range(1, 4)); // stride
                        o.a.push_back((int64_t)r.below(1000)); // count fraction
                    }
                    o.a.push_back((int64_t)(r.next() >> 16));
                    o.a.push_back(r.chance(0.25) ? r.range(0, 6) : 0); // growth along the unlimited dimension
                    p.ops.push_back(o);
                    break;
                }
                case 3:
                case 4:
                case 8:
                    p.ops.push_back(mkop(c, names[k], {d}));
                    break;
                case 5:
                    p.ops.push_back(mkop(c, names[k], {(int64_t)r.below(2)}));
                    break;
                case 6:
                    p.ops.push_back(mkop(c, names[k], {(int64_t)r.below(2)}));
                    break;
                case 7:
                    p.ops.push_back(mkop(c, names[k], {d, 1 + (int64_t)r.below(1000)}));
                    break;
            }
        }
        p.ops.push_back(mkop(0, "restart", {0}));
        return p;
    }

    struct S {
        Ctx  &ctx;
        MDs   ds[NDS];
        int32 sd = FAIL;
        bool  on_disk = false, nofill = false;
        explicit S(Ctx &c) : ctx(c) {}
    };
    const std::string path = "/sim/sd.hdf";

    void open_sd(S &s, bool write)
    {
        s.sd = SDstart(path.c_str(), !s.on_disk ? DFACC_CREATE : write ? DFACC_RDWR : DFACC_READ);
        if (s.sd == FAIL)
            s.ctx.fail("open-failed", "open-failed", strf("SDstart failed: %s", HEstring((hdf_err_code_t)HEvalue(1))));
        s.on_disk = true;
        s.nofill  = false; // fill mode is per open file and starts as SD_FILL
        for (int i = 0; i < NDS; i++)
            s.ds[i].sdsid = FAIL;
    }
    int32 sel(S &s, int i)
    {
        MDs &m = s.ds[i];
        if (m.sdsid != FAIL)
            return m.sdsid;
        int32 ix = SDnametoindex(s.sd, sname(i).c_str());
        if (ix == FAIL)
            s.ctx.fail("lookup-failed", "lookup-failed", strf("SDnametoindex(sds%d) failed for an existing dataset", i));
        m.sdsid = SDselect(s.sd, ix);
        if (m.sdsid == FAIL)
            s.ctx.fail("lookup-failed", "lookup-failed:select", strf("SDselect(sds%d) failed", i));
        return m.sdsid;
    }

    // model cell index of coordinates
    static size_t lin(const MDs &m, const int32 *c)
    {
        size_t ix = 0;
        for (int d = 0; d < m.rank; d++)
            ix = ix * (size_t)m.extent(d) + (size_t)c[d];
        return ix;
    }
    void grow_records(S &s, MDs &m, int32 newrec, bool fillmode_on)
    {
        if (!m.unlimited || newrec <= m.nrec)
            return;
        size_t rc = m.rowcells();
        m.cell.resize((size_t)newrec * rc * (size_t)m.esz(), 0);
        m.st.resize((size_t)newrec * rc, fillmode_on ? C_UNWRITTEN : C_UNSPEC);
        m.nrec = newrec;
        s.ctx.probe("unlimited-grow");
    }

    void check_info(S &s, int i, const char *when)
    {
        MDs  &m = s.ds[i];
        char  nm[H4_MAX_NC_NAME + 1] = "";
        int32 rank = -1, dims[H4_MAX_VAR_DIMS], nt = 0, na = 0;
        if (SDgetinfo(sel(s, i), nm, &rank, dims, &nt, &na) == FAIL)
            s.ctx.fail("info-failed", "info-failed", strf("SDgetinfo(sds%d) failed (%s)", i, when));
        s.ctx.st.checks++;
        // the flavour bits may come back differently (native is reported as little-endian on this machine)
        if (rank != m.rank || (nt & 0xfff) != NTS[m.nt].code || strcmp(nm, sname(i).c_str()) != 0)
            s.ctx.fail("info-mismatch", "info-mismatch",
                       strf("SDgetinfo(sds%d) (%s): name '%s' rank %d type %d, model rank %d type %d", i, when, nm, (int)rank,
                            (int)nt, m.rank, (int)(NTS[m.nt].code | FLAV[m.flav])));
        for (int d = 0; d < m.rank && d < MAXRANK; d++)
            if (dims[d] != m.extent(d))
                s.ctx.fail("info-mismatch", "info-mismatch:dims",
                           strf("SDgetinfo(sds%d) (%s): dim %d is %d, model %d%s", i, when, d, (int)dims[d], (int)m.extent(d),
                                (d == 0 && m.unlimited) ? " (current unlimited extent)" : ""));
    }

    // compare a full or partial read
    void compare_read(S &s, int i, const int32 *start, const int32 *stride, const int32 *count, const uint8_t *buf, const char *when)
    {
        MDs &m = s.ds[i];
        int  esz = m.esz();
        int32 c[MAXRANK] = {0, 0, 0, 0}, idx[MAXRANK] = {0, 0, 0, 0};
        size_t n = 1;
        for (int d = 0; d < m.rank; d++)
            n *= (size_t)count[d];
        s.ctx.st.checks++;
        for (size_t k = 0; k < n; k++) {
            for (int d = 0; d < m.rank; d++)
                c[d] = start[d] + idx[d] * stride[d];
            size_t  at   = lin(m, c);
            uint8_t stt  = m.st[at];
            const uint8_t *want = nullptr;
            if (stt == C_WRITTEN)
                want = m.cell.data() + at * (size_t)esz;
            else if (stt == C_UNWRITTEN && !m.late_fill) {
                want = m.fill;
                s.ctx.probe("fill-checked");
            }
            if (want && memcmp(buf + k * (size_t)esz, want, (size_t)esz) != 0)
                s.ctx.fail("value-mismatch", strf("value-mismatch:%s", stt == C_WRITTEN ? "written" : "fill"),
                           strf("%s of sds%d (rank %d, type %d): cell (%d,%d,%d,%d) is %s, model has %s (%s)", when, i, m.rank,
                                (int)(NTS[m.nt].code | FLAV[m.flav]), (int)c[0], (int)c[1], (int)c[2], (int)c[3],
                                hexs(buf + k * (size_t)esz, (size_t)esz).c_str(), hexs(want, (size_t)esz).c_str(),
                                stt == C_WRITTEN ? "last written value" : "fill value"));
            for (int d = m.rank - 1; d >= 0; d--) {
                if (++idx[d] < count[d])
                    break;
                idx[d] = 0;
            }
        }
    }

    void read_all(S &s, int i, const char *when)
    {
        MDs &m = s.ds[i];
        check_info(s, i, when);
        if (m.rank > MAXRANK)
            return;
        size_t n = m.ncells();
        if (n == 0)
            return;
        int32 start[MAXRANK] = {0, 0, 0, 0}, stride[MAXRANK] = {1, 1, 1, 1}, count[MAXRANK];
        for (int d = 0; d < MAXRANK; d++)
            count[d] = d < m.rank ? m.extent(d) : 1;
        std::vector<uint8_t> buf(n * (size_t)m.esz() + 32, 0x5A);
        intn                 r = SDreaddata(sel(s, i), start, NULL, count, buf.data());
        s.ctx.tr((uint64_t)r);
        if (r == FAIL) {
            bool unspec = !m.any_write;
            for (auto x : m.st)
                unspec |= x == C_UNSPEC;
            if (!unspec)
                s.ctx.fail("read-refused", "read-refused:full",
                           strf("reading all of sds%d failed (%s): %s", i, when, HEstring((hdf_err_code_t)HEvalue(1))));
            return;
        }
        for (size_t j = n * (size_t)m.esz(); j < buf.size(); j++)
            if (buf[j] != 0x5A)
                s.ctx.fail("buffer-overrun", "buffer-overrun:read", strf("SDreaddata(sds%d) wrote beyond the requested cells", i));
        compare_read(s, i, start, stride, count, buf.data(), when);
    }

    void execute(Ctx &ctx) override
    {
        S           s(ctx);
        const Plan &p = ctx.plan;
        apply_hook_knobs(p);
        for (size_t i = 0; i < p.ops.size(); i++) {
            const Op &o = p.ops[i];
            ctx.begin_op((int)i);
            const std::string &k = o.kind;
            bool               done = true;
            if (s.sd == FAIL && k != "restart")
                open_sd(s, true);
            if (k == "create") {
                int  di = modn(o.arg(0), NDS);
                MDs &m  = s.ds[di];
                if (m.exists)
                    done = false;
                else {
                    int rank = (int)std::max<int64_t>(0, std::min<int64_t>(o.arg(1), 32));
                    int32 dims[H4_MAX_VAR_DIMS];
                    for (int d = 0; d < rank; d++)
                        dims[d] = d < MAXRANK ? (int32)std::max<int64_t>(1, o.arg(2 + d)) : 1;
                    bool unl = o.arg(8) != 0 && rank >= 1;
                    if (unl)
                        dims[0] = SD_UNLIMITED;
                    int   nt   = modn(o.arg(6), NNT), fl = modn(o.arg(7), 3);
                    int32 sds  = SDcreate(s.sd, sname(di).c_str(), NTS[nt].code | FLAV[fl], rank, dims);
                    ctx.tr((uint64_t)(sds != FAIL));
                    if (sds == FAIL)
                        ctx.fail("create-refused", "create-refused",
                                 strf("SDcreate(rank %d, type %d) failed: %s", rank, (int)(NTS[nt].code | FLAV[fl]),
                                      HEstring((hdf_err_code_t)HEvalue(1))));
                    m           = MDs();
                    m.exists    = true;
                    m.rank      = rank;
                    m.nt        = nt;
                    m.flav      = fl;
                    m.unlimited = unl;
                    m.sdsid     = sds;
                    for (int d = 0; d < rank && d < MAXRANK; d++)
                        m.dims[d] = unl && d == 0 ? 0 : dims[d];
                    default_fill(NTS[nt], m.fill);
                    if (rank == 0)
                        ctx.probe("rank0");
                    if (rank > MAXRANK)
                        ctx.probe("rank>4");
                    if (rank <= MAXRANK) {
                        m.cell.assign(m.ncells() * (size_t)m.esz(), 0);
                        m.st.assign(m.ncells(), C_UNWRITTEN);
                    }
                    if (o.arg(9) > 0) { // user fill value, set before the first write
                        uint8_t fv[8];
                        value_bytes(NTS[nt], (uint64_t)o.arg(9), 7, fv);
                        if (SDsetfillvalue(sds, fv) == FAIL)
                            ctx.fail("setfill-refused", "setfill-refused", "SDsetfillvalue right after SDcreate failed");
                        memcpy(m.fill, fv, (size_t)m.esz());
                        m.fill_set = true;
                        ctx.probe("user-fill");
                    }
                    if (p.knob("shareddims", 0) && rank >= 1 && rank <= MAXRANK && !(unl && rank == 1)) {
                        // datasets whose last dimensions are equally long share that dimension by name; the other dimensions
                        // keep the names the library gives them
                        if (SDsetdimname(SDgetdimid(sds, rank - 1), strf("shr_%d", (int)dims[rank - 1]).c_str()) == FAIL)
                            ctx.fail("create-refused", "create-refused:dimname", strf("naming the last dimension failed: %s", HEstring((hdf_err_code_t)HEvalue(1))));
                        ctx.probe("shared-dimension");
                    }
                    if (o.arg(10) > 0 && unl)
                        if (SDsetblocksize(sds, (int32)o.arg(10)) == FAIL)
                            ctx.fail("blocksize-refused", "blocksize-refused", "SDsetblocksize failed");
                }
            }
            else if (k == "write" || k == "read") {
                int  di = modn(o.arg(0), NDS);
                MDs &m  = s.ds[di];
                if (!m.exists || m.rank > MAXRANK)
                    done = false;
                else {
                    bool  wr  = k == "write";
                    int   oor = (int)o.arg(1); // 0 = in range; 1..4: make dimension (oor-1) overflow
                    int32 start[MAXRANK] = {0, 0, 0, 0}, stride[MAXRANK] = {1, 1, 1, 1}, count[MAXRANK] = {1, 1, 1, 1};
                    bool  strided = false, inrange = true;
                    int64_t grow = wr ? o.arg(2 + 3 * MAXRANK + 1) : 0;
                    for (int d = 0; d < m.rank; d++) {
                        int32 ext = m.extent(d);
                        if (d == 0 && m.unlimited && wr)
                            ext = (int32)(ext + grow); // a write may extend the unlimited dimension
                        if (d == 0 && m.unlimited && ext == 0)
                            ext = wr ? 1 : 0;
                        if (ext == 0) {
                            inrange = false; // nothing to read yet
                            start[d] = 0;
                            count[d] = 1;
                            continue;
                        }
                        int32 st = (int32)std::max<int64_t>(1, o.arg(2 + 3 * d + 1));
                        start[d] = (int32)(o.arg(2 + 3 * d) % ext);
                        int32 maxc = (ext - 1 - start[d]) / st + 1;
                        count[d]   = 1 + (int32)(o.arg(2 + 3 * d + 2) % maxc);
                        stride[d]  = st;
                        if (st > 1 && count[d] > 1)
                            strided = true;
                    }
                    if (oor > 0 && m.rank > 0) {
                        int d = (oor - 1) % m.rank;
                        if (!(d == 0 && m.unlimited && wr)) {
                            // push the last selected index beyond the extent
                            int32 ext = m.extent(d);
                            count[d]  = (ext - start[d] + stride[d] - 1) / stride[d] + 1 + (int32)(o.arg(2) % 3);
                            inrange   = false;
                        }
                    }
                    strided = false;
                    for (int d = 0; d < m.rank; d++)
                        strided |= stride[d] > 1 && count[d] > 1;
                    // known finding C03-nofill-refused-write-extent: with fill mode off, a write to an unlimited dataset that
                    // is refused for reaching beyond an inner dimension has already counted the new records (nothing is
                    // stored for them, after a reopen they are gone).  Such requests are not issued.  (Partly written
                    // last records used to be guarded as well: repaired, findings/fixed.)
                    bool guarded = wr && s.nofill && m.unlimited && !inrange && p.knob("unguard_nofill_refused_extent", 0) == 0;
                    if (wr && s.nofill && m.unlimited && inrange)
                        for (int d = 1; d < m.rank; d++)
                            if (count[d] * stride[d] < m.dims[d])
                                ctx.probe("nofill-partial-record");
                    if (m.rank >= 1 && inrange && modn(o.arg(2), 5) == 1 && (!wr || m.any_write)) {
                        // a hyperslab with an empty edge (count 0 in one dimension, strides given) holds no cells: a write of it
                        // changes nothing, a read of it delivers nothing -- whatever the call returns
                        int32 c0[MAXRANK], s2[MAXRANK];
                        for (int d = 0; d < MAXRANK; d++) {
                            c0[d] = count[d];
                            s2[d] = std::max<int32>(stride[d], 2);
                        }
                        c0[modn(o.arg(3), m.rank)] = 0;
                        std::vector<uint8_t> eb(4096, 0x5A);
                        size_t               others = 1;
                        for (int d = 0; d < m.rank; d++)
                            others *= (size_t)std::max<int32>(c0[d], 1);
                        if (others * (size_t)m.esz() <= eb.size()) {
                            if (wr) {
                                ctx.tr((uint64_t)SDwritedata(sel(s, di), start, s2, c0, eb.data()));
                                read_all(s, di, "after a write of a hyperslab with an empty edge");
                            }
                            else {
                                ctx.tr((uint64_t)SDreaddata(sel(s, di), start, s2, c0, eb.data()));
                                for (uint8_t x : eb)
                                    if (x != 0x5A)
                                        ctx.fail("buffer-overrun", "buffer-overrun:empty-edge-read",
                                                 strf("SDreaddata(sds%d) of a hyperslab with count 0 in dimension %d wrote into the buffer", di, modn(o.arg(3), m.rank)));
                            }
                            ctx.probe("empty-edge");
                        }
                    }
                    size_t n = 1;
                    for (int d = 0; d < m.rank; d++)
                        n *= (size_t)count[d];
                    if (n > 20000 || guarded)
                        done = false;
                    else if (wr) {
                        uint64_t             ds = (uint64_t)o.arg(2 + 3 * MAXRANK);
                        std::vector<uint8_t> buf(n * (size_t)m.esz());
                        for (size_t q = 0; q < n; q++)
                            value_bytes(NTS[m.nt], ds, q, buf.data() + q * (size_t)m.esz());
                        intn r = SDwritedata(sel(s, di), start, strided || (o.arg(3) & 1) ? stride : NULL, count, buf.data());
                        ctx.tr((uint64_t)r);
                        if (strided)
                            ctx.probe("strided-write");
                        if (inrange) {
                            if (r == FAIL)
                                ctx.fail("write-refused", "write-refused",
                                         strf("SDwritedata(sds%d, start %d,%d,%d,%d count %d,%d,%d,%d) inside the extent failed: %s",
                                              di, (int)start[0], (int)start[1], (int)start[2], (int)start[3], (int)count[0],
                                              (int)count[1], (int)count[2], (int)count[3], HEstring((hdf_err_code_t)HEvalue(1))));
                            if (!m.any_write) {
                                m.any_write             = true;
                                m.nofill_at_first_write = s.nofill;
                            }
                            if (m.unlimited && m.rank > 0) {
                                int32 last = start[0] + (count[0] - 1) * stride[0] + 1;
                                if (last > m.nrec) {
                                    if (start[0] > m.nrec)
                                        ctx.probe("skipped-records");
                                    grow_records(s, m, last, !s.nofill);
                                }
                            }
                            int32 idx[MAXRANK] = {0, 0, 0, 0}, c[MAXRANK] = {0, 0, 0, 0};
                            for (size_t q = 0; q < n; q++) {
                                for (int d = 0; d < m.rank; d++)
                                    c[d] = start[d] + idx[d] * stride[d];
                                size_t at = lin(m, c);
                                memcpy(m.cell.data() + at * (size_t)m.esz(), buf.data() + q * (size_t)m.esz(), (size_t)m.esz());
                                m.st[at] = C_WRITTEN;
                                for (int d = m.rank - 1; d >= 0; d--) {
                                    if (++idx[d] < count[d])
                                        break;
                                    idx[d] = 0;
                                }
                            }
                            // with fill mode off, untouched cells of a first write stay unspecified
                            if (s.nofill)
                                for (auto &x : m.st)
                                    if (x == C_UNWRITTEN)
                                        x = C_UNSPEC;
                        }
                        else {
                            ctx.probe("oor-write");
                            m.maybe_materialised = true;
                            if (r != FAIL)
                                ctx.fail("oor-accepted", "oor-accepted:write",
                                         strf("SDwritedata(sds%d) reaching outside the extent (dim %d: start %d stride %d count %d, extent "
                                              "%d) returned success",
                                              di, (oor - 1) % std::max(1, m.rank), (int)start[(oor - 1) % std::max(1, m.rank)],
                                              (int)stride[(oor - 1) % std::max(1, m.rank)], (int)count[(oor - 1) % std::max(1, m.rank)],
                                              (int)m.extent((oor - 1) % std::max(1, m.rank))));
                            // with fill mode off the refused write may still have materialised the data element
                            // without fill values
                            if (s.nofill)
                                for (auto &x : m.st)
                                    if (x == C_UNWRITTEN)
                                        x = C_UNSPEC;
                            // cells of the requested region inside the extent: old or new; unlimited extent: ask
                            if (m.unlimited) {
                                char  nm[H4_MAX_NC_NAME + 1];
                                int32 rk, dm[H4_MAX_VAR_DIMS], nt, na;
                                if (SDgetinfo(sel(s, di), nm, &rk, dm, &nt, &na) != FAIL && dm[0] > m.nrec) {
                                    int32 old = m.nrec;
                                    grow_records(s, m, dm[0], false);
                                    (void)old;
                                }
                            }
                            int32 idx[MAXRANK] = {0, 0, 0, 0}, c[MAXRANK] = {0, 0, 0, 0};
                            for (size_t q = 0; q < n; q++) {
                                bool in = true;
                                for (int d = 0; d < m.rank; d++) {
                                    c[d] = start[d] + idx[d] * stride[d];
                                    in &= c[d] < m.extent(d);
                                }
                                if (in)
                                    m.st[lin(m, c)] = C_UNSPEC;
                                for (int d = m.rank - 1; d >= 0; d--) {
                                    if (++idx[d] < count[d])
                                        break;
                                    idx[d] = 0;
                                }
                            }
                        }
                    }
                    else {
                        std::vector<uint8_t> buf(n * (size_t)m.esz() + 32, 0x5A);
                        intn r = SDreaddata(sel(s, di), start, strided || (o.arg(3) & 1) ? stride : NULL, count, buf.data());
                        ctx.tr((uint64_t)r);
                        if (strided)
                            ctx.probe("strided-read");
                        if (!inrange) {
                            ctx.probe("oor-read");
                            if (r != FAIL)
                                ctx.fail("oor-accepted", "oor-accepted:read",
                                         strf("SDreaddata(sds%d, rank %d) reaching outside the extent returned success (start "
                                              "%d,%d,%d,%d stride %d,%d,%d,%d count %d,%d,%d,%d; extent %d,%d,%d,%d)",
                                              di, m.rank, (int)start[0], (int)start[1], (int)start[2], (int)start[3], (int)stride[0],
                                              (int)stride[1], (int)stride[2], (int)stride[3], (int)count[0], (int)count[1],
                                              (int)count[2], (int)count[3], (int)m.extent(0), (int)m.extent(1), (int)m.extent(2),
                                              (int)m.extent(3)));
                        }
                        else if (r == FAIL) {
                            bool unspec = !m.any_write;
                            for (auto x : m.st)
                                unspec |= x == C_UNSPEC;
                            if (!unspec)
                                ctx.fail("read-refused", "read-refused",
                                         strf("SDreaddata(sds%d) inside the extent failed: %s", di, HEstring((hdf_err_code_t)HEvalue(1))));
                        }
                        else {
                            for (size_t j = n * (size_t)m.esz(); j < buf.size(); j++)
                                if (buf[j] != 0x5A)
                                    ctx.fail("buffer-overrun", "buffer-overrun:read", strf("SDreaddata(sds%d) wrote beyond the requested cells", di));
                            ctx.trb(buf.data(), n * (size_t)m.esz());
                            compare_read(s, di, start, stride, count, buf.data(), "SDreaddata");
                        }
                    }
                }
            }
            else if (k == "info" || k == "readall" || k == "endaccess") {
                int  di = modn(o.arg(0), NDS);
                MDs &m  = s.ds[di];
                if (!m.exists)
                    done = false;
                else if (k == "info")
                    check_info(s, di, "in session");
                else if (k == "readall")
                    read_all(s, di, "full read in session");
                else if (m.sdsid == FAIL)
                    done = false;
                else {
                    if (SDendaccess(m.sdsid) == FAIL)
                        ctx.fail("endaccess-failed", "endaccess-failed", strf("SDendaccess(sds%d) failed", di));
                    m.sdsid = FAIL;
                }
            }
            else if (k == "fillmode") {
                intn mode = modn(o.arg(0), 2) ? SD_NOFILL : SD_FILL;
                if (SDsetfillmode(s.sd, mode) == FAIL)
                    ctx.fail("fillmode-refused", "fillmode-refused", "SDsetfillmode failed");
                s.nofill = mode == SD_NOFILL;
            }
            else if (k == "setfill") {
                int  di = modn(o.arg(0), NDS);
                MDs &m  = s.ds[di];
                if (!m.exists)
                    done = false;
                else {
                    uint8_t fv[8];
                    value_bytes(NTS[m.nt], (uint64_t)o.arg(1), 7, fv);
                    if (SDsetfillvalue(sel(s, di), fv) == FAIL)
                        ctx.fail("setfill-refused", "setfill-refused:late", "SDsetfillvalue failed");
                    if (m.any_write || m.maybe_materialised)
                        m.late_fill = true; // set after the first write: unwritten cells are old-or-new
                    else {
                        memcpy(m.fill, fv, (size_t)m.esz());
                        m.fill_set = true;
                    }
                    uint8_t back[8];
                    ctx.st.checks++;
                    if (SDgetfillvalue(sel(s, di), back) == FAIL || memcmp(back, fv, (size_t)m.esz()) != 0)
                        ctx.fail("fill-mismatch", "fill-mismatch", strf("SDgetfillvalue(sds%d) does not return the value just set", di));
                }
            }
            else if (k == "restart") {
                if (s.sd != FAIL) {
                    for (int d = 0; d < NDS; d++)
                        if (s.ds[d].exists && s.ds[d].sdsid != FAIL && (o.arg(0) & 1)) {
                            SDendaccess(s.ds[d].sdsid);
                            s.ds[d].sdsid = FAIL;
                        }
                    if (SDend(s.sd) == FAIL)
                        ctx.fail("close-failed", "close-failed", strf("SDend failed: %s", HEstring((hdf_err_code_t)HEvalue(1))));
                    s.sd = FAIL;
                }
                ctx.probe("restart");
                if (s.on_disk) {
                    open_sd(s, false);
                    for (int d = 0; d < NDS; d++)
                        if (s.ds[d].exists)
                            read_all(s, d, "after SDend/SDstart");
                    if (SDend(s.sd) == FAIL)
                        ctx.fail("close-failed", "close-failed:verify", "SDend after read-only verification failed");
                    s.sd = FAIL;
                }
            }
            else
                done = false;
            if (done) {
                ctx.st.ops_done++;
                uint64_t h = 1469598103934665603ULL;
                for (int d = 0; d < NDS; d++)
                    if (s.ds[d].exists) {
                        h = fnv64i((uint64_t)(d * 1000 + s.ds[d].rank * 100 + s.ds[d].nt * 10 + s.ds[d].flav), h);
                        h = fnv64i((uint64_t)s.ds[d].nrec, h);
                        size_t wrn = 0;
                        for (auto x : s.ds[d].st)
                            wrn += x == C_WRITTEN;
                        h = fnv64i(wrn, h);
                    }
                ctx.state(h);
            }
            else
                ctx.st.ops_skipped++;
        }
    }
};

Registrar reg(new SdArray);

} // namespace
} // namespace h4
