// prof_vgroup.cc -- C08: Vgroup membership, naming and hierarchy persist exactly as edited.
#include "hx.h"
#include <set>

namespace h4 {
namespace {

const int NVG = 5, NVS = 4, MAXCLIENT = 2, NSLOT = 3;

typedef std::pair<int32, int32> TR;
struct MVg {
    bool            exists = false;
    int32           ref    = 0;
    std::string     name, cls;
    std::vector<TR> mem;
};
struct MVs {
    bool        exists = false;
    int32       ref    = 0;
    std::string name;
};
struct Slot {
    bool  live = false;
    int32 vkey = FAIL;
    int   g    = 0;
    bool  wr   = false;
};

static std::string mkname(const char *pfx, int idx, int64_t len, int64_t seed)
{
    // a third of the names come from a family in which the name of object i is a proper prefix of the name of object
    // i+1 ("vgn", "vgna", "vgnab", ...): a lookup that compares a prefix only takes one object for another
    if (seed % 3 == 0 && len <= 64)
        return strf("%sn", pfx) + std::string("abcdefghijklmnopqrstuvwxyz").substr(0, (size_t)(idx % 26));
    std::string s = strf("%s%d_", pfx, idx);
    for (int64_t i = (int64_t)s.size(); i < len; i++)
        s += (char)('a' + (seed + i * 7) % 26);
    return s;
}

struct VGroupP : Profile {
    const char *name() const override { return "vgroup"; }
    const char *property() const override { return "C08"; }
    int         runs(bool thorough) const override { return thorough ? 200000 : 10000; }
    std::string rule() const override
    {
        return "each case = one generated plan: up to 5 Vgroups and 4 Vdatas, 20..90 ops by 1..2 clients with up to 3 "
               "handles each (several handles on one Vgroup allowed): create, rename/reclass with lengths around and "
               "beyond 64, add by tag/ref (duplicates allowed), insert by handle, delete member, delete objects, "
               "detach/re-attach, lookups and enumerations, restarts; member counts cross 64/128; oracle = graph model; "
               "non-trivial = >= 2 ops and >= 1 comparison";
    }
    std::vector<std::string> assumptions() const override
    {
        return {"Vdelete/VSdelete only on objects that are not attached", "members naming deleted objects stay in the member lists (the library documents that it does not clean them up)"};
    }
    std::vector<std::string> required_probes() const override
    {
        return {"members>64", "name>64", "duplicate-member", "insert-vgroup", "insert-vdata", "delete-member", "delete-vgroup",
                "delete-vdata", "two-handles-same-vgroup", "restart", "lone-checked", "rename-shrink-by-1", "insert-foreign-refused", "getnext-checked", "name>65535-refused"};
    }

    Plan generate(Rng &rng, bool thorough, uint64_t) override
    {
        Plan p;
        p.seed             = rng.next();
        Rng kr             = rng.sub(1);
        p.knobs["clients"] = kr.range(1, MAXCLIENT);
        p.knobs["ndds"]    = kr.chance(0.5) ? kr.range(2, 8) : 16;
        Rng   r = rng.sub(2);
        Sched sc(r, (int)p.knobs["clients"]);
        int   nops = (int)r.range(20, thorough ? 140 : 90), nvg = (int)r.range(1, NVG), nvs = (int)r.range(1, NVS);
        auto  nlen = [&]() -> int64_t {
            switch (r.below(5)) {
                case 0:
                    return r.range(62, 66);
                case 1:
                    return r.range(100, 300);
                default:
                    return r.range(4, 20);
            }
        };
        p.ops.push_back(mkop(0, "vgcreate", {0, 0, nlen(), nlen(), (int64_t)r.below(1000)}));
        static const std::vector<int> w     = {/*vgcreate*/ 5, /*attach*/ 10, /*detach*/ 9, /*setname*/ 6, /*setclass*/ 3, /*addtagref*/ 22,
                                               /*insert*/ 6,   /*deltagref*/ 7, /*vgdelete*/ 2, /*vscreate*/ 5, /*vsdelete*/ 2,
                                               /*observe*/ 10, /*lookup*/ 8,   /*restart*/ 3,  /*addmany*/ 2};
        static const char            *names[] = {"vgcreate", "attach", "detach", "setname", "setclass", "addtagref", "insert", "deltagref",
                                                 "vgdelete", "vscreate", "vsdelete", "observe", "lookup", "restart", "addmany"};
        for (int i = 0; i < nops; i++) {
            int     c = sc.next(r);
            int     k = r.weighted(w);
            int64_t g = (int64_t)r.below((uint64_t)nvg), sl = (int64_t)r.below(NSLOT), v = (int64_t)r.below((uint64_t)nvs);
            switch (k) {
                case 0:
                    p.ops.push_back(mkop(c, names[k], {g, sl, nlen(), nlen(), (int64_t)r.below(1000)}));
                    break;
                case 1:
                    p.ops.push_back(mkop(c, names[k], {sl, g, r.chance(0.7) ? 1 : 0}));
                    break;
                case 2:
                case 11:
                    p.ops.push_back(mkop(c, names[k], {sl}));
                    break;
                case 3:
                case 4: // new length: absolute, or relative to the current one (-1: shrink by exactly one)
                    p.ops.push_back(mkop(c, names[k], {sl, r.chance(0.04) ? 65536 + (int64_t)r.below(5000) : r.chance(0.3) ? -1 : nlen(), (int64_t)r.below(1000)}));
                    break;
                case 5: // kind: 0 plain tag/ref, 1 a vdata, 2 a vgroup, 3 duplicate of an existing member
                    p.ops.push_back(mkop(c, names[k], {sl, (int64_t)r.below(4), (int64_t)r.below(6), (int64_t)r.below(8)}));
                    break;
                case 6: // what: 0 a vdata, 1 a vgroup, 2 handles of objects of ANOTHER file (must be refused)
                    p.ops.push_back(mkop(c, names[k], {sl, (int64_t)r.below(3), (int64_t)r.below(6)}));
                    break;
                case 7:
                    p.ops.push_back(mkop(c, names[k], {sl, r.chance(0.15) ? -1 : (int64_t)r.below(200)}));
                    break;
                case 8:
                    p.ops.push_back(mkop(c, names[k], {g}));
                    break;
                case 9:
                case 10:
                    p.ops.push_back(mkop(c, names[k], {v, (int64_t)r.below(1000)}));
                    break;
                case 12:
                case 13:
                    p.ops.push_back(mkop(c, names[k], {}));
                    break;
                case 14:
                    p.ops.push_back(mkop(c, names[k], {sl, r.range(50, 80)}));
                    break;
            }
        }
        p.ops.push_back(mkop(0, "restart", {}));
        return p;
    }

    struct S {
        Ctx  &ctx;
        MVg   g[NVG];
        MVs   v[NVS];
        Slot  sl[MAXCLIENT][NSLOT];
        int32 fid = FAIL;
        bool  on_disk = false;
        explicit S(Ctx &c) : ctx(c) {}
    };
    const std::string path = "/sim/vg.hdf";

    int attached(S &s, int g)
    {
        int n = 0;
        for (int c = 0; c < MAXCLIENT; c++)
            for (int k = 0; k < NSLOT; k++)
                if (s.sl[c][k].live && s.sl[c][k].g == g)
                    n++;
        return n;
    }
    void open_file(S &s, int ndds)
    {
        s.fid = Hopen(path.c_str(), s.on_disk ? DFACC_RDWR : DFACC_CREATE, (int16)ndds);
        if (s.fid == FAIL || Vstart(s.fid) == FAIL)
            s.ctx.fail("open-failed", "open-failed", "Hopen/Vstart failed");
        s.on_disk = true;
    }
    void detach(S &s, int c, int k)
    {
        Slot &sl = s.sl[c][k];
        if (!sl.live)
            return;
        if (Vdetach(sl.vkey) == FAIL)
            s.ctx.fail("detach-failed", "detach-failed", strf("Vdetach(vg%d) failed", sl.g));
        sl.live = false;
    }

    void observe(S &s, int32 vkey, const MVg &m, const char *when)
    {
        Ctx &ctx = s.ctx;
        ctx.st.checks++;
        int32 n = Vntagrefs(vkey);
        ctx.tr((uint64_t)n);
        if (n != (int32)m.mem.size())
            ctx.fail("member-mismatch", "member-mismatch:count",
                     strf("vgroup ref %d: Vntagrefs = %d, model %zu (%s)", (int)m.ref, (int)n, m.mem.size(), when));
        // Vgettagrefs with a smaller, an equal and a larger array
        for (int32 asz : {(int32)std::max<size_t>(1, m.mem.size() / 2), (int32)m.mem.size(), (int32)m.mem.size() + 5}) {
            if (asz <= 0)
                continue;
            std::vector<int32> tags((size_t)asz + 2, -77), refs((size_t)asz + 2, -77);
            int32              got = Vgettagrefs(vkey, tags.data(), refs.data(), asz);
            int32              exp = std::min<int32>(asz, (int32)m.mem.size());
            if (got != exp)
                ctx.fail("member-mismatch", "member-mismatch:gettagrefs-count",
                         strf("Vgettagrefs(array of %d) returned %d, model %d (%s)", (int)asz, (int)got, (int)exp, when));
            for (int32 j = 0; j < exp; j++)
                if (tags[(size_t)j] != m.mem[(size_t)j].first || refs[(size_t)j] != m.mem[(size_t)j].second)
                    ctx.fail("member-mismatch", "member-mismatch:order",
                             strf("vgroup ref %d member %d is %d/%d, model %d/%d (%s)", (int)m.ref, (int)j, (int)tags[(size_t)j],
                                  (int)refs[(size_t)j], (int)m.mem[(size_t)j].first, (int)m.mem[(size_t)j].second, when));
            if (tags[(size_t)asz] != -77 || refs[(size_t)asz] != -77)
                ctx.fail("buffer-overrun", "buffer-overrun:gettagrefs", "Vgettagrefs wrote beyond the array size it was given");
        }
        if (!m.mem.empty()) {
            int32 which = (int32)(m.mem.size() - 1), t = 0, r = 0;
            if (Vgettagref(vkey, which, &t, &r) == FAIL || t != m.mem[(size_t)which].first || r != m.mem[(size_t)which].second)
                ctx.fail("member-mismatch", "member-mismatch:gettagref", strf("Vgettagref(last) does not return the last member (%s)", when));
        }
        // membership predicates and per-tag counts
        std::set<int32> tagset;
        for (auto &tr : m.mem)
            tagset.insert(tr.first);
        for (int32 t : tagset) {
            int32 cnt = 0;
            for (auto &tr : m.mem)
                cnt += tr.first == t;
            if (Vnrefs(vkey, t) != cnt)
                ctx.fail("member-mismatch", "member-mismatch:nrefs", strf("Vnrefs(tag %d) = %d, model %d (%s)", (int)t, (int)Vnrefs(vkey, t), (int)cnt, when));
        }
        for (auto &tr : m.mem)
            if (Vinqtagref(vkey, tr.first, tr.second) != TRUE)
                ctx.fail("member-mismatch", "member-mismatch:inqtagref", strf("Vinqtagref(%d/%d) is false for a member (%s)", (int)tr.first, (int)tr.second, when));
        if (Vinqtagref(vkey, 8699, 4242) != FALSE)
            ctx.fail("member-mismatch", "member-mismatch:inqtagref-ghost", "Vinqtagref is true for a pair that was never added");
        // name and class
        uint16 nl = 0, cl = 0;
        Vgetnamelen(vkey, &nl);
        Vgetclassnamelen(vkey, &cl);
        std::vector<char> nb((size_t)nl + 8, 0), cb((size_t)cl + 8, 0);
        if (Vgetname(vkey, nb.data()) == FAIL || Vgetclass(vkey, cb.data()) == FAIL)
            ctx.fail("name-mismatch", "name-mismatch:get-failed", strf("Vgetname/Vgetclass failed (%s)", when));
        if (m.name != nb.data() || m.cls != cb.data())
            ctx.fail("name-mismatch", "name-mismatch",
                     strf("vgroup ref %d: name '%.40s' (%d) class '%.40s' (%d); model name '%.40s' (%zu) class '%.40s' (%zu) (%s)", (int)m.ref,
                          nb.data(), (int)nl, cb.data(), (int)cl, m.name.c_str(), m.name.size(), m.cls.c_str(), m.cls.size(), when));
        ctx.trb(nb.data(), strlen(nb.data()));
        // Vgetnext walks the VG/VH members in order
        std::vector<int32> sub;
        for (auto &tr : m.mem)
            if (tr.first == DFTAG_VG || tr.first == DFTAG_VH)
                sub.push_back(tr.second);
        (void)sub;
        {
            // Vgetnext(id): the member after the first VG/VH member with that ref, if that one is a VG/VH member too;
            // -1 asks for the first member.  Members of other tags may carry the same reference numbers.
            auto vset = [](const TR &t) { return t.first == DFTAG_VG || t.first == DFTAG_VH; };
            auto want = [&](int32 id) -> int32 {
                if (m.mem.empty())
                    return FAIL;
                if (id == -1 && vset(m.mem[0]))
                    return m.mem[0].second;
                for (size_t u = 0; u < m.mem.size(); u++)
                    if (vset(m.mem[u]) && (uint16)m.mem[u].second == (uint16)id)
                        return u + 1 < m.mem.size() && vset(m.mem[u + 1]) ? m.mem[u + 1].second : FAIL;
                return FAIL;
            };
            std::set<int32> ids = {-1};
            for (auto &tr : m.mem)
                ids.insert(tr.second);
            int tried = 0;
            for (int32 id : ids) {
                if (++tried > 40)
                    break;
                int32 got = Vgetnext(vkey, id), exp = want(id);
                if (got != exp)
                    ctx.fail("member-mismatch", "member-mismatch:getnext", strf("Vgetnext(%d) = %d, the member list says %d (%s)", (int)id, (int)got, (int)exp, when));
            }
            ctx.probe("getnext-checked");
        }
        {
            // Vgetvgroups on a vgroup: the sub-vgroups it counts, in member order; a window (start, n) is that part of the
            // whole list, and the count form agrees with it
            uint16 all[64], win[64];
            intn   na = Vgetvgroups(vkey, 0, 64, all);
            if (na == FAIL)
                ctx.fail("member-mismatch", "member-mismatch:getvgroups", strf("Vgetvgroups(vgroup %d, 0, 64) failed (%s)", (int)m.ref, when));
            size_t pos = 0; // the list is a subsequence of the vgroup members
            for (intn q = 0; q < na && q < 64; q++) {
                while (pos < m.mem.size() && !(m.mem[pos].first == DFTAG_VG && (uint16)m.mem[pos].second == all[q]))
                    pos++;
                if (pos++ >= m.mem.size())
                    ctx.fail("member-mismatch", "member-mismatch:getvgroups", strf("Vgetvgroups(vgroup %d) lists %u, which is not the next vgroup member (%s)", (int)m.ref, all[q], when));
            }
            for (intn st = 0; st <= na && st < 64; st++) {
                intn cnt = Vgetvgroups(vkey, (uintn)st, 0, NULL);
                if (cnt != na - st)
                    ctx.fail("member-mismatch", "member-mismatch:getvgroups-count", strf("Vgetvgroups(vgroup %d, start %d) counts %d, the whole list has %d (%s)", (int)m.ref, (int)st, (int)cnt, (int)na, when));
                if (st == na)
                    break;
                intn want_n = st % 2 ? 1 : 64;
                intn got    = Vgetvgroups(vkey, (uintn)st, (uintn)want_n, win);
                intn exp    = std::min<intn>(want_n, na - st);
                if (got != exp || memcmp(win, all + st, (size_t)exp * sizeof(uint16)) != 0)
                    ctx.fail("member-mismatch", "member-mismatch:getvgroups-window",
                             strf("Vgetvgroups(vgroup %d, start %d, n %d) returns %d entries beginning with %u; entries %d.. of the whole list begin with %u (%s)", (int)m.ref, (int)st,
                                  (int)want_n, (int)got, got > 0 ? win[0] : 0, (int)st, all[st], when));
                if (st > 0)
                    ctx.probe("getvgroups-window");
            }
        }
        for (auto &tr : m.mem) {
            if (tr.first == DFTAG_VG && Visvg(vkey, tr.second) != TRUE)
                ctx.fail("member-mismatch", "member-mismatch:isvg", strf("Visvg(%d) is false for a vgroup member (%s)", (int)tr.second, when));
            if (tr.first == DFTAG_VH && Visvs(vkey, tr.second) != TRUE)
                ctx.fail("member-mismatch", "member-mismatch:isvs", strf("Visvs(%d) is false for a vdata member (%s)", (int)tr.second, when));
        }
    }

    void lookups(S &s, int32 f, const char *when)
    {
        Ctx &ctx = s.ctx;
        ctx.st.checks++;
        // set of vgroups through Vgetid
        std::set<int32> have, want;
        int32           id = -1;
        int             guard = 0;
        while ((id = Vgetid(f, id)) != FAIL) {
            if (++guard > 100000)
                ctx.fail("iteration-loop", "iteration-loop", "Vgetid does not terminate");
            if (!have.insert(id).second)
                ctx.fail("iteration-duplicate", "iteration-duplicate:getid", strf("Vgetid returned ref %d twice (%s)", (int)id, when));
        }
        for (int g = 0; g < NVG; g++)
            if (s.g[g].exists)
                want.insert(s.g[g].ref);
        if (have != want)
            ctx.fail("set-mismatch", "set-mismatch:vgroups",
                     strf("Vgetid enumerates %zu vgroups, model has %zu (%s)", have.size(), want.size(), when));
        // lone vgroups / vdatas
        std::set<int32> linked_vg, linked_vs;
        for (int g = 0; g < NVG; g++)
            if (s.g[g].exists)
                for (auto &tr : s.g[g].mem) {
                    if (tr.first == DFTAG_VG)
                        linked_vg.insert(tr.second);
                    if (tr.first == DFTAG_VH)
                        linked_vs.insert(tr.second);
                }
        std::set<int32> lone_vg, lone_vs;
        for (int g = 0; g < NVG; g++)
            if (s.g[g].exists && !linked_vg.count(s.g[g].ref))
                lone_vg.insert(s.g[g].ref);
        for (int v = 0; v < NVS; v++)
            if (s.v[v].exists && !linked_vs.count(s.v[v].ref))
                lone_vs.insert(s.v[v].ref);
        int32              ids[64];
        int32              n = Vlone(f, ids, 64);
        std::set<int32>    got(ids, ids + std::max<int32>(0, std::min<int32>(n, 64)));
        if (n != (int32)lone_vg.size() || got != lone_vg)
            ctx.fail("set-mismatch", "set-mismatch:vlone", strf("Vlone reports %d lone vgroups, model %zu (%s)", (int)n, lone_vg.size(), when));
        n   = VSlone(f, ids, 64);
        got = std::set<int32>(ids, ids + std::max<int32>(0, std::min<int32>(n, 64)));
        if (n != (int32)lone_vs.size() || got != lone_vs)
            ctx.fail("set-mismatch", "set-mismatch:vslone", strf("VSlone reports %d lone vdatas, model %zu (%s)", (int)n, lone_vs.size(), when));
        ctx.probe("lone-checked");
        // lookups by name / class
        for (int g = 0; g < NVG; g++)
            if (s.g[g].exists) {
                int32 r    = Vfind(f, s.g[g].name.c_str());
                int32 best = 0;
                for (int q = 0; q < NVG; q++)
                    if (s.g[q].exists && s.g[q].name == s.g[g].name && (best == 0 || s.g[q].ref < best))
                        best = s.g[q].ref;
                bool ok = false;
                for (int q = 0; q < NVG; q++)
                    ok |= s.g[q].exists && s.g[q].name == s.g[g].name && s.g[q].ref == r;
                if (!ok)
                    ctx.fail("lookup-mismatch", "lookup-mismatch:vfind",
                             strf("Vfind('%.40s'...) = %d, which is not a vgroup of that name (model: ref %d) (%s)", s.g[g].name.c_str(), (int)r, (int)best, when));
                int32 rc = Vfindclass(f, s.g[g].cls.c_str());
                ok       = false;
                for (int q = 0; q < NVG; q++)
                    ok |= s.g[q].exists && s.g[q].cls == s.g[g].cls && s.g[q].ref == rc;
                if (!ok && !s.g[g].cls.empty())
                    ctx.fail("lookup-mismatch", "lookup-mismatch:vfindclass", strf("Vfindclass('%.40s') = %d, not a vgroup of that class (%s)", s.g[g].cls.c_str(), (int)rc, when));
                // a name that agrees on the first 64 bytes only must not be found
                if (s.g[g].name.size() > 70) {
                    std::string other = s.g[g].name;
                    other[other.size() - 1] = other[other.size() - 1] == 'Z' ? 'Y' : 'Z';
                    bool exists = false;
                    for (int q = 0; q < NVG; q++)
                        exists |= s.g[q].exists && s.g[q].name == other;
                    if (!exists && Vfind(f, other.c_str()) != 0)
                        ctx.fail("lookup-mismatch", "lookup-mismatch:vfind-prefix", strf("Vfind finds a vgroup for a name that differs after byte 64 (%s)", when));
                }
            }
        if (Vfind(f, "no-such-vgroup-name") != 0)
            ctx.fail("lookup-mismatch", "lookup-mismatch:vfind-ghost", "Vfind finds a name that does not exist");
        for (int v = 0; v < NVS; v++) {
            int32 r = VSfind(f, strf("vs%d", v).c_str());
            if (s.v[v].exists ? r != s.v[v].ref : r != 0)
                ctx.fail("lookup-mismatch", "lookup-mismatch:vsfind",
                         strf("VSfind(vs%d) = %d, model %d (%s)", v, (int)r, s.v[v].exists ? (int)s.v[v].ref : 0, when));
        }
        // Vgetvgroups / VSgetvdatas at file level
        uint16 refs[64];
        intn   ng = Vgetvgroups(f, 0, 64, refs);
        std::set<int32> gv;
        for (intn j = 0; j < ng && j < 64; j++)
            gv.insert(refs[j]);
        if (ng != (intn)want.size() || gv != want)
            ctx.fail("set-mismatch", "set-mismatch:getvgroups", strf("Vgetvgroups(file) returns %d vgroups, model %zu (%s)", (int)ng, want.size(), when));
        intn            nv = VSgetvdatas(f, 0, 64, refs);
        std::set<int32> sv, wv;
        for (intn j = 0; j < nv && j < 64; j++)
            sv.insert(refs[j]);
        for (int v = 0; v < NVS; v++)
            if (s.v[v].exists)
                wv.insert(s.v[v].ref);
        if (nv != (intn)wv.size() || sv != wv)
            ctx.fail("set-mismatch", "set-mismatch:getvdatas", strf("VSgetvdatas(file) returns %d vdatas, model %zu (%s)", (int)nv, wv.size(), when));
    }

    void execute(Ctx &ctx) override
    {
        S           s(ctx);
        const Plan &p    = ctx.plan;
        int         ncl  = (int)std::min<int64_t>(MAXCLIENT, std::max<int64_t>(1, p.knob("clients", 1)));
        int         ndds = (int)p.knob("ndds", 16);
        for (size_t i = 0; i < p.ops.size(); i++) {
            const Op &o = p.ops[i];
            ctx.begin_op((int)i);
            int                c = modn(o.client, ncl);
            const std::string &k = o.kind;
            bool               done = true;
            if (s.fid == FAIL && k != "restart")
                open_file(s, ndds);
            Slot *sl = nullptr;
            if (k == "detach" || k == "setname" || k == "setclass" || k == "addtagref" || k == "insert" || k == "deltagref" || k == "observe" ||
                k == "addmany") {
                sl = &s.sl[c][modn(o.arg(0), NSLOT)];
                if (!sl->live) {
                    ctx.st.ops_skipped++;
                    continue;
                }
            }
            if (k == "vgcreate") {
                int   g  = modn(o.arg(0), NVG);
                Slot &ns = s.sl[c][modn(o.arg(1), NSLOT)];
                if (s.g[g].exists || ns.live)
                    done = false;
                else {
                    int32 vk = Vattach(s.fid, -1, "w");
                    if (vk == FAIL)
                        ctx.fail("attach-refused", "attach-refused:new", "Vattach(-1, w) failed");
                    MVg &m  = s.g[g];
                    m       = MVg();
                    m.exists = true;
                    m.name  = mkname("vg", g, std::max<int64_t>(3, o.arg(2)), o.arg(4));
                    m.cls   = mkname("cl", g % 2, std::max<int64_t>(3, o.arg(3)), o.arg(4) + 1);
                    if (Vsetname(vk, m.name.c_str()) == FAIL || Vsetclass(vk, m.cls.c_str()) == FAIL)
                        ctx.fail("setname-refused", "setname-refused:new", "Vsetname/Vsetclass on a new vgroup failed");
                    m.ref   = VQueryref(vk);
                    if (m.name.size() > 64)
                        ctx.probe("name>64");
                    ns.live = true;
                    ns.vkey = vk;
                    ns.g    = g;
                    ns.wr   = true;
                }
            }
            else if (k == "attach") {
                Slot &ns = s.sl[c][modn(o.arg(0), NSLOT)];
                int   g  = modn(o.arg(1), NVG);
                if (ns.live || !s.g[g].exists)
                    done = false;
                else {
                    bool  wr = o.arg(2) != 0;
                    int32 vk = Vattach(s.fid, s.g[g].ref, wr ? "w" : "r");
                    ctx.tr((uint64_t)(vk != FAIL));
                    if (vk == FAIL)
                        ctx.fail("attach-refused", "attach-refused", strf("Vattach(vg%d ref %d, %s) failed", g, (int)s.g[g].ref, wr ? "w" : "r"));
                    if (attached(s, g) >= 1)
                        ctx.probe("two-handles-same-vgroup");
                    ns.live = true;
                    ns.vkey = vk;
                    ns.g    = g;
                    ns.wr   = wr;
                    // a write attach raises the access of the shared vgroup for every handle on it
                    if (wr)
                        for (int cc = 0; cc < MAXCLIENT; cc++)
                            for (int kk = 0; kk < NSLOT; kk++)
                                if (s.sl[cc][kk].live && s.sl[cc][kk].g == g)
                                    s.sl[cc][kk].wr = true;
                    else
                        for (int cc = 0; cc < MAXCLIENT; cc++)
                            for (int kk = 0; kk < NSLOT; kk++)
                                if (s.sl[cc][kk].live && s.sl[cc][kk].g == g && s.sl[cc][kk].wr)
                                    ns.wr = true;
                    observe(s, vk, s.g[g], "right after attach");
                }
            }
            else if (k == "detach")
                detach(s, c, modn(o.arg(0), NSLOT));
            else if (k == "setname" || k == "setclass") {
                MVg &m = s.g[sl->g];
                if (!sl->wr)
                    done = false;
                else {
                    bool         isname = k == "setname";
                    std::string &cur    = isname ? m.name : m.cls;
                    int64_t      len    = o.arg(1) < 0 ? (int64_t)cur.size() - 1 : o.arg(1);
                    if (len < 4)
                        len = 4;
                    if (o.arg(1) < 0)
                        ctx.probe("rename-shrink-by-1");
                    std::string nn = mkname(isname ? "vg" : "cl", isname ? sl->g : sl->g % 2, len, o.arg(2));
                    if (len > 65535) {
                        // longer than the record can say: refused, and the group keeps the name (class) it has
                        intn rr = isname ? Vsetname(sl->vkey, nn.c_str()) : Vsetclass(sl->vkey, nn.c_str());
                        if (rr != FAIL)
                            ctx.fail("setname-mismatch", "setname-mismatch:over-long-accepted", strf("%s with %zu characters is accepted", k.c_str(), nn.size()));
                        ctx.probe("name>65535-refused");
                        ctx.st.ops_done++;
                        continue;
                    }
                    intn        r  = isname ? Vsetname(sl->vkey, nn.c_str()) : Vsetclass(sl->vkey, nn.c_str());
                    if (r == FAIL)
                        ctx.fail("setname-refused", "setname-refused", strf("%s with %zu characters failed", k.c_str(), nn.size()));
                    cur = nn;
                    if (nn.size() > 64)
                        ctx.probe("name>64");
                }
            }
            else if (k == "addtagref" || k == "addmany") {
                MVg &m = s.g[sl->g];
                if (!sl->wr)
                    done = false;
                else {
                    int reps = k == "addmany" ? (int)o.arg(1) : 1;
                    for (int q = 0; q < reps; q++) {
                        int32 tag = 8600 + (int32)modn(o.arg(2) + q, 3), ref = 1 + (int32)modn(o.arg(3) + q, 200);
                        int   kind = k == "addmany" ? 0 : modn(o.arg(1), 4);
                        if (kind == 1 && s.v[modn(o.arg(2), NVS)].exists) {
                            tag = DFTAG_VH;
                            ref = s.v[modn(o.arg(2), NVS)].ref;
                        }
                        else if (kind == 2 && s.g[modn(o.arg(2), NVG)].exists && modn(o.arg(2), NVG) != sl->g) {
                            tag = DFTAG_VG;
                            ref = s.g[modn(o.arg(2), NVG)].ref;
                        }
                        else if (kind == 3 && !m.mem.empty()) {
                            tag = m.mem[(size_t)modn(o.arg(3), (int)m.mem.size())].first;
                            ref = m.mem[(size_t)modn(o.arg(3), (int)m.mem.size())].second;
                            ctx.probe("duplicate-member");
                        }
                        int32 r = Vaddtagref(sl->vkey, tag, ref);
                        if (r == FAIL)
                            ctx.fail("add-refused", "add-refused", strf("Vaddtagref(%d/%d) failed with %zu members", (int)tag, (int)ref, m.mem.size()));
                        m.mem.push_back(TR(tag, ref));
                        if (r != (int32)m.mem.size() - 1 && r != (int32)m.mem.size())
                            ctx.probe("addtagref-return-other");
                    }
                    if (m.mem.size() > 64)
                        ctx.probe("members>64");
                    if (m.mem.size() > 128)
                        ctx.probe("members>128");
                }
            }
            else if (k == "insert") {
                MVg &m = s.g[sl->g];
                if (!sl->wr)
                    done = false;
                else if (modn(o.arg(1), 3) == 2) {
                    // handles of a vgroup and a vdata that live in another file: a vgroup only has members of its own file
                    const char *other = "/sim/vg_other.hdf";
                    bool        have  = simfs::disk().count(other) != 0;
                    int32       of    = Hopen(other, have ? DFACC_RDWR : DFACC_CREATE, 0);
                    if (of == FAIL || Vstart(of) == FAIL)
                        ctx.fail("open-failed", "open-failed:other", "opening the second file failed");
                    if (!have) {
                        // same reference numbers as objects of the main file are likely: both files count from 1
                        for (int q = 0; q < 3; q++) {
                            int32 ovg = Vattach(of, -1, "w");
                            int32 v1  = q;
                            if (ovg == FAIL || Vsetname(ovg, strf("other_vg%d", q).c_str()) == FAIL || Vdetach(ovg) == FAIL ||
                                VHstoredata(of, "x", (const uint8 *)&v1, 1, DFNT_INT32, strf("other_vs%d", q).c_str(), "c") == FAIL)
                                ctx.fail("setup-failed", "setup-failed:other", "populating the second file failed");
                        }
                    }
                    int   q   = modn(o.arg(2), 3);
                    int32 ovg = Vattach(of, Vfind(of, strf("other_vg%d", q).c_str()), "r");
                    int32 ovs = VSattach(of, VSfind(of, strf("other_vs%d", q).c_str()), "r");
                    if (ovg == FAIL || ovs == FAIL)
                        ctx.fail("attach-refused", "attach-refused:other", "attaching objects of the second file failed");
                    if (Vinsert(sl->vkey, ovg) != FAIL)
                        ctx.fail("insert-mismatch", "insert-mismatch:foreign-vgroup", "Vinsert accepts the handle of a vgroup of another file");
                    if (Vinsert(sl->vkey, ovs) != FAIL)
                        ctx.fail("insert-mismatch", "insert-mismatch:foreign-vdata", "Vinsert accepts the handle of a vdata of another file");
                    if (Vdetach(ovg) == FAIL || VSdetach(ovs) == FAIL || Vend(of) == FAIL || Hclose(of) == FAIL)
                        ctx.fail("close-failed", "close-failed:other", "closing the second file failed");
                    ctx.probe("insert-foreign-refused");
                }
                else if (modn(o.arg(1), 3) == 0) { // a vdata, by handle
                    MVs &v = s.v[modn(o.arg(2), NVS)];
                    if (!v.exists)
                        done = false;
                    else {
                        int32 vs = VSattach(s.fid, v.ref, "r");
                        if (vs == FAIL)
                            ctx.fail("attach-refused", "attach-refused:vs", "VSattach for Vinsert failed");
                        bool  dup = std::find(m.mem.begin(), m.mem.end(), TR(DFTAG_VH, v.ref)) != m.mem.end();
                        int32 r   = Vinsert(sl->vkey, vs);
                        VSdetach(vs);
                        if (dup ? r != FAIL : r == FAIL)
                            ctx.fail("insert-mismatch", "insert-mismatch:vdata", strf("Vinsert(vdata) returned %d; already a member: %d", (int)r, dup));
                        if (!dup) {
                            m.mem.push_back(TR(DFTAG_VH, v.ref));
                            if (r != (int32)m.mem.size() - 1)
                                ctx.fail("insert-mismatch", "insert-mismatch:position", strf("Vinsert returned position %d, model %zu", (int)r, m.mem.size() - 1));
                            ctx.probe("insert-vdata");
                        }
                    }
                }
                else {
                    int g2 = modn(o.arg(2), NVG);
                    if (!s.g[g2].exists || g2 == sl->g)
                        done = false;
                    else {
                        int32 vk2 = Vattach(s.fid, s.g[g2].ref, "r");
                        if (vk2 == FAIL)
                            ctx.fail("attach-refused", "attach-refused:insert", "Vattach for Vinsert failed");
                        bool  dup = std::find(m.mem.begin(), m.mem.end(), TR(DFTAG_VG, s.g[g2].ref)) != m.mem.end();
                        int32 r   = Vinsert(sl->vkey, vk2);
                        Vdetach(vk2);
                        if (dup ? r != FAIL : r == FAIL)
                            ctx.fail("insert-mismatch", "insert-mismatch:vgroup", strf("Vinsert(vgroup) returned %d; already a member: %d", (int)r, dup));
                        if (!dup) {
                            m.mem.push_back(TR(DFTAG_VG, s.g[g2].ref));
                            ctx.probe("insert-vgroup");
                        }
                    }
                }
            }
            else if (k == "deltagref") {
                MVg &m = s.g[sl->g];
                if (!sl->wr)
                    done = false;
                else if (o.arg(1) < 0 || m.mem.empty()) {
                    if (Vdeletetagref(sl->vkey, 8699, 4242) != FAIL)
                        ctx.fail("delete-mismatch", "delete-mismatch:ghost", "Vdeletetagref of a pair that is not a member succeeded");
                }
                else {
                    TR tr = m.mem[(size_t)modn(o.arg(1), (int)m.mem.size())];
                    if (Vdeletetagref(sl->vkey, tr.first, tr.second) == FAIL)
                        ctx.fail("delete-mismatch", "delete-mismatch", strf("Vdeletetagref(%d/%d) of a member failed", (int)tr.first, (int)tr.second));
                    m.mem.erase(std::find(m.mem.begin(), m.mem.end(), tr)); // the first occurrence goes
                    ctx.probe("delete-member");
                }
            }
            else if (k == "vgdelete") {
                int g = modn(o.arg(0), NVG);
                if (!s.g[g].exists || attached(s, g))
                    done = false;
                else {
                    if (Vdelete(s.fid, s.g[g].ref) == FAIL)
                        ctx.fail("delete-mismatch", "delete-mismatch:vgroup", strf("Vdelete(vg%d) failed", g));
                    s.g[g] = MVg();
                    ctx.probe("delete-vgroup");
                }
            }
            else if (k == "vscreate") {
                int v = modn(o.arg(0), NVS);
                if (s.v[v].exists)
                    done = false;
                else {
                    int32 vals[3] = {(int32)o.arg(1), 2, 3};
                    int32 ref     = VHstoredata(s.fid, "val", (const uint8 *)vals, 3, DFNT_INT32, strf("vs%d", v).c_str(), "vcls");
                    if (ref == FAIL)
                        ctx.fail("create-refused", "create-refused:vdata", "VHstoredata failed");
                    s.v[v].exists = true;
                    s.v[v].ref    = ref;
                }
            }
            else if (k == "vsdelete") {
                int v = modn(o.arg(0), NVS);
                if (!s.v[v].exists)
                    done = false;
                else {
                    if (VSdelete(s.fid, s.v[v].ref) == FAIL)
                        ctx.fail("delete-mismatch", "delete-mismatch:vdata", strf("VSdelete(vs%d) failed", v));
                    s.v[v] = MVs();
                    ctx.probe("delete-vdata");
                }
            }
            else if (k == "observe")
                observe(s, sl->vkey, s.g[sl->g], "through an open handle");
            else if (k == "lookup")
                lookups(s, s.fid, "in session");
            else if (k == "restart") {
                if (s.fid != FAIL) {
                    for (int cc = 0; cc < MAXCLIENT; cc++)
                        for (int kk = 0; kk < NSLOT; kk++)
                            detach(s, cc, kk);
                    if (Vend(s.fid) == FAIL || Hclose(s.fid) == FAIL)
                        ctx.fail("close-failed", "close-failed", strf("Vend/Hclose failed: %s", HEstring((hdf_err_code_t)HEvalue(1))));
                    s.fid = FAIL;
                }
                ctx.probe("restart");
                if (s.on_disk) {
                    int32 f = Hopen(path.c_str(), DFACC_READ, 0);
                    if (f == FAIL || Vstart(f) == FAIL)
                        ctx.fail("reopen-failed", "reopen-failed", "Hopen(READ)/Vstart after clean close failed");
                    lookups(s, f, "after reopen");
                    for (int g = 0; g < NVG; g++)
                        if (s.g[g].exists) {
                            int32 vk = Vattach(f, s.g[g].ref, "r");
                            if (vk == FAIL)
                                ctx.fail("attach-refused", "attach-refused:reopen", strf("Vattach(vg%d ref %d) after reopen failed", g, (int)s.g[g].ref));
                            observe(s, vk, s.g[g], "after reopen");
                            Vdetach(vk);
                        }
                    if (Vend(f) == FAIL || Hclose(f) == FAIL)
                        ctx.fail("close-failed", "close-failed:verify", "Vend/Hclose after verification failed");
                }
            }
            else
                done = false;
            if (done) {
                ctx.st.ops_done++;
                uint64_t h = 1469598103934665603ULL;
                for (int g = 0; g < NVG; g++)
                    if (s.g[g].exists) {
                        h = fnv64i(((uint64_t)g << 32) | s.g[g].mem.size(), h);
                        h = fnv64i(s.g[g].name.size() * 1000 + s.g[g].cls.size(), h);
                    }
                for (int v = 0; v < NVS; v++)
                    h = fnv64i((uint64_t)s.v[v].exists, h);
                ctx.state(h);
            }
            else
                ctx.st.ops_skipped++;
        }
    }
};

Registrar reg(new VGroupP);

} // namespace
} // namespace h4
