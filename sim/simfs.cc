// simfs.cc -- simulated stdio under /sim/.  See simfs.h and DESIGN.md section 2.1.
#include "simfs.h"
#include "util.h"
#include <cerrno>
#include <cstdarg>
#include <cstdio>
#include <cstdlib>
#include <cstring>
#include <cstdint>
#include <sys/resource.h>
#include <sys/stat.h>
#include <unordered_map>
#include <unordered_set>

extern "C" {
FILE  *__real_fopen(const char *, const char *);
int    __real_fclose(FILE *);
size_t __real_fread(void *, size_t, size_t, FILE *);
size_t __real_fwrite(const void *, size_t, size_t, FILE *);
int    __real_fseek(FILE *, long, int);
long   __real_ftell(FILE *);
int    __real_fflush(FILE *);
int    __real_stat(const char *, struct stat *);
int    __real_remove(const char *);
int    __real_rename(const char *, const char *);
int    __real_getrlimit(int, struct rlimit *);
char  *__real_getenv(const char *);
}

#include <execinfo.h>
extern "C" void __sanitizer_print_stack_trace(void);
extern "C" void __sanitizer_symbolize_pc(void *pc, const char *fmt, char *out_buf, size_t out_buf_size);

namespace simfs {

static const char *kEvNames[] = {"open", "close", "read", "write", "seek", "tell",
                                 "flush", "stat", "remove", "rename", "writeout"};
const char *evkind_name(int k) { return (k >= 0 && k < EV_NKINDS) ? kEvNames[k] : "?"; }
static const char *kFaultNames[] = {"none", "eio", "short", "enospc", "sticky", "openfail"};
const char *fault_name(int k) { return (k >= 0 && k < F_NKINDS) ? kFaultNames[k] : "?"; }

// ------------------------------------------------------------------ file data
void FileData::write(int64_t off, const uint8_t *p, int64_t n)
{
    if (n <= 0)
        return;
    if (off + n > len)
        len = off + n;
    while (n > 0) {
        int64_t pg = off / PAGE, po = off % PAGE, k = PAGE - po;
        if (k > n)
            k = n;
        auto it = pages.find(pg);
        if (it == pages.end())
            it = pages.emplace(pg, std::vector<uint8_t>((size_t)PAGE, 0)).first;
        memcpy(it->second.data() + po, p, (size_t)k);
        p += k;
        off += k;
        n -= k;
    }
}
void FileData::read(int64_t off, uint8_t *p, int64_t n) const
{
    while (n > 0) {
        int64_t pg = off / PAGE, po = off % PAGE, k = PAGE - po;
        if (k > n)
            k = n;
        auto it = pages.find(pg);
        if (it == pages.end())
            memset(p, 0, (size_t)k);
        else
            memcpy(p, it->second.data() + po, (size_t)k);
        p += k;
        off += k;
        n -= k;
    }
}
void FileData::truncate0()
{
    pages.clear();
    len = 0;
}
uint64_t FileData::hash() const
{
    uint64_t h = h4::fnv64i((uint64_t)len, 1469598103934665603ULL);
    static const std::vector<uint8_t> zero((size_t)PAGE, 0);
    for (auto &kv : pages) {
        int64_t base = kv.first * PAGE;
        if (base >= len)
            break;
        int64_t n = len - base < PAGE ? len - base : PAGE;
        if (memcmp(kv.second.data(), zero.data(), (size_t)n) == 0)
            continue; // an all-zero page is the same as an absent one
        h = h4::fnv64i((uint64_t)kv.first, h);
        h = h4::fnv64(kv.second.data(), (size_t)n, h);
    }
    return h;
}

// ------------------------------------------------------------------ state
struct Stream {
    std::shared_ptr<FileData> f;
    std::string               path;
    int                       id;
    int64_t                   pos = 0;
    bool                      rd = false, wr = false, err = false, eof = false, sticky = false, closed = false;
    // buffered mode
    bool                 buffered = false;
    int                  bufsize  = 0;
    int64_t              wb_off   = 0;
    std::vector<uint8_t> wb;
};

static Disk                                g_disk;
static std::unordered_map<FILE *, Stream *> g_live;
static std::unordered_set<FILE *>          g_dead;
static std::vector<Stream *>               g_all;
static std::map<std::string, int>          g_fileids;
static std::vector<Event>                  g_events;
static std::vector<WriteRec>               g_wlog;
static bool                                g_wlog_sites = false;
static std::vector<Fault>                  g_faults;
static std::vector<std::string>            g_mut, g_misuse;
static std::map<std::string, std::string>  g_env;
static bool     g_trace = false;
static std::string g_fault_site;
static bool     g_keep_events = true, g_keep_wlog = false, g_buffered = false, g_enospc = false;
static int      g_bufsize = 4096, g_op = -1, g_ord = 0, g_nstreams = 0;
static uint32_t g_seq   = 0;
static uint64_t g_evhash = 1469598103934665603ULL;
static uint64_t g_kindc[EV_NKINDS], g_faultc[F_NKINDS];
static long     g_nofile = 1024;

static bool is_sim(const char *p) { return p && strncmp(p, "/sim/", 5) == 0; }
static int  file_id(const std::string &p)
{
    auto it = g_fileids.find(p);
    if (it != g_fileids.end())
        return it->second;
    int id        = (int)g_fileids.size();
    g_fileids[p] = id;
    return id;
}

Disk &disk() { return g_disk; }
Disk  disk_clone()
{
    Disk d;
    for (auto &kv : g_disk)
        d[kv.first] = std::make_shared<FileData>(*kv.second);
    return d;
}
void disk_restore(const Disk &d)
{
    g_disk.clear();
    for (auto &kv : d)
        g_disk[kv.first] = std::make_shared<FileData>(*kv.second);
}
void disk_apply(Disk &d, const WriteRec &w)
{
    switch (w.kind) {
        case 0: {
            auto &f = d[w.path];
            if (!f)
                f = std::make_shared<FileData>();
            f->write(w.off, w.data.data(), (int64_t)w.data.size());
            break;
        }
        case 1: {
            auto &f = d[w.path];
            if (!f)
                f = std::make_shared<FileData>();
            f->truncate0();
            break;
        }
        case 2:
            d.erase(w.path);
            break;
        case 3: {
            auto it = d.find(w.path);
            if (it != d.end()) {
                d[w.path2] = it->second;
                d.erase(w.path);
            }
            break;
        }
    }
}
uint64_t disk_hash(const Disk &d)
{
    uint64_t h = 1469598103934665603ULL;
    for (auto &kv : d) {
        h = h4::fnv64s(kv.first, h);
        h = h4::fnv64i(kv.second->hash(), h);
    }
    return h;
}
std::vector<uint8_t> file_bytes(const Disk &d, const std::string &path, int64_t maxlen)
{
    std::vector<uint8_t> v;
    auto                 it = d.find(path);
    if (it == d.end())
        return v;
    int64_t n = it->second->len < maxlen ? it->second->len : maxlen;
    v.resize((size_t)n);
    it->second->read(0, v.data(), n);
    return v;
}
std::string wlog_serialize(const std::vector<WriteRec> &w)
{
    std::string s;
    auto        put64 = [&](int64_t v) { s.append((const char *)&v, 8); };
    auto        puts  = [&](const std::string &x) {
        put64((int64_t)x.size());
        s += x;
    };
    put64((int64_t)w.size());
    for (auto &r : w) {
        put64(r.kind);
        puts(r.path);
        puts(r.path2);
        put64(r.off);
        put64(r.op);
        put64(r.evseq);
        put64((int64_t)r.data.size());
        s.append((const char *)r.data.data(), r.data.size());
    }
    return s;
}
std::vector<WriteRec> wlog_deserialize(const std::string &s)
{
    std::vector<WriteRec> w;
    size_t                p     = 0;
    auto                  get64 = [&]() {
        int64_t v = 0;
        if (p + 8 <= s.size())
            memcpy(&v, s.data() + p, 8);
        p += 8;
        return v;
    };
    auto gets = [&]() {
        int64_t     n = get64();
        std::string x;
        if (n >= 0 && p + (size_t)n <= s.size())
            x.assign(s.data() + p, (size_t)n);
        p += (size_t)n;
        return x;
    };
    int64_t n = get64();
    for (int64_t i = 0; i < n && p < s.size(); i++) {
        WriteRec r;
        r.kind  = (int)get64();
        r.path  = gets();
        r.path2 = gets();
        r.off   = get64();
        r.op    = (int)get64();
        r.evseq = (uint32_t)get64();
        int64_t dn = get64();
        if (dn >= 0 && p + (size_t)dn <= s.size())
            r.data.assign((const uint8_t *)s.data() + p, (const uint8_t *)s.data() + p + dn);
        p += (size_t)dn;
        w.push_back(std::move(r));
    }
    return w;
}
std::string disk_serialize(const Disk &d)
{
    std::string s;
    auto        put64 = [&](int64_t v) { s.append((const char *)&v, 8); };
    put64((int64_t)d.size());
    for (auto &kv : d) {
        put64((int64_t)kv.first.size());
        s += kv.first;
        put64(kv.second->len);
        put64((int64_t)kv.second->pages.size());
        for (auto &pg : kv.second->pages) {
            put64(pg.first);
            s.append((const char *)pg.second.data(), (size_t)PAGE);
        }
    }
    return s;
}
Disk disk_deserialize(const std::string &s)
{
    Disk   d;
    size_t p     = 0;
    auto   get64 = [&]() {
        int64_t v = 0;
        if (p + 8 <= s.size())
            memcpy(&v, s.data() + p, 8);
        p += 8;
        return v;
    };
    int64_t nf = get64();
    for (int64_t i = 0; i < nf && p < s.size(); i++) {
        int64_t     nl = get64();
        std::string name(s.data() + p, (size_t)nl);
        p += (size_t)nl;
        auto f   = std::make_shared<FileData>();
        f->len   = get64();
        int64_t np = get64();
        for (int64_t k = 0; k < np; k++) {
            int64_t pg = get64();
            f->pages.emplace(pg, std::vector<uint8_t>((const uint8_t *)s.data() + p, (const uint8_t *)s.data() + p + PAGE));
            p += (size_t)PAGE;
        }
        d[name] = f;
    }
    return d;
}

void reset_all()
{
    g_trace = __real_getenv("H4SIM_TRACE") != nullptr;
    g_disk.clear();
    for (auto s : g_all)
        delete s;
    g_all.clear();
    g_live.clear();
    g_dead.clear();
    g_fileids.clear();
    g_events.clear();
    g_wlog.clear();
    g_faults.clear();
    g_mut.clear();
    g_misuse.clear();
    g_env.clear();
    g_enospc = false;
    g_fault_site.clear();
    g_op     = -1;
    g_ord    = 0;
    g_seq    = 0;
    g_nstreams = 0;
    g_evhash = 1469598103934665603ULL;
    memset(g_kindc, 0, sizeof g_kindc);
    memset(g_faultc, 0, sizeof g_faultc);
}
void set_buffered(bool on, int bufsize)
{
    g_buffered = on;
    g_bufsize  = bufsize > 0 ? bufsize : 1;
}
void set_op(int op)
{
    if (op != g_op) {
        g_op  = op;
        g_ord = 0;
    }
}
void                set_faults(const std::vector<Fault> &f) { g_faults = f; }
std::vector<Fault> &faults() { return g_faults; }
void                keep_events(bool on) { g_keep_events = on; }
const std::vector<Event> &events() { return g_events; }
uint32_t            nevents() { return g_seq; }
uint64_t            event_hash() { return g_evhash; }
const std::vector<WriteRec> &writelog() { return g_wlog; }
void                clear_writelog() { g_wlog.clear(); }
void                keep_writelog(bool on) { g_keep_wlog = on; }
void                keep_writelog_sites(bool on) { g_wlog_sites = on; }
void                freeze(const std::string &path, bool on)
{
    auto it = g_disk.find(path);
    if (it != g_disk.end())
        it->second->frozen = on;
}
void freeze_all(bool on)
{
    for (auto &kv : g_disk)
        kv.second->frozen = on;
}
const std::vector<std::string> &mutations() { return g_mut; }
const std::vector<std::string> &misuse() { return g_misuse; }
int             open_streams() { return (int)g_live.size(); }
void            set_env(const std::string &n, const std::string &v) { g_env[n] = v; }
void            set_nofile_limit(long n) { g_nofile = n; }
const uint64_t *kind_counts() { return g_kindc; }
const uint64_t *fault_counts() { return g_faultc; }
const std::string &fault_site() { return g_fault_site; }

// ------------------------------------------------------------------ events and faults
struct Ev {
    Event  e;
    Fault *fault = nullptr;
};

static Ev begin_event(int kind, Stream *s, const std::string &path, int64_t off, int64_t len)
{
    Ev ev;
    ev.e.seq    = g_seq++;
    ev.e.op     = g_op;
    ev.e.ord    = g_ord++;
    ev.e.kind   = kind;
    ev.e.stream = s ? s->id : -1;
    ev.e.file   = file_id(path);
    ev.e.off    = off;
    ev.e.len    = len;
    ev.e.result = 0;
    ev.e.dhash  = 0;
    ev.e.fault  = F_NONE;
    g_kindc[kind]++;
    for (auto &f : g_faults) {
        if (!f.fired && f.op == ev.e.op && f.ord == ev.e.ord) {
            ev.fault = &f;
            break;
        }
    }
    return ev;
}
static void end_event(Ev &ev, int64_t result, uint64_t dhash = 0)
{
    ev.e.result = result;
    ev.e.dhash  = dhash;
    uint64_t h  = g_evhash;
    h           = h4::fnv64i((uint64_t)ev.e.kind, h);
    h           = h4::fnv64i((uint64_t)ev.e.op, h);
    h           = h4::fnv64i((uint64_t)ev.e.file, h);
    h           = h4::fnv64i((uint64_t)ev.e.stream, h);
    h           = h4::fnv64i((uint64_t)ev.e.off, h);
    h           = h4::fnv64i((uint64_t)ev.e.len, h);
    h           = h4::fnv64i((uint64_t)ev.e.result, h);
    h           = h4::fnv64i(ev.e.dhash, h);
    h           = h4::fnv64i((uint64_t)ev.e.fault, h);
    g_evhash    = h;
    if (g_trace)
        fprintf(stderr, "  io #%u op %d.%d %-8s stream %d file %d off %lld len %lld -> %lld%s%s\n", ev.e.seq, ev.e.op,
                ev.e.ord, evkind_name(ev.e.kind), ev.e.stream, ev.e.file, (long long)ev.e.off, (long long)ev.e.len,
                (long long)ev.e.result, ev.e.fault ? " FAULT " : "", ev.e.fault ? fault_name(ev.e.fault) : "");
    if (g_keep_events)
        g_events.push_back(ev.e);
}
// does a fault of kind k make sense for an event of kind ev?  (otherwise it is ignored: not fired)
static bool fault_applies(int fk, int evk)
{
    switch (fk) {
        case F_EIO:
            return evk != EV_OPEN && evk != EV_REMOVE && evk != EV_RENAME;
        case F_SHORT:
            return evk == EV_READ || evk == EV_WRITE;
        case F_ENOSPC:
            return evk == EV_WRITE || evk == EV_WRITEOUT;
        case F_STICKY:
            return evk == EV_READ || evk == EV_WRITE || evk == EV_SEEK || evk == EV_FLUSH || evk == EV_WRITEOUT;
        case F_OPENFAIL:
            return evk == EV_OPEN;
    }
    return false;
}
// library call chain at this point, innermost first (frame-pointer walk: everything is built with
// -fno-omit-frame-pointer; far cheaper than backtrace()); optionally without the generic element I/O layer
static std::string call_chain(int maxkeep, bool drop_generic)
{
    static const char *generic[] = {"HP_write", "HP_read", "HPseek", "Hwrite", "Hread", "Hseek", "Hputelement",
                                    "Hgetelement", "Hstartaccess", "Hstartread", "Hstartwrite", "Hendaccess",
                                    "Hlength", "hi_close_stdio", "Hinquire", "HTPinquire", nullptr};
    std::string out;
    void       *pcs[48];
    int         n = 0, kept = 0;
    void      **fp = (void **)__builtin_frame_address(0);
    while (fp && n < 48) {
        void  *ret  = fp[1];
        void **next = (void **)fp[0];
        if (!ret)
            break;
        pcs[n++] = ret;
        if (next <= fp || (char *)next - (char *)fp > (1 << 20))
            break;
        fp = next;
    }
    for (int i = 0; i < n && kept < maxkeep; i++) {
        char buf[256] = "";
        __sanitizer_symbolize_pc((char *)pcs[i] - 1, "%f", buf, sizeof buf);
        std::string fn(buf);
        if (fn.empty() || fn.find("simfs") != std::string::npos || fn.find("__wrap_") != std::string::npos ||
            fn.find("__interceptor") != std::string::npos || fn.find("backtrace") != std::string::npos ||
            fn.find("take_fault") != std::string::npos || fn == "writeout" || fn == "disk_write" || fn == "begin_event" ||
            fn == "call_chain" || fn == "log_write")
            continue;
        if (fn.find("h4::") != std::string::npos || fn == "execute" || fn == "main" || fn.find("judge") != std::string::npos)
            break; // reached the harness
        bool gen = false;
        for (int g = 0; drop_generic && generic[g]; g++)
            gen |= fn == generic[g];
        if (gen)
            continue;
        out += (kept ? "<" : "") + fn;
        kept++;
    }
    return out;
}
// returns the fault kind to apply to this event (F_NONE if none)
static int take_fault(Ev &ev, Stream *s)
{
    int fk = F_NONE;
    if (ev.fault && fault_applies(ev.fault->kind, ev.e.kind)) {
        fk               = ev.fault->kind;
        ev.fault->fired = true;
        if (g_fault_site.empty()) {
            g_fault_site = call_chain(3, true);
            if (g_fault_site.empty())
                g_fault_site = "?";
        }
        if (g_trace) {
            fprintf(stderr, "  >>> fault %s fires on %s event (op %d.%d); stack:\n", fault_name(fk), evkind_name(ev.e.kind), ev.e.op, ev.e.ord);
            __sanitizer_print_stack_trace();
        }
        g_faultc[fk]++;
        if (fk == F_ENOSPC)
            g_enospc = true;
        if (fk == F_STICKY && s)
            s->sticky = true;
    }
    else if (s && s->sticky && ev.e.kind != EV_CLOSE && ev.e.kind != EV_TELL)
        fk = F_STICKY;
    ev.e.fault = fk;
    return fk;
}

static void log_write(const std::string &path, int64_t off, const uint8_t *p, int64_t n, uint32_t seq)
{
    if (!g_keep_wlog)
        return;
    WriteRec w;
    w.kind  = 0;
    w.path  = path;
    w.off   = off;
    w.op    = g_op;
    w.evseq = seq;
    w.data.assign(p, p + n);
    if (g_wlog_sites)
        w.site = call_chain(12, false);
    g_wlog.push_back(std::move(w));
}
static void log_meta(int kind, const std::string &path, const std::string &path2, uint32_t seq)
{
    if (!g_keep_wlog)
        return;
    WriteRec w;
    w.kind  = kind;
    w.path  = path;
    w.path2 = path2;
    w.op    = g_op;
    w.evseq = seq;
    g_wlog.push_back(std::move(w));
}
static void note_mutation(FileData *f, const std::string &path, const char *what, const Event &e)
{
    if (f && f->frozen)
        g_mut.push_back(h4::strf("%s on frozen %s at event #%u op %d off %lld len %lld", what, path.c_str(), e.seq,
                                 e.op, (long long)e.off, (long long)e.len));
}

// bytes reach the disk.  Returns number of bytes written (ENOSPC: only what fits inside the file).
static int64_t disk_write(Stream *s, int64_t off, const uint8_t *p, int64_t n, const Event &e, bool enospc)
{
    if (enospc && off + n > s->f->len) {
        int64_t fit = s->f->len - off;
        n           = fit > 0 ? fit : 0;
    }
    if (n > 0) {
        note_mutation(s->f.get(), s->path, "write", e);
        s->f->write(off, p, n);
        log_write(s->path, off, p, n, e.seq);
    }
    return n;
}

// buffered mode: push the pending buffer out.  One WRITEOUT event.  Returns false on failure.
static bool writeout(Stream *s)
{
    if (s->wb.empty())
        return true;
    Ev   ev = begin_event(EV_WRITEOUT, s, s->path, s->wb_off, (int64_t)s->wb.size());
    int  fk = take_fault(ev, s);
    bool ok = true;
    if (fk == F_EIO || fk == F_STICKY) {
        ok = false; // buffered bytes are lost
    }
    else {
        int64_t w = disk_write(s, s->wb_off, s->wb.data(), (int64_t)s->wb.size(), ev.e, g_enospc);
        if (w != (int64_t)s->wb.size())
            ok = false;
    }
    uint64_t dh = h4::fnv64(s->wb.data(), s->wb.size());
    s->wb.clear();
    if (!ok) {
        s->err = true;
        errno  = g_enospc ? ENOSPC : EIO;
    }
    end_event(ev, ok ? 0 : -1, dh);
    return ok;
}

static Stream *lookup(FILE *fp, const char *who)
{
    auto it = g_live.find(fp);
    if (it != g_live.end())
        return it->second;
    if (g_dead.count(fp)) {
        g_misuse.push_back(h4::strf("%s on a closed stream (use after fclose) during op %d", who, g_op));
        return (Stream *)1; // sentinel: simulated but dead
    }
    return nullptr;
}
#define DEADSTREAM ((Stream *)1)

} // namespace simfs

using namespace simfs;

// ------------------------------------------------------------------ the wrapped calls
extern "C" {

FILE *__wrap_fopen(const char *path, const char *mode)
{
    if (!is_sim(path))
        return __real_fopen(path, mode);
    bool rd = false, wr = false, trunc = false, create = false, append = false;
    switch (mode[0]) {
        case 'r':
            rd = true;
            break;
        case 'w':
            wr = trunc = create = true;
            break;
        case 'a':
            wr = create = append = true;
            break;
    }
    if (strchr(mode, '+'))
        rd = wr = true;
    std::string p(path);
    Ev          ev = begin_event(EV_OPEN, nullptr, p, trunc ? 1 : 0, wr ? 1 : 0);
    int         fk = take_fault(ev, nullptr);
    if (fk == F_OPENFAIL) {
        errno = EMFILE;
        end_event(ev, -1);
        return nullptr;
    }
    auto it = g_disk.find(p);
    if (it == g_disk.end()) {
        if (!create) {
            errno = ENOENT;
            end_event(ev, -2);
            return nullptr;
        }
        it = g_disk.emplace(p, std::make_shared<FileData>()).first;
        log_meta(1, p, "", ev.e.seq);
    }
    else if (trunc) {
        note_mutation(it->second.get(), p, "truncate", ev.e);
        it->second->truncate0();
        log_meta(1, p, "", ev.e.seq);
    }
    Stream *s   = new Stream;
    s->f        = it->second;
    s->path     = p;
    s->id       = g_nstreams++;
    s->rd       = rd;
    s->wr       = wr;
    s->pos      = append ? s->f->len : 0;
    s->buffered = g_buffered && wr;
    s->bufsize  = g_bufsize;
    g_all.push_back(s);
    g_live[(FILE *)s] = s;
    ev.e.stream       = s->id;
    end_event(ev, 0);
    return (FILE *)s;
}

int __wrap_fclose(FILE *fp)
{
    Stream *s = lookup(fp, "fclose");
    if (!s)
        return __real_fclose(fp);
    if (s == DEADSTREAM)
        return EOF;
    bool ok = true;
    if (s->buffered && !writeout(s))
        ok = false;
    Ev  ev = begin_event(EV_CLOSE, s, s->path, 0, 0);
    int fk = take_fault(ev, s);
    if (fk == F_EIO) {
        ok    = false;
        errno = EIO;
    }
    // the stream is gone whether or not fclose reports success (C standard)
    s->closed = true;
    g_live.erase(fp);
    g_dead.insert(fp);
    end_event(ev, ok ? 0 : -1);
    return ok ? 0 : EOF;
}

size_t __wrap_fread(void *ptr, size_t size, size_t nmemb, FILE *fp)
{
    Stream *s = lookup(fp, "fread");
    if (!s)
        return __real_fread(ptr, size, nmemb, fp);
    if (s == DEADSTREAM)
        return 0;
    // a negative length cast to size_t by the caller is a huge request, exactly as real fread sees it
    uint64_t uwant = (uint64_t)size * (uint64_t)nmemb;
    int64_t  want  = uwant > (uint64_t)INT64_MAX ? INT64_MAX : (int64_t)uwant;
    if (s->buffered && !s->wb.empty() && !writeout(s))
        return 0;
    Ev  ev = begin_event(EV_READ, s, s->path, s->pos, want);
    int fk = take_fault(ev, s);
    if (!s->rd || fk == F_EIO || fk == F_STICKY) {
        s->err = true;
        errno  = s->rd ? EIO : EBADF;
        end_event(ev, 0);
        return 0;
    }
    int64_t avail = s->f->len - s->pos;
    if (avail < 0)
        avail = 0;
    int64_t n = want < avail ? want : avail;
    if (n < want)
        s->eof = true;
    if (fk == F_SHORT && n > 0) {
        n      = (int64_t)((uint64_t)ev.fault->param % (uint64_t)n); // proper prefix, possibly empty
        s->err = true;
        errno  = EIO;
    }
    s->f->read(s->pos, (uint8_t *)ptr, n);
    s->pos += n;
    end_event(ev, n, h4::fnv64(ptr, (size_t)n));
    return size ? (size_t)n / size : 0;
}

size_t __wrap_fwrite(const void *ptr, size_t size, size_t nmemb, FILE *fp)
{
    Stream *s = lookup(fp, "fwrite");
    if (!s)
        return __real_fwrite(ptr, size, nmemb, fp);
    if (s == DEADSTREAM)
        return 0;
    uint64_t uwant = (uint64_t)size * (uint64_t)nmemb;
    int64_t  want  = uwant > (uint64_t)INT64_MAX ? INT64_MAX : (int64_t)uwant;
    Ev       ev    = begin_event(EV_WRITE, s, s->path, s->pos, want);
    int     fk   = take_fault(ev, s);
    if (!s->wr || fk == F_EIO || fk == F_STICKY) {
        s->err = true;
        errno  = s->wr ? EIO : EBADF;
        end_event(ev, 0, h4::fnv64(ptr, (size_t)want));
        return 0;
    }
    int64_t n = want;
    if (fk == F_SHORT && n > 0) {
        n      = (int64_t)((uint64_t)ev.fault->param % (uint64_t)n);
        s->err = true;
        errno  = EIO;
    }
    if (s->buffered) {
        // append to the stream buffer when contiguous and it fits, else push the buffer out first
        bool contiguous = !s->wb.empty() && s->wb_off + (int64_t)s->wb.size() == s->pos;
        if (!s->wb.empty() && (!contiguous || (int64_t)s->wb.size() + n > s->bufsize)) {
            end_event(ev, n, h4::fnv64(ptr, (size_t)want));
            if (!writeout(s))
                return 0;
            // account for the write itself as buffered after the write-out
            s->wb_off = s->pos;
            s->wb.assign((const uint8_t *)ptr, (const uint8_t *)ptr + n);
            s->pos += n;
            return size ? (size_t)n / size : 0;
        }
        if (s->wb.empty())
            s->wb_off = s->pos;
        s->wb.insert(s->wb.end(), (const uint8_t *)ptr, (const uint8_t *)ptr + n);
        s->pos += n;
        end_event(ev, n, h4::fnv64(ptr, (size_t)want));
        return size ? (size_t)n / size : 0;
    }
    int64_t w = disk_write(s, s->pos, (const uint8_t *)ptr, n, ev.e, g_enospc);
    if (w < n) {
        s->err = true;
        errno  = ENOSPC;
    }
    s->pos += w;
    end_event(ev, w, h4::fnv64(ptr, (size_t)want));
    return size ? (size_t)w / size : 0;
}

int __wrap_fseek(FILE *fp, long off, int whence)
{
    Stream *s = lookup(fp, "fseek");
    if (!s)
        return __real_fseek(fp, off, whence);
    if (s == DEADSTREAM)
        return -1;
    if (s->buffered && !s->wb.empty() && !writeout(s))
        return -1;
    Ev      ev  = begin_event(EV_SEEK, s, s->path, off, whence);
    int     fk  = take_fault(ev, s);
    int64_t tgt = whence == SEEK_SET ? off : whence == SEEK_CUR ? s->pos + off : s->f->len + off;
    if (fk == F_EIO || fk == F_STICKY || tgt < 0) {
        errno = tgt < 0 ? EINVAL : EIO;
        end_event(ev, -1);
        return -1;
    }
    s->pos = tgt;
    s->eof = false;
    end_event(ev, 0);
    return 0;
}

long __wrap_ftell(FILE *fp)
{
    Stream *s = lookup(fp, "ftell");
    if (!s)
        return __real_ftell(fp);
    if (s == DEADSTREAM)
        return -1;
    Ev  ev = begin_event(EV_TELL, s, s->path, s->pos, 0);
    int fk = take_fault(ev, s);
    if (fk == F_EIO) {
        errno = EIO;
        end_event(ev, -1);
        return -1;
    }
    end_event(ev, s->pos);
    return (long)s->pos;
}

int __wrap_fflush(FILE *fp)
{
    if (!fp)
        return __real_fflush(fp);
    Stream *s = lookup(fp, "fflush");
    if (!s)
        return __real_fflush(fp);
    if (s == DEADSTREAM)
        return EOF;
    bool ok = true;
    if (s->buffered && !writeout(s))
        ok = false;
    Ev  ev = begin_event(EV_FLUSH, s, s->path, 0, 0);
    int fk = take_fault(ev, s);
    if (fk == F_EIO || fk == F_STICKY) {
        ok    = false;
        errno = EIO;
    }
    end_event(ev, ok ? 0 : -1);
    return ok ? 0 : EOF;
}

int __real_ferror(FILE *);
int __wrap_ferror(FILE *fp)
{
    Stream *s = lookup(fp, "ferror");
    if (!s)
        return __real_ferror(fp);
    if (s == DEADSTREAM)
        return 1;
    return s->err ? 1 : 0;
}

int __wrap_stat(const char *path, struct stat *st)
{
    if (!is_sim(path))
        return __real_stat(path, st);
    std::string p(path);
    Ev          ev = begin_event(EV_STAT, nullptr, p, 0, 0);
    int         fk = take_fault(ev, nullptr);
    auto        it = g_disk.find(p);
    if (fk == F_EIO || it == g_disk.end()) {
        errno = fk == F_EIO ? EIO : ENOENT;
        end_event(ev, -1);
        return -1;
    }
    memset(st, 0, sizeof *st);
    st->st_mode = S_IFREG | 0644;
    st->st_size = (off_t)it->second->len;
    st->st_nlink = 1;
    end_event(ev, 0);
    return 0;
}

int __wrap_remove(const char *path)
{
    if (!is_sim(path))
        return __real_remove(path);
    std::string p(path);
    Ev          ev = begin_event(EV_REMOVE, nullptr, p, 0, 0);
    take_fault(ev, nullptr);
    auto it = g_disk.find(p);
    if (it == g_disk.end()) {
        errno = ENOENT;
        end_event(ev, -1);
        return -1;
    }
    note_mutation(it->second.get(), p, "remove", ev.e);
    g_disk.erase(it);
    log_meta(2, p, "", ev.e.seq);
    end_event(ev, 0);
    return 0;
}

int __wrap_rename(const char *from, const char *to)
{
    if (!is_sim(from) && !is_sim(to))
        return __real_rename(from, to);
    std::string a(from), b(to);
    Ev          ev = begin_event(EV_RENAME, nullptr, a, 0, 0);
    take_fault(ev, nullptr);
    auto it = g_disk.find(a);
    if (it == g_disk.end() || !is_sim(to)) {
        errno = ENOENT;
        end_event(ev, -1);
        return -1;
    }
    note_mutation(it->second.get(), a, "rename", ev.e);
    auto jt = g_disk.find(b);
    if (jt != g_disk.end())
        note_mutation(jt->second.get(), b, "rename-over", ev.e);
    g_disk[b] = it->second;
    g_disk.erase(a);
    log_meta(3, a, b, ev.e.seq);
    end_event(ev, 0);
    return 0;
}

int __wrap_getrlimit(int res, struct rlimit *rl)
{
    if (res == RLIMIT_NOFILE) {
        rl->rlim_cur = (rlim_t)g_nofile;
        rl->rlim_max = (rlim_t)g_nofile;
        return 0;
    }
    return __real_getrlimit(res, rl);
}

char *__wrap_getenv(const char *name)
{
    if (name && strncmp(name, "HDFEXT", 6) == 0) {
        auto it = g_env.find(name);
        return it == g_env.end() ? nullptr : (char *)it->second.c_str();
    }
    return __real_getenv(name);
}

} // extern "C"
