// prof_limits.cc -- C20: format limits are enforced cleanly: no wrap-around, no over-long objects.
//
// A history of probes around each limit (2^31-1 byte offsets reached with sparse, never-written reserved elements;
// 65535 refs and Vgroup members; field orders and sizes around 65535; 256/257 fields; 32/33 dimensions; open-file
// tables; names around 64, 128, 256 and far beyond) runs against a file that also holds canary objects.
// Oracle: a request the format cannot represent returns the failure value; a request that is accepted behaves
// correctly (reads back, counts right); after every probe the canaries read back, and at the end the descriptor
// tables on disk are consistent (no negative or wrapped offset, no overlap, no duplicate), the files open again and
// valid calls keep working; ASan watches memory.
#include "hx.h"
#include "specreader.h"
#include <set>

namespace h4 {
namespace {

const int64_t LIM = 2147483647LL; // what an int32 offset or length can say

struct Limits : Profile {
    const char *name() const override { return "limits"; }
    const char *property() const override { return "C20"; }
    int         runs(bool thorough) const override { return thorough ? 40000 : 3000; }
    std::string rule() const override
    {
        return "each case = one generated plan of 8..30 probes in random order and amounts: sparse reserved elements and linked-block "
               "elements whose offsets and lengths approach and cross 2^31-1, writes at their far end, small elements behind them; a "
               "descriptor with ref 65535 followed by Hnewref/Htagnewref, exhaustion of all 65535 refs of a tag; Vgroups filled to "
               "65534..65540 members; field orders/sizes around 65535, 255..258 fields, record sizes around 65535; names of 63..70000 "
               "characters for Vdata, Vgroup, field, SDS, dimension, attribute and image names; SDS ranks 31..34 and extents whose "
               "byte size crosses 2^31 and 2^32; 30..40 open files and SDstart of one file up to a small descriptor limit; reopen. "
               "Oracle: failure value where the format cannot represent the request, correct behaviour where it is accepted, canary "
               "objects intact after every probe, consistent descriptor tables at the end, files usable afterwards";
    }
    std::vector<std::string> assumptions() const override
    {
        return {"a name longer than an interface keeps is either refused or stored as a prefix of what was given",
                "requests above a documented maximum of the library (not of the format) may be accepted when they then behave correctly"};
    }
    std::vector<std::string> required_probes() const override
    {
        return {"reserve-near-limit", "beyond-limit-refused", "far-write", "ref-65535", "refs-exhausted", "members-65535", "member-65536-refused", "order-over-limit-refused",
                "fields-257-refused", "long-name-vdata", "long-name-sds", "rank-33-refused", "sds-bytes-over-limit", "open-table-full", "reopen", "canaries-checked", "append-near-limit", "recsize-with-predefined-field", "seekfar-fits", "seekfar-over", "long-name-refused-on-named-vgroup", "records-of-tens-of-megabytes", "long-field-name-in-a-list"};
    }

    Plan generate(Rng &rng, bool thorough, uint64_t) override
    {
        Plan p;
        p.seed          = rng.next();
        Rng kr          = rng.sub(1);
        p.knobs["ndds"] = kr.chance(0.5) ? kr.range(1, 8) : kr.chance(0.5) ? 16 : 512;
        p.knobs["nofile"] = kr.range(8, 40);
        Rng r           = rng.sub(2);
        int n           = (int)r.range(8, thorough ? 40 : 30);
        static const int64_t lens[] = {63, 64, 65, 66, 127, 128, 129, 255, 256, 257, 1000, 70000};
        static const std::vector<int> w = {/*reserve*/ 14, /*farwrite*/ 6, /*small*/ 8, /*hlbig*/ 5, /*ref65535*/ 5, /*newrefs*/ 8, /*exhaust*/ 1, /*members*/ 4,
                                           /*order*/ 6,    /*nfields*/ 5,  /*recsize*/ 4, /*name*/ 16, /*rank*/ 4,    /*sdbig*/ 6,    /*hopen*/ 2,   /*sdopen*/ 3, /*reopen*/ 5, /*appendfar*/ 6, /*seekfar*/ 5, /*sdrecbig*/ 3, /*sdcoordbig*/ 3};
        static const char *names[] = {"reserve", "farwrite", "small", "hlbig", "ref65535", "newrefs", "exhaust", "members", "order", "nfields", "recsize", "name", "rank", "sdbig", "hopen", "sdopen", "reopen", "appendfar", "seekfar", "sdrecbig", "sdcoordbig"};
        for (int i = 0; i < n; i++) {
            int k = r.weighted(w);
            if (k == 6 && !thorough && !r.chance(0.3))
                k = 5;
            switch (k) {
                case 0: // how much of the remaining space to take: 0 = all but a little, else a fraction; slack in bytes
                    p.ops.push_back(mkop(0, names[k], {(int64_t)r.below(4), r.range(-40, 40), (int64_t)r.below(3)}));
                    break;
                case 1:
                case 2:
                    p.ops.push_back(mkop(0, names[k], {(int64_t)r.below(8), 1 + r.sizeish(100), (int64_t)(r.next() >> 16)}));
                    break;
                case 3:
                    p.ops.push_back(mkop(0, names[k], {(int64_t)r.below(4), r.range(1, 4), (int64_t)r.below(3)}));
                    break;
                case 4:
                    p.ops.push_back(mkop(0, names[k], {(int64_t)r.below(3)}));
                    break;
                case 5:
                    p.ops.push_back(mkop(0, names[k], {(int64_t)r.below(3), r.range(1, 5)}));
                    break;
                case 6:
                    p.ops.push_back(mkop(0, names[k], {(int64_t)r.below(2)}));
                    break;
                case 7:
                    p.ops.push_back(mkop(0, names[k], {65534 + (int64_t)r.below(7)}));
                    break;
                case 8:
                    p.ops.push_back(mkop(0, names[k], {(int64_t)r.below(4), r.chance(0.5) ? 65535 + r.range(-2, 3) : r.range(16380, 32770)}));
                    break;
                case 9:
                    p.ops.push_back(mkop(0, names[k], {254 + (int64_t)r.below(6)}));
                    break;
                case 10:
                    p.ops.push_back(mkop(0, names[k], {r.range(-3, 3)}));
                    break;
                case 11:
                    p.ops.push_back(mkop(0, names[k], {(int64_t)r.below(9), lens[r.below(12)] + (r.chance(0.2) ? r.range(-1, 1) : 0), (int64_t)r.below(2)}));
                    break;
                case 12:
                    p.ops.push_back(mkop(0, names[k], {31 + (int64_t)r.below(4)}));
                    break;
                case 13:
                    p.ops.push_back(mkop(0, names[k], {(int64_t)r.below(4), (int64_t)r.below(6), r.range(-2, 2)}));
                    break;
                case 14:
                    p.ops.push_back(mkop(0, names[k], {30 + (int64_t)r.below(11)}));
                    break;
                case 15:
                    p.ops.push_back(mkop(0, names[k], {r.range(-3, 6)}));
                    break;
                case 20: // how far the dimension is below 2^30 + 8
                    p.ops.push_back(mkop(0, names[k], {(int64_t)r.below(16)}));
                    break;
                case 19: // which record size, how many records
                    p.ops.push_back(mkop(0, names[k], {(int64_t)r.below(4), r.range(1, 3)}));
                    break;
                case 18: // slack around the limit, length of the write
                    p.ops.push_back(mkop(0, names[k], {r.range(-4, 4), r.chance(0.5) ? 100 : r.range(1, 300), (int64_t)r.below(2)}));
                    break;
                case 17: // first bring the end of the file near the limit, then append
                    p.ops.push_back(mkop(0, "reserve", {0, r.range(-60000, -3000), 0}));
                    p.ops.push_back(mkop(0, names[k], {}));
                    break;
                default:
                    p.ops.push_back(mkop(0, names[k], {}));
            }
        }
        p.ops.push_back(mkop(0, "reopen", {}));
        p.ops.push_back(mkop(0, "small", {1, 5, 7}));
        return p;
    }

    // ------------------------------------------------------------------ state
    struct S {
        Ctx  &ctx;
        int32 fid = FAIL, sd = FAIL, big = FAIL;
        bool  on_disk = false, sd_on_disk = false, big_on_disk = false, canaries = false;
        int   ndds = 16;
        int   seq = 0; // running number for new object names and refs
        std::map<int, std::vector<uint8_t>> smalls; // ref -> bytes of tag 8500 in the big file
        uint16 vs_ref = 0, vg_ref = 0;
        explicit S(Ctx &c) : ctx(c) {}
    };
    const std::string path = "/sim/lim.hdf", sdpath = "/sim/lim_sd.hdf", bigpath = "/sim/lim_big.hdf";

    void open_h(S &s)
    {
        if (s.fid != FAIL)
            return;
        s.fid = Hopen(path.c_str(), s.on_disk ? DFACC_RDWR : DFACC_CREATE, (int16)s.ndds);
        if (s.fid == FAIL || Vstart(s.fid) == FAIL)
            s.ctx.fail("unusable", "unusable:open", strf("Hopen/Vstart of the probe file failed: %s", herr().c_str()));
        s.on_disk = true;
    }
    void open_big(S &s)
    {
        if (s.big != FAIL)
            return;
        s.big = Hopen(bigpath.c_str(), s.big_on_disk ? DFACC_RDWR : DFACC_CREATE, (int16)s.ndds);
        if (s.big == FAIL)
            s.ctx.fail("unusable", "unusable:open-big", strf("Hopen of the sparse file failed: %s", herr().c_str()));
        s.big_on_disk = true;
    }
    void open_sd(S &s)
    {
        if (s.sd != FAIL)
            return;
        s.sd = SDstart(sdpath.c_str(), s.sd_on_disk ? DFACC_RDWR : DFACC_CREATE);
        if (s.sd == FAIL)
            s.ctx.fail("unusable", "unusable:sdstart", strf("SDstart of the probe file failed: %s", herr().c_str()));
        s.sd_on_disk = true;
    }
    void close_all(S &s)
    {
        if (s.fid != FAIL) {
            if (Vend(s.fid) == FAIL || Hclose(s.fid) == FAIL)
                s.ctx.fail("unusable", "unusable:close", strf("Vend/Hclose failed after the probes: %s", herr().c_str()));
            s.fid = FAIL;
        }
        if (s.big != FAIL) {
            if (Hclose(s.big) == FAIL)
                s.ctx.fail("unusable", "unusable:close-big", strf("Hclose of the sparse file failed: %s", herr().c_str()));
            s.big = FAIL;
        }
        if (s.sd != FAIL) {
            if (SDend(s.sd) == FAIL)
                s.ctx.fail("unusable", "unusable:sdend", strf("SDend failed after the probes: %s", herr().c_str()));
            s.sd = FAIL;
        }
    }

    // ---- canaries
    static const int32 CAN_N = 6;
    void make_canaries(S &s)
    {
        if (s.canaries)
            return;
        open_h(s);
        open_sd(s);
        uint8_t b[40];
        fill_data(4242, b, sizeof b);
        if (Hputelement(s.fid, 8300, 1, b, 40) != 40)
            s.ctx.fail("unusable", "unusable:canary", "cannot write the canary element");
        int32 vs = VSattach(s.fid, -1, "w");
        VSfdefine(vs, "a", DFNT_INT32, 1);
        VSfdefine(vs, "b", DFNT_UINT8, 3);
        VSsetfields(vs, "a,b");
        VSsetname(vs, "canary_vs");
        uint8_t rec[14];
        fill_data(77, rec, sizeof rec);
        if (VSwrite(vs, rec, 2, FULL_INTERLACE) != 2)
            s.ctx.fail("unusable", "unusable:canary", "cannot write the canary vdata");
        s.vs_ref = (uint16)VSQueryref(vs);
        VSdetach(vs);
        int32 vg = Vattach(s.fid, -1, "w");
        Vsetname(vg, "canary_vg");
        Vaddtagref(vg, 8300, 1);
        Vaddtagref(vg, DFTAG_VH, s.vs_ref);
        s.vg_ref = (uint16)VQueryref(vg);
        Vdetach(vg);
        int32 dims[1] = {CAN_N}, st[1] = {0};
        int32 id = SDcreate(s.sd, "canary_sds", DFNT_INT32, 1, dims);
        int32 v[CAN_N];
        for (int i = 0; i < CAN_N; i++)
            v[i] = 1000 + i * 7;
        if (id == FAIL || SDwritedata(id, st, NULL, dims, v) == FAIL)
            s.ctx.fail("unusable", "unusable:canary", "cannot write the canary dataset");
        SDendaccess(id);
        s.canaries = true;
    }
    void check_canaries(S &s, const char *after)
    {
        if (!s.canaries)
            return;
        open_h(s);
        open_sd(s);
        s.ctx.st.checks++;
        uint8_t b[40], got[64];
        fill_data(4242, b, sizeof b);
        memset(got, 0, sizeof got);
        if (Hgetelement(s.fid, 8300, 1, got) != 40 || memcmp(b, got, 40) != 0)
            s.ctx.fail("collateral-damage", "collateral-damage:element", strf("the canary element no longer reads back after %s", after));
        int32 vs = VSattach(s.fid, s.vs_ref, "r");
        uint8_t rec[14], gr[32];
        fill_data(77, rec, sizeof rec);
        int32 n = 0;
        if (vs == FAIL || VSinquire(vs, &n, NULL, NULL, NULL, NULL) == FAIL || n != 2 || VSsetfields(vs, "a,b") == FAIL || VSread(vs, gr, 2, FULL_INTERLACE) != 2)
            s.ctx.fail("collateral-damage", "collateral-damage:vdata", strf("the canary vdata is no longer readable after %s", after));
        // field a is converted to host order; compare through a second conversion-free criterion: both records differ and b bytes match
        if (memcmp(gr + 4, rec + 4, 3) != 0 || memcmp(gr + 11, rec + 11, 3) != 0)
            s.ctx.fail("collateral-damage", "collateral-damage:vdata", strf("the canary vdata reads back other bytes after %s", after));
        VSdetach(vs);
        int32 vg = Vattach(s.fid, s.vg_ref, "r");
        int32 tg[4], rf[4];
        if (vg == FAIL || Vntagrefs(vg) != 2 || Vgettagrefs(vg, tg, rf, 2) != 2 || tg[0] != 8300 || rf[0] != 1 || tg[1] != DFTAG_VH || rf[1] != s.vs_ref)
            s.ctx.fail("collateral-damage", "collateral-damage:vgroup", strf("the canary vgroup no longer lists its two members after %s", after));
        Vdetach(vg);
        int32 ix = SDnametoindex(s.sd, "canary_sds"), id = ix == FAIL ? FAIL : SDselect(s.sd, ix);
        int32 dims[1] = {CAN_N}, st[1] = {0}, v[CAN_N];
        if (id == FAIL || SDreaddata(id, st, NULL, dims, v) == FAIL)
            s.ctx.fail("collateral-damage", "collateral-damage:sds", strf("the canary dataset is no longer readable after %s", after));
        for (int i = 0; i < CAN_N; i++)
            if (v[i] != 1000 + i * 7)
                s.ctx.fail("collateral-damage", "collateral-damage:sds", strf("the canary dataset reads other values after %s", after));
        SDendaccess(id);
        s.ctx.probe("canaries-checked");
    }

    // ---- the sparse file: what its descriptor tables say, read page-wise (the file may be 2 GiB long)
    struct DDrow {
        int     tag, ref;
        int64_t off, len;
    };
    std::vector<DDrow> scan_big(S &s, const char *when) { return scan_sparse(s, bigpath, when); }
    std::vector<DDrow> scan_sparse(S &s, const std::string &file, const char *when)
    {
        std::vector<DDrow> rows;
        auto              &d = simfs::disk();
        if (!d.count(file))
            return rows;
        simfs::FileData &fd = *d[file];
        auto rd = [&](int64_t o, int n) {
            uint8_t b[12] = {0};
            fd.read(o, b, n);
            uint64_t v = 0;
            for (int i = 0; i < n; i++)
                v = (v << 8) | b[i];
            return v;
        };
        if (rd(0, 4) != 0x0e031301ULL)
            s.ctx.fail("malformed-file", "malformed-file:magic", strf("%s: the sparse file lost its magic number", when));
        std::set<int64_t> seen;
        int64_t           blk = 4;
        while (true) {
            if (blk < 0 || blk + 6 > fd.len || !seen.insert(blk).second)
                s.ctx.fail("malformed-file", "malformed-file:chain", strf("%s: descriptor block at %lld is outside the file (%lld bytes) or visited twice", when, (long long)blk, (long long)fd.len));
            int     ndds = (int16_t)rd(blk, 2);
            int64_t next = (int32_t)rd(blk + 2, 4);
            if (ndds <= 0 || blk + 6 + (int64_t)ndds * 12 > fd.len)
                s.ctx.fail("malformed-file", "malformed-file:block", strf("%s: descriptor block at %lld announces %d descriptors in a file of %lld bytes", when, (long long)blk, ndds, (long long)fd.len));
            for (int i = 0; i < ndds; i++) {
                int64_t o = blk + 6 + (int64_t)i * 12;
                DDrow   r;
                r.tag = (int)rd(o, 2);
                r.ref = (int)rd(o + 2, 2);
                r.off = (int32_t)rd(o + 4, 4);
                r.len = (int32_t)rd(o + 8, 4);
                if (r.tag == 1 || r.tag == 108)
                    continue;
                rows.push_back(r);
            }
            rows.push_back({-1, (int)seen.size(), blk, 6 + (int64_t)ndds * 12}); // the block itself
            if (next == 0)
                break;
            if (next < 0)
                s.ctx.fail("malformed-file", "malformed-file:next", strf("%s: descriptor block at %lld points to offset %lld", when, (long long)blk, (long long)next));
            blk = next;
        }
        s.ctx.st.checks++;
        std::set<std::pair<int, int>> names;
        std::vector<DDrow>            ext;
        for (auto &r : rows) {
            if (r.tag >= 0 && !names.insert({r.tag & ~0x4000, r.ref}).second)
                s.ctx.fail("malformed-file", "malformed-file:duplicate", strf("%s: descriptor %d/%d occurs twice", when, r.tag, r.ref));
            if (r.off == -1 && r.len == -1)
                continue;
            if (r.off < 0 || r.len < 0 || r.off + r.len > LIM)
                s.ctx.fail("wrapped", "wrapped:descriptor", strf("%s: descriptor %d/%d has offset %lld length %lld (a 32-bit offset or length went negative or the sum passes 2^31-1)", when, r.tag, r.ref,
                                                                   (long long)r.off, (long long)r.len));
            if (r.len > 0)
                ext.push_back(r);
        }
        std::sort(ext.begin(), ext.end(), [](const DDrow &a, const DDrow &b) { return a.off != b.off ? a.off < b.off : a.len < b.len; });
        for (size_t i = 0; i + 1 < ext.size(); i++)
            if (ext[i].off + ext[i].len > ext[i + 1].off && !(ext[i].off == ext[i + 1].off && ext[i].len == ext[i + 1].len))
                s.ctx.fail("wrapped", "wrapped:overlap",
                           strf("%s: %d/%d at [%lld,+%lld) overlaps %d/%d at [%lld,+%lld): space was handed out twice", when, ext[i].tag, ext[i].ref, (long long)ext[i].off, (long long)ext[i].len,
                                ext[i + 1].tag, ext[i + 1].ref, (long long)ext[i + 1].off, (long long)ext[i + 1].len));
        return rows;
    }
    // where the sparse file ends according to the library's descriptor list (descriptors are cached until the file is flushed)
    int64_t big_end(S &s)
    {
        int64_t e = 0;
        uint16  tag = 0, ref = 0;
        int32   off = 0, len = 0;
        open_big(s);
        while (Hfind(s.big, DFTAG_WILDCARD, DFREF_WILDCARD, &tag, &ref, &off, &len, DF_FORWARD) != FAIL)
            if (off >= 0 && len >= 0)
                e = std::max<int64_t>(e, (int64_t)off + len);
        for (auto &r : scan_big(s, "between probes"))
            if (r.tag < 0)
                e = std::max(e, r.off + r.len); // descriptor blocks
        return e;
    }
    void check_smalls(S &s, const char *after)
    {
        for (auto &kv : s.smalls) {
            std::vector<uint8_t> got(kv.second.size() + 8, 0x5A);
            s.ctx.st.checks++;
            if (Hgetelement(s.big, 8500, (uint16)kv.first, got.data()) != (int32)kv.second.size() || memcmp(got.data(), kv.second.data(), kv.second.size()) != 0)
                s.ctx.fail("collateral-damage", "collateral-damage:sparse-file", strf("element 8500/%d of the sparse file no longer reads back after %s", kv.first, after));
        }
    }

    static std::string longname(int64_t len, int salt)
    {
        std::string n;
        for (int64_t i = 0; i < len; i++)
            n += (char)('a' + (i * 7 + salt) % 26);
        return n;
    }
    // what came back is a prefix of what was given (and not longer than the room the API documents)
    void name_ok(S &s, const std::string &api, const std::string &given, const std::string &got, size_t room)
    {
        s.ctx.st.checks++;
        if (got.size() > given.size() || given.compare(0, got.size(), got) != 0 || (given.size() <= room && got != given) || (given.size() > room && got.size() > given.size()))
            s.ctx.fail("name-mangled", "name-mangled:" + api, strf("%s: a name of %zu characters comes back as %zu characters that are not its beginning ('%.40s...' for '%.40s...')", api.c_str(), given.size(),
                                                                     got.size(), got.c_str(), given.c_str()));
    }

    void execute(Ctx &ctx) override
    {
        S           s(ctx);
        const Plan &p = ctx.plan;
        s.ndds        = (int)p.knob("ndds", 16);
        simfs::set_nofile_limit((long)p.knob("nofile", 1024));
        make_canaries(s);
        for (size_t i = 0; i < p.ops.size(); i++) {
            const Op &o = p.ops[i];
            ctx.begin_op((int)i);
            const std::string &k = o.kind;
            bool               done = true;
            s.seq++;
            if (k == "reserve") {
                // a sparse element: space is reserved at the end of the file and never written
                open_big(s);
                int64_t end = big_end(s), room = LIM - end;
                int64_t len = o.arg(0) == 0 ? room + o.arg(1) : room / (1 + modn(o.arg(0), 4)) + o.arg(1);
                len         = std::max<int64_t>(1, std::min<int64_t>(len, LIM));
                uint16 ref  = (uint16)(100 + s.seq);
                int32  aid  = Hstartwrite(s.big, 8400, ref, (int32)len);
                // descriptor blocks may take space too: the request is certainly beyond the format when it does not even fit behind the current end
                if (end + len > LIM) {
                    ctx.probe("beyond-limit-refused");
                    if (aid != FAIL)
                        ctx.fail("accepted-over-limit", "accepted-over-limit:Hstartwrite",
                                 strf("Hstartwrite of %lld bytes was accepted although the file already ends at %lld: the element would end beyond 2^31-1", (long long)len, (long long)end));
                    // nothing of the refused element stays behind
                    ctx.st.checks++;
                    if (Hexist(s.big, 8400, ref) != FAIL)
                        ctx.fail("leftover", "leftover:descriptor", strf("the refused element 8400/%d exists afterwards (Hexist succeeds, Hnumber counts it)", ref));
                }
                else if (aid != FAIL) {
                    if (o.arg(2) == 1 && len > 1) { // touch the last byte
                        uint8_t z = 0xA7;
                        if (Hseek(aid, (int32)(len - 1), DF_START) == FAIL || Hwrite(aid, 1, &z) != 1)
                            ctx.fail("unusable", "unusable:far-write", strf("cannot write the last byte of an accepted element of %lld bytes at %lld: %s", (long long)len, (long long)end, herr().c_str()));
                        ctx.probe("far-write");
                    }
                    if (Hendaccess(aid) == FAIL)
                        ctx.fail("unusable", "unusable:endaccess", "Hendaccess of a reserved element failed");
                    if (Hlength(s.big, 8400, ref) != (int32)len)
                        ctx.fail("wrapped", "wrapped:length", strf("a reserved element of %lld bytes reports length %d", (long long)len, (int)Hlength(s.big, 8400, ref)));
                    if (end + len > LIM - 4096)
                        ctx.probe("reserve-near-limit");
                }
                scan_big(s, "after reserving space");
                check_smalls(s, "reserving space");
            }
            else if (k == "small" || k == "farwrite") {
                // a small element in the sparse file: accepted and readable, or refused; never damaging
                open_big(s);
                int64_t end = big_end(s);
                int     ref = 1 + modn(o.arg(0), 8);
                std::vector<uint8_t> d = data_block((uint64_t)o.arg(2), (size_t)std::max<int64_t>(1, o.arg(1)));
                if (s.smalls.count(ref) && s.smalls[ref].size() != d.size())
                    done = false; // elements keep their length (C01 covers growth)
                else {
                    int32 n = Hputelement(s.big, 8500, (uint16)ref, d.data(), (int32)d.size());
                    if (n == (int32)d.size())
                        s.smalls[ref] = d;
                    else if (n != FAIL)
                        ctx.fail("wrapped", "wrapped:count", strf("Hputelement of %zu bytes returned %d", d.size(), (int)n));
                    else if (!s.smalls.count(ref) && end + (int64_t)d.size() + 4096 < LIM)
                        ctx.fail("unusable", "unusable:small-element", strf("a %zu-byte element is refused although the file ends at %lld: %s", d.size(), (long long)end, herr().c_str()));
                    else
                        ctx.probe("beyond-limit-refused");
                    scan_big(s, "after a small element");
                    check_smalls(s, "a small element");
                }
            }
            else if (k == "appendfar") {
                // an element at the end of the file grows in place by appends: no append may carry it past 2^31-1
                open_big(s);
                int64_t end = big_end(s);
                if (end < LIM - 200000)
                    done = false; // only meaningful once reservations have brought the end near the limit
                else {
                    uint16 ref = (uint16)(100 + s.seq);
                    int32  aid = Hstartaccess(s.big, 8420, ref, DFACC_WRITE | DFACC_APPENDABLE);
                    std::vector<uint8_t> piece = data_block((uint64_t)s.seq, 3000);
                    int64_t total = 0;
                    for (int q = 0; q < 100 && aid != FAIL; q++) {
                        int32 n = Hwrite(aid, (int32)piece.size(), piece.data());
                        if (n == FAIL)
                            break;
                        total += n;
                        if (end + total > LIM)
                            ctx.fail("accepted-over-limit", "accepted-over-limit:Hwrite-append",
                                     strf("appends carried an element that starts at %lld to %lld bytes: it ends beyond 2^31-1", (long long)end, (long long)total));
                    }
                    if (aid != FAIL && Hendaccess(aid) == FAIL)
                        ctx.fail("unusable", "unusable:append-endaccess", strf("Hendaccess after appends near the limit failed: %s", herr().c_str()));
                    if (total > 0 && Hlength(s.big, 8420, ref) != (int32)total)
                        ctx.fail("wrapped", "wrapped:append-length", strf("%lld bytes were appended, the element reports %d", (long long)total, (int)Hlength(s.big, 8420, ref)));
                    scan_big(s, "after appends near the limit");
                    check_smalls(s, "appends near the limit");
                    ctx.probe("append-near-limit");
                }
            }
            else if (k == "sdrecbig") {
                // an unlimited dataset whose single record is tens of megabytes long (legal: far below 2^31): the block size the
                // library derives from the record length (length x 64) must not wrap.  Only the first cells of each record are
                // written, in no-fill mode, into a file of its own.
                static const int32 cells[4] = {8388609, 10000000, 16777217, 33554433}; // x 4 bytes: 2^25+4, 40e6, 2^26+4, 2^27+4
                int32       dims[2] = {SD_UNLIMITED, cells[modn(o.arg(0), 4)]};
                int         nrec    = (int)std::max<int64_t>(1, std::min<int64_t>(3, o.arg(1)));
                std::string bf      = strf("/sim/lim_sdrec_%d.hdf", s.seq);
                int32       bsd     = SDstart(bf.c_str(), DFACC_CREATE);
                if (bsd == FAIL)
                    ctx.fail("unusable", "unusable:sdstart", "SDstart(create) failed");
                SDsetfillmode(bsd, SD_NOFILL);
                int32 id = SDcreate(bsd, "recbig", DFNT_INT32, 2, dims);
                if (id == FAIL)
                    ctx.fail("unusable", "unusable:SDcreate-recbig", strf("SDcreate refuses an unlimited dataset with records of %d int32 values: %s", (int)dims[1], herr().c_str()));
                int32 v[250];
                for (int rr = 0; rr < nrec; rr++) {
                    int32 st[2] = {rr, 0}, ed[2] = {1, 250};
                    for (int q = 0; q < 250; q++)
                        v[q] = rr * 1000 + q + s.seq;
                    if (SDwritedata(id, st, NULL, ed, v) == FAIL)
                        ctx.fail("unusable", "unusable:SDwritedata-recbig", strf("writing the start of record %d (records of %lld bytes) is refused: %s", rr, (long long)dims[1] * 4, herr().c_str()));
                }
                if (SDendaccess(id) == FAIL || SDend(bsd) == FAIL)
                    ctx.fail("unusable", "unusable:sdend-recbig", strf("closing a file with %d records of %lld bytes fails: %s", nrec, (long long)dims[1] * 4, herr().c_str()));
                scan_sparse(s, bf, "after closing a file with huge records");
                bsd = SDstart(bf.c_str(), DFACC_READ);
                int32 ix = bsd == FAIL ? FAIL : SDnametoindex(bsd, "recbig"), id2 = ix == FAIL ? FAIL : SDselect(bsd, ix);
                char  nm[256];
                int32 rank = 0, dm[H4_MAX_VAR_DIMS], nt = 0, na = 0, got[250];
                if (id2 == FAIL || SDgetinfo(id2, nm, &rank, dm, &nt, &na) == FAIL)
                    ctx.fail("unusable", "unusable:sdstart-recbig", "the file with huge records does not open again");
                if (dm[0] != nrec)
                    ctx.fail("wrapped", "wrapped:recbig-count", strf("%d records of %lld bytes were written, %d are there after reopen", nrec, (long long)dims[1] * 4, (int)dm[0]));
                int32 st[2] = {nrec - 1, 0}, ed[2] = {1, 250};
                if (SDreaddata(id2, st, NULL, ed, got) == FAIL || memcmp(got, v, sizeof got) != 0)
                    ctx.fail("wrapped", "wrapped:recbig-data", strf("the start of record %d (records of %lld bytes) does not read back after reopen", nrec - 1, (long long)dims[1] * 4));
                SDendaccess(id2);
                SDend(bsd);
                simfs::disk().erase(bf);
                ctx.probe("records-of-tens-of-megabytes");
            }
            else if (k == "sdcoordbig") {
                // a one-byte-per-cell dataset whose dimension is about 2^30 long is within the limit; the coordinate variable
                // that SDsetdimstrs creates for the dimension (32-bit floats) would be 4 GiB and is not: the call is refused,
                // and a refused call leaves no variable behind -- the file still counts two datasets and opens again
                std::string bf  = strf("/sim/lim_sdcoord_%d.hdf", s.seq);
                int32       bsd = SDstart(bf.c_str(), DFACC_CREATE);
                if (bsd == FAIL)
                    ctx.fail("unusable", "unusable:sdstart", "SDstart(create) failed");
                int32 d1[1] = {3}, d2[1] = {(int32)((1 << 30) + 8 - (int32)modn(o.arg(0), 16))}, st[1] = {0};
                int16 v[3] = {(int16)s.seq, 2, 3}, got[3] = {0, 0, 0};
                int32 a = SDcreate(bsd, "small", DFNT_INT16, 1, d1);
                if (a == FAIL || SDwritedata(a, st, NULL, d1, v) == FAIL || SDendaccess(a) == FAIL)
                    ctx.fail("unusable", "unusable:sdcoordbig-setup", strf("setting up the file failed: %s", herr().c_str()));
                int32 b = SDcreate(bsd, "bytes", DFNT_INT8, 1, d2);
                if (b == FAIL)
                    ctx.fail("unusable", "unusable:SDcreate-coordbig", strf("SDcreate refuses %d one-byte cells: %s", (int)d2[0], herr().c_str()));
                int32 nds = 0, nat = 0;
                intn  rc  = SDsetdimstrs(SDgetdimid(b, 0), "label", "unit", "%f");
                ctx.tr((uint64_t)(int64_t)rc);
                if (SDfileinfo(bsd, &nds, &nat) == FAIL || nds != (rc == FAIL ? 2 : 3))
                    ctx.fail("retained", "retained:coordinate-variable-of-refused-call",
                             strf("SDsetdimstrs on a dimension of %d cells returned %d; the file now counts %d datasets", (int)d2[0], (int)rc, (int)nds));
                if (SDendaccess(b) == FAIL || SDend(bsd) == FAIL)
                    ctx.fail("unusable", "unusable:sdend-coordbig", strf("closing the file fails: %s", herr().c_str()));
                bsd = SDstart(bf.c_str(), DFACC_READ);
                int32 ix = bsd == FAIL ? FAIL : SDnametoindex(bsd, "small"), id2 = ix == FAIL ? FAIL : SDselect(bsd, ix);
                if (id2 == FAIL || SDreaddata(id2, st, NULL, d1, got) == FAIL || memcmp(got, v, sizeof got) != 0)
                    ctx.fail("unusable", "unusable:sdstart-coordbig",
                             strf("after SDsetdimstrs on a dimension of %d cells (returned %d) the file does not open again or the small dataset does not read back", (int)d2[0], (int)rc));
                SDendaccess(id2);
                SDend(bsd);
                simfs::disk().erase(bf);
                ctx.probe(rc == FAIL ? "coordinate-variable-too-big-refused" : "coordinate-variable-too-big-accepted");
            }
            else if (k == "seekfar") {
                // an appendable element at the end of a file of its own: a seek far beyond its end and a write there.  The write
                // is in place, so it is the element's offset PLUS the position PLUS the length that must stay below 2^31.
                std::string f = strf("/sim/lim_seek%d.hdf", s.seq);
                int32       fid = Hopen(f.c_str(), DFACC_CREATE, 0);
                uint8_t     z[16] = {1, 2, 3, 4, 5, 6, 7, 8, 9, 10, 11, 12, 13, 14, 15, 16};
                if (fid == FAIL || Hputelement(fid, 8430, 1, z, 16) != 16)
                    ctx.fail("unusable", "unusable:seekfar-setup", strf("setting up the file failed: %s", herr().c_str()));
                int32 aid = Hstartaccess(fid, 8431, 1, DFACC_WRITE | DFACC_APPENDABLE);
                if (aid == FAIL || Hwrite(aid, 10, z) != 10)
                    ctx.fail("unusable", "unusable:seekfar-setup", strf("creating the appendable element failed: %s", herr().c_str()));
                int32 off = 0;
                if (HQueryoffset(aid, &off) == FAIL || off <= 0)
                    ctx.fail("unusable", "unusable:seekfar-setup", "HQueryoffset on the new element failed");
                int32   wl   = (int32)std::max<int64_t>(1, o.arg(1));
                int64_t posn = LIM - (int64_t)off - wl + o.arg(0); // slack 0: the write ends exactly at 2^31-1
                std::vector<uint8_t> d = data_block((uint64_t)s.seq, (size_t)wl);
                int32 sk = Hseek(aid, (int32)posn, DF_START);
                int32 n  = sk == FAIL ? FAIL : Hwrite(aid, wl, d.data());
                ctx.tr((uint64_t)(int64_t)n);
                bool fits = (int64_t)off + posn + wl <= LIM;
                if (n != FAIL && !fits)
                    ctx.fail("accepted-over-limit", "accepted-over-limit:Hwrite-after-seek",
                             strf("an element at offset %d took a write of %d bytes at position %lld: it ends at %lld, beyond 2^31-1", (int)off, (int)wl, (long long)posn,
                                  (long long)off + posn + wl));
                if (n == FAIL && fits && sk != FAIL)
                    ctx.probe("seekfar-refused-although-it-fits"); // the library may be more careful than the format demands
                if (Hendaccess(aid) == FAIL)
                    ctx.fail("unusable", "unusable:seekfar-endaccess", strf("Hendaccess after the far write failed: %s", herr().c_str()));
                // the file stays usable: something new finds room or is refused, and nothing overlaps
                int32 m = Hputelement(fid, 8432, 1, z, 16);
                (void)m;
                if (o.arg(2)) {
                    int32 l = Hlength(fid, 8431, 1);
                    if (n != FAIL && l != (int32)(posn + wl))
                        ctx.fail("wrapped", "wrapped:seekfar-length", strf("after a write of %d bytes at position %lld the element reports length %d", (int)wl, (long long)posn, (int)l));
                }
                if (Hclose(fid) == FAIL)
                    ctx.fail("unusable", "unusable:seekfar-close", strf("Hclose failed: %s", herr().c_str()));
                scan_sparse(s, f, "after a write far beyond the end of the last element");
                fid = Hopen(f.c_str(), DFACC_READ, 0);
                uint8_t back[16] = {0};
                if (fid == FAIL || Hgetelement(fid, 8430, 1, back) != 16 || memcmp(back, z, 16) != 0)
                    ctx.fail("unusable", "unusable:seekfar-reopen", "the file cannot be read back after the far write");
                if (fid != FAIL)
                    Hclose(fid);
                simfs::disk().erase(f);
                ctx.probe(fits ? "seekfar-fits" : "seekfar-over");
            }
            else if (k == "hlbig") {
                // linked-block element with huge blocks: the sums block_length * n must not wrap
                open_big(s);
                int64_t end = big_end(s);
                int32   bl  = (int32)(LIM / (1 + modn(o.arg(0), 4)) - 16), nb = (int32)std::max<int64_t>(1, o.arg(1));
                uint16  ref = (uint16)(100 + s.seq);
                int32   aid = HLcreate(s.big, 8410, ref, bl, nb);
                if (aid != FAIL) {
                    uint8_t z[3] = {1, 2, 3};
                    int32   w = Hwrite(aid, 3, z);
                    if (w != 3 && w != FAIL)
                        ctx.fail("wrapped", "wrapped:count", strf("Hwrite of 3 bytes into a linked-block element returned %d", (int)w));
                    if (o.arg(2) == 1) { // a second block: must be refused when it cannot lie below 2^31
                        int32 sk = Hseek(aid, bl, DF_START);
                        int32 w2 = sk == FAIL ? FAIL : Hwrite(aid, 3, z);
                        (void)w2;
                    }
                    Hendaccess(aid);
                }
                (void)end;
                scan_big(s, "after a linked-block element with huge blocks");
                check_smalls(s, "a linked-block element with huge blocks");
                ctx.probe("hl-huge-blocks");
            }
            else if (k == "ref65535") {
                open_h(s);
                uint16 tag = (uint16)(8600 + modn(o.arg(0), 3));
                uint8_t z[4] = {'Z', 'Z', 'Z', 'Z'};
                if (Hexist(s.fid, tag, 65535) == FAIL && Hputelement(s.fid, tag, 65535, z, 4) != 4)
                    ctx.fail("unusable", "unusable:ref65535", strf("an element with ref 65535 is refused: %s", herr().c_str()));
                ctx.probe("ref-65535");
            }
            else if (k == "newrefs") {
                // new reference numbers are non-zero, unused and distinct, or 0 when none is left
                open_h(s);
                uint16 tag = (uint16)(8600 + modn(o.arg(0), 3));
                for (int j = 0; j < (int)o.arg(1); j++) {
                    bool   tagwise = (j & 1) != 0;
                    uint16 r = tagwise ? Htagnewref(s.fid, tag) : Hnewref(s.fid);
                    ctx.st.checks++;
                    if (r == 0)
                        ctx.fail("unusable", "unusable:newref", strf("%s returns 0 although reference numbers are free", tagwise ? "Htagnewref" : "Hnewref"));
                    if (Hexist(s.fid, tag, r) != FAIL)
                        ctx.fail("wrapped", strf("wrapped:%s", tagwise ? "Htagnewref" : "Hnewref"),
                                 strf("%s hands out %d, which tag %d already uses", tagwise ? "Htagnewref" : "Hnewref", r, tag));
                    uint8_t z[4] = {'N', (uint8_t)j, 0, 0};
                    if (Hputelement(s.fid, tag, r, z, 4) != 4)
                        ctx.fail("unusable", "unusable:newref-put", strf("cannot store an element under the new ref %d: %s", r, herr().c_str()));
                }
            }
            else if (k == "exhaust") {
                // all 65535 reference numbers of one tag in use (in a file of its own): the next request fails, nothing
                // wraps, other tags still get numbers, a freed number is found again
                std::string rf  = strf("/sim/lim_refs_%d.hdf", s.seq);
                int32       f   = Hopen(rf.c_str(), DFACC_CREATE, (int16)(o.arg(0) ? 16 : 64));
                uint16      tag = 8700;
                uint8_t     z[2] = {'e', 'x'};
                if (f == FAIL || Hputelement(f, tag, 1, z, 2) != 2)
                    ctx.fail("unusable", "unusable:exhaust", "cannot create the first element of the tag to exhaust");
                for (int r = 2; r <= 65535; r++)
                    if (Hdupdd(f, tag, (uint16)r, tag, 1) == FAIL)
                        ctx.fail("unusable", "unusable:exhaust-dup", strf("Hdupdd to ref %d failed with %d of 65535 refs in use: %s", r, r - 1, herr().c_str()));
                ctx.st.checks++;
                if (Hnumber(f, tag) != 65535)
                    ctx.fail("wrapped", "wrapped:Hnumber", strf("65535 descriptors of tag %d exist, Hnumber says %d", tag, (int)Hnumber(f, tag)));
                uint16 r = Htagnewref(f, tag);
                if (r != 0)
                    ctx.fail("accepted-over-limit", "accepted-over-limit:Htagnewref", strf("Htagnewref returns %d for a tag whose 65535 reference numbers are all in use", r));
                if (Hdupdd(f, tag, 0, tag, 1) != FAIL)
                    ctx.fail("accepted-over-limit", "accepted-over-limit:ref0", "a descriptor with reference number 0 was accepted");
                if (o.arg(0)) { // (slow: the library searches every number) no number is unused by every tag
                    uint16 fr = Hnewref(f);
                    if (fr != 0)
                        ctx.fail("wrapped", "wrapped:Hnewref-exhausted", strf("Hnewref returns %d while tag %d uses every reference number", fr, tag));
                }
                uint16 other = Htagnewref(f, 8701);
                if (other == 0 || Hputelement(f, 8701, other, z, 2) != 2)
                    ctx.fail("unusable", "unusable:other-tag", strf("another tag gets no reference number (%d) while tag %d is full", other, tag));
                uint16 freed = (uint16)(2 + (s.seq * 7919) % 65000);
                if (Hdeldd(f, tag, freed) == FAIL)
                    ctx.fail("unusable", "unusable:hdeldd", "Hdeldd of one of the 65535 descriptors failed");
                r = Htagnewref(f, tag);
                if (r != freed)
                    ctx.fail("wrapped", "wrapped:Htagnewref-after-free", strf("after freeing %d of a full tag Htagnewref returns %d", freed, r));
                if (Hclose(f) == FAIL)
                    ctx.fail("unusable", "unusable:close-refs", strf("Hclose of the file with 65535 descriptors of one tag failed: %s", herr().c_str()));
                f = Hopen(rf.c_str(), DFACC_READ, 0);
                if (f == FAIL || Hnumber(f, tag) != 65534 || Hexist(f, tag, 65535) == FAIL || Hexist(f, tag, freed) != FAIL)
                    ctx.fail("wrapped", "wrapped:stored-descriptors", "the file with 65534 descriptors of one tag does not come back with them");
                Hclose(f);
                simfs::disk().erase(rf);
                ctx.probe("refs-exhausted");
            }
            else if (k == "members") {
                open_h(s);
                int32 vg = Vattach(s.fid, -1, "w");
                if (vg == FAIL)
                    ctx.fail("unusable", "unusable:vattach", "Vattach(-1) failed");
                Vsetname(vg, strf("big%d", s.seq).c_str());
                int64_t want = o.arg(0), ok = 0;
                for (int64_t j = 0; j < want; j++) {
                    int32 r = Vaddtagref(vg, 8800, (int32)(1 + j % 60000));
                    if (r == FAIL) {
                        if (j < 65535)
                            ctx.fail("unusable", "unusable:members", strf("Vaddtagref fails at member %lld of a group that may hold 65535: %s", (long long)j, herr().c_str()));
                        ctx.probe("member-65536-refused");
                        break;
                    }
                    ok++;
                    if (j >= 65535)
                        ctx.fail("accepted-over-limit", "accepted-over-limit:Vaddtagref", strf("member number %lld was accepted; the member count of a Vgroup is a 16-bit field", (long long)(j + 1)));
                }
                ctx.st.checks++;
                if (Vntagrefs(vg) != (int32)ok)
                    ctx.fail("wrapped", "wrapped:Vntagrefs", strf("%lld members were accepted, Vntagrefs says %d", (long long)ok, (int)Vntagrefs(vg)));
                uint16 ref = (uint16)VQueryref(vg);
                if (Vdetach(vg) == FAIL)
                    ctx.fail("unusable", "unusable:vdetach", strf("Vdetach of a group with %lld members failed: %s", (long long)ok, herr().c_str()));
                vg = Vattach(s.fid, ref, "r");
                if (vg == FAIL || Vntagrefs(vg) != (int32)ok)
                    ctx.fail("wrapped", "wrapped:Vntagrefs-stored", strf("a group stored with %lld members comes back with %d", (long long)ok, vg == FAIL ? -1 : (int)Vntagrefs(vg)));
                Vdetach(vg);
                if (ok == 65535)
                    ctx.probe("members-65535");
            }
            else if (k == "order" || k == "nfields" || k == "recsize") {
                open_h(s);
                int32 vs = VSattach(s.fid, -1, "w");
                if (vs == FAIL)
                    ctx.fail("unusable", "unusable:vsattach", "VSattach(-1) failed");
                static const int32 types[4] = {DFNT_UINT8, DFNT_INT16, DFNT_INT32, DFNT_FLOAT64};
                static const int   tsz[4]   = {1, 2, 4, 8};
                bool               usable = false;
                int64_t            recsize = 0;
                if (k == "order") {
                    int     t = modn(o.arg(0), 4);
                    int64_t order = std::max<int64_t>(1, o.arg(1));
                    intn    r = VSfdefine(vs, "f", types[t], (int32)order);
                    bool    over = order > 65535 || order * tsz[t] > 65535;
                    if (over) {
                        ctx.probe("order-over-limit-refused");
                        if (r != FAIL)
                            ctx.fail("accepted-over-limit", "accepted-over-limit:VSfdefine", strf("VSfdefine accepts order %lld of a %d-byte type: the field size %lld does not fit the 16-bit fields of the Vdata header",
                                                                                                  (long long)order, tsz[t], (long long)(order * tsz[t])));
                    }
                    else if (r == FAIL)
                        ctx.fail("unusable", "unusable:VSfdefine", strf("VSfdefine refuses order %lld of a %d-byte type (field size %lld): %s", (long long)order, tsz[t], (long long)(order * tsz[t]), herr().c_str()));
                    else {
                        usable  = VSsetfields(vs, "f") != FAIL;
                        recsize = order * tsz[t];
                    }
                }
                else if (k == "nfields") {
                    int         nf = (int)o.arg(0);
                    std::string list;
                    bool        defined = true;
                    for (int j = 0; j < nf && defined; j++) {
                        defined = VSfdefine(vs, strf("g%d", j).c_str(), DFNT_UINT8, 1) != FAIL;
                        if (defined)
                            list += strf("%sg%d", j ? "," : "", j);
                    }
                    intn r = defined ? VSsetfields(vs, list.c_str()) : FAIL;
                    if (nf > VSFIELDMAX) {
                        ctx.probe("fields-257-refused");
                        if (r != FAIL)
                            ctx.fail("accepted-over-limit", "accepted-over-limit:VSsetfields", strf("%d fields were accepted, the documented maximum is %d", nf, VSFIELDMAX));
                    }
                    else if (r == FAIL)
                        ctx.fail("unusable", "unusable:VSsetfields", strf("%d fields are refused, %d are allowed: %s", nf, VSFIELDMAX, herr().c_str()));
                    else {
                        usable  = true;
                        recsize = nf;
                    }
                }
                else {
                    // two fields whose sizes add up to about 65535; the second may be a predefined one (PX: 4 bytes)
                    bool    px    = o.arg(0) == 3 || o.arg(0) == -3;
                    int64_t total = px ? 65535 + (o.arg(0) > 0 ? 3 : -1) : 65535 + o.arg(0), a = px ? total - 4 : 40000, b = total - a;
                    bool    d     = VSfdefine(vs, "p", DFNT_UINT8, (int32)a) != FAIL && (px || VSfdefine(vs, "q", DFNT_UINT8, (int32)b) != FAIL);
                    intn    r     = d ? VSsetfields(vs, px ? "p,PX" : "p,q") : FAIL;
                    if (px)
                        ctx.probe("recsize-with-predefined-field");
                    if (total > 65535) {
                        if (r != FAIL)
                            ctx.fail("accepted-over-limit", "accepted-over-limit:record-size", strf("a record of %lld bytes was accepted; the record size of a Vdata header is a 16-bit field", (long long)total));
                        ctx.probe("recsize-over-limit-refused");
                    }
                    else if (r == FAIL)
                        ctx.fail("unusable", "unusable:record-size", strf("a record of %lld bytes is refused: %s", (long long)total, herr().c_str()));
                    else {
                        usable  = true;
                        recsize = total;
                    }
                }
                if (usable) {
                    // an accepted definition works: size reported, one record written and read back after re-attach
                    ctx.st.checks++;
                    std::vector<uint8_t> rec = data_block((uint64_t)s.seq, (size_t)recsize), got((size_t)recsize + 8, 0x5A);
                    const char          *fl = k == "order" ? "f" : k == "recsize" ? (o.arg(0) == -3 ? "p,PX" : "p,q") : NULL;
                    if (fl && VSsizeof(vs, (char *)fl) != (int32)recsize)
                        ctx.fail("wrapped", "wrapped:VSsizeof", strf("a record of %lld bytes reports size %d", (long long)recsize, (int)VSsizeof(vs, (char *)fl)));
                    if (VSwrite(vs, rec.data(), 1, FULL_INTERLACE) != 1)
                        ctx.fail("unusable", "unusable:VSwrite", strf("cannot write one record of %lld bytes: %s", (long long)recsize, herr().c_str()));
                    uint16 ref = (uint16)VSQueryref(vs);
                    VSdetach(vs);
                    vs = VSattach(s.fid, ref, "r");
                    int32 n = 0, sz = 0;
                    if (vs == FAIL || VSinquire(vs, &n, NULL, NULL, &sz, NULL) == FAIL || n != 1 || sz != (int32)recsize)
                        ctx.fail("wrapped", "wrapped:stored-record-size", strf("a Vdata stored with one record of %lld bytes comes back with %d record(s) of %d bytes", (long long)recsize, (int)n, (int)sz));
                    if (types[modn(o.arg(0), 4)] == DFNT_UINT8 || k != "order") {
                        char fields[VSFIELDMAX * 8];
                        VSgetfields(vs, fields);
                        if (VSsetfields(vs, fields) == FAIL || VSread(vs, got.data(), 1, FULL_INTERLACE) != 1 || memcmp(got.data(), rec.data(), (size_t)recsize) != 0)
                            ctx.fail("wrapped", "wrapped:record-content", strf("one record of %lld bytes does not read back", (long long)recsize));
                    }
                }
                if (vs != FAIL)
                    VSdetach(vs);
            }
            else if (k == "name") {
                int         which = modn(o.arg(0), 9);
                std::string nm    = longname(std::max<int64_t>(1, o.arg(1)), s.seq);
                open_h(s);
                open_sd(s);
                if (which == 0 || which == 1) { // Vdata name / class: 64 characters are kept
                    int32 vs = VSattach(s.fid, -1, "w");
                    if (vs == FAIL)
                        ctx.fail("unusable", "unusable:vsattach", strf("VSattach(-1) failed: %s", herr().c_str()));
                    VSfdefine(vs, "x", DFNT_UINT8, 1);
                    VSsetfields(vs, "x");
                    // the other of the two is set as well (before or after): neighbours in the record must survive
                    const char *other = "neighbour";
                    intn        r;
                    if (o.arg(2))
                        (which == 0 ? VSsetclass(vs, other) : VSsetname(vs, other));
                    r = which == 0 ? VSsetname(vs, nm.c_str()) : VSsetclass(vs, nm.c_str());
                    if (!o.arg(2))
                        (which == 0 ? VSsetclass(vs, other) : VSsetname(vs, other));
                    uint8_t one = 1;
                    VSwrite(vs, &one, 1, FULL_INTERLACE);
                    uint16 ref = (uint16)VSQueryref(vs);
                    VSdetach(vs);
                    vs = VSattach(s.fid, ref, "r");
                    char buf[2][VSNAMELENMAX + 1 + 16];
                    memset(buf, 0x5A, sizeof buf);
                    VSgetname(vs, buf[0]);
                    VSgetclass(vs, buf[1]);
                    for (int b = 0; b < 2; b++) {
                        for (int j = VSNAMELENMAX + 1; j < VSNAMELENMAX + 1 + 16; j++)
                            if (buf[b][j] != 0x5A)
                                ctx.fail("overrun", "overrun:VSgetname", strf("%s stores more than VSNAMELENMAX+1 bytes into the caller's buffer (name of %zu characters given)", b ? "VSgetclass" : "VSgetname", nm.size()));
                        buf[b][VSNAMELENMAX + 16] = 0;
                    }
                    if (r != FAIL)
                        name_ok(s, which == 0 ? "VSsetname" : "VSsetclass", nm, buf[which], VSNAMELENMAX);
                    if (std::string(buf[1 - which]) != other)
                        ctx.fail("name-mangled", strf("name-mangled:%s-neighbour", which == 0 ? "VSsetname" : "VSsetclass"),
                                 strf("after %s with %zu characters the %s of the same Vdata reads '%.30s', set to '%s'", which == 0 ? "VSsetname" : "VSsetclass", nm.size(), which == 0 ? "class" : "name",
                                      buf[1 - which], other));
                    VSdetach(vs);
                    ctx.probe("long-name-vdata");
                }
                else if (which == 2 || which == 3) { // Vgroup name / class: any length
                    int32 vg = Vattach(s.fid, -1, "w");
                    // the group may have a name and a class already: a refused call leaves them as they were
                    bool  pre = o.arg(2) != 0;
                    if (pre && (Vsetname(vg, "name_before") == FAIL || Vsetclass(vg, "class_before") == FAIL))
                        ctx.fail("unusable", "unusable:vsetname", "Vsetname/Vsetclass with a short name failed");
                    intn  r = which == 2 ? Vsetname(vg, nm.c_str()) : Vsetclass(vg, nm.c_str());
                    auto  current = [&](int32 id, bool cls) {
                        uint16 l = 0;
                        (cls ? Vgetclassnamelen(id, &l) : Vgetnamelen(id, &l));
                        std::vector<char> b((size_t)l + 8, 0);
                        (cls ? Vgetclass(id, b.data()) : Vgetname(id, b.data()));
                        return std::string(b.data());
                    };
                    auto unchanged = [&](int32 id, const char *when) {
                        if (current(id, false) != (which == 2 && r != FAIL ? nm : std::string("name_before")) ||
                            current(id, true) != (which == 3 && r != FAIL ? nm : std::string("class_before")))
                            ctx.fail("name-mangled", strf("name-mangled:%s-%s", which == 2 ? "Vsetname" : "Vsetclass", r == FAIL ? "refused" : "neighbour"),
                                     strf("%s: after a %s %s with %zu characters the group has name '%.30s' and class '%.30s' (were 'name_before', 'class_before')", when,
                                          r == FAIL ? "refused" : "successful", which == 2 ? "Vsetname" : "Vsetclass", nm.size(), current(id, false).c_str(),
                                          current(id, true).c_str()));
                    };
                    if (pre)
                        unchanged(vg, "in the session");
                    uint16 ref = (uint16)VQueryref(vg);
                    if (Vdetach(vg) == FAIL)
                        ctx.fail("unusable", "unusable:vdetach", strf("Vdetach after %s with %zu characters failed", which == 2 ? "Vsetname" : "Vsetclass", nm.size()));
                    vg = Vattach(s.fid, ref, "r");
                    if (pre)
                        unchanged(vg, "after detach and attach");
                    if (r != FAIL)
                        name_ok(s, which == 2 ? "Vsetname" : "Vsetclass", nm, current(vg, which == 3).c_str(), 65535);
                    Vdetach(vg);
                    ctx.probe("long-name-vgroup");
                    if (pre && r == FAIL)
                        ctx.probe("long-name-refused-on-named-vgroup");
                }
                else if (which == 4) { // field name
                    int32 vs = VSattach(s.fid, -1, "w");
                    intn  r = VSfdefine(vs, nm.c_str(), DFNT_UINT8, 1);
                    if (r != FAIL && nm.find(',') == std::string::npos) {
                        intn r2 = VSsetfields(vs, nm.c_str());
                        if (r2 != FAIL) {
                            uint8_t one = 1;
                            VSwrite(vs, &one, 1, FULL_INTERLACE);
                            uint16 ref = (uint16)VSQueryref(vs);
                            VSdetach(vs);
                            vs = VSattach(s.fid, ref, "r");
                            std::vector<char> b(nm.size() + 4096, 0);
                            VSgetfields(vs, b.data());
                            name_ok(s, "VSfdefine", nm, b.data(), FIELDNAMELENMAX);
                        }
                    }
                    VSdetach(vs);
                    ctx.probe("long-name-field");
                    {
                        // the same name inside a list: before and behind a short one it is treated as it is alone
                        // (one new vdata per call: the field list of a vdata that is being written is set once)
                        auto tryset = [&](const std::string &list) {
                            int32 v2 = VSattach(s.fid, -1, "w");
                            intn  ok = VSfdefine(v2, nm.c_str(), DFNT_UINT8, 1) != FAIL && VSfdefine(v2, "zq", DFNT_UINT8, 1) != FAIL ? VSsetfields(v2, list.c_str()) : -2;
                            VSdetach(v2);
                            return ok;
                        };
                        int32 v2 = VSattach(s.fid, -1, "w");
                        intn  ra = VSfdefine(v2, nm.c_str(), DFNT_UINT8, 1), rb = VSfdefine(v2, "zq", DFNT_UINT8, 1);
                        if (ra != FAIL && rb != FAIL && nm.find(',') == std::string::npos) {
                            intn alone = tryset(nm), first = tryset(nm + ",zq"), last = tryset("zq," + nm);
                            if ((alone == FAIL) != (first == FAIL) || (alone == FAIL) != (last == FAIL))
                                ctx.fail("name-mangled", "name-mangled:field-in-list",
                                         strf("a field name of %zu characters: VSsetfields alone %s, first in a list %s, last in a list %s", nm.size(), alone == FAIL ? "fails" : "works",
                                              first == FAIL ? "fails" : "works", last == FAIL ? "fails" : "works"));
                            ctx.probe("long-field-name-in-a-list");
                        }
                        VSdetach(v2);
                    }
                }
                else if (which == 5 || which == 6 || which == 7) { // SDS, dimension, attribute names
                    int32 dims[1] = {2};
                    int32 id = SDcreate(s.sd, which == 5 ? nm.c_str() : strf("n%d", s.seq).c_str(), DFNT_INT8, 1, dims);
                    if (id == FAIL) {
                        if (which != 5 || nm.size() <= 64)
                            ctx.fail("unusable", "unusable:SDcreate", strf("SDcreate with a name of %zu characters failed: %s", which == 5 ? nm.size() : (size_t)3, herr().c_str()));
                    }
                    else {
                        char  buf[H4_MAX_NC_NAME + 1 + 16];
                        int32 rk = 0, dm[H4_MAX_VAR_DIMS], nt = 0, na = 0;
                        memset(buf, 0x5A, sizeof buf);
                        if (which == 5) {
                            SDgetinfo(id, buf, &rk, dm, &nt, &na);
                            for (int j = H4_MAX_NC_NAME + 1; j < H4_MAX_NC_NAME + 17; j++)
                                if (buf[j] != 0x5A)
                                    ctx.fail("overrun", "overrun:SDgetinfo", strf("SDgetinfo stores more than H4_MAX_NC_NAME+1 bytes of a name of %zu characters", nm.size()));
                            buf[H4_MAX_NC_NAME + 16] = 0;
                            name_ok(s, "SDcreate", nm, buf, H4_MAX_NC_NAME);
                            ctx.probe("long-name-sds");
                        }
                        else if (which == 6) {
                            int32 dim = SDgetdimid(id, 0);
                            if (SDsetdimname(dim, nm.c_str()) != FAIL) {
                                int32 sz = 0, dnt = 0, dna = 0;
                                SDdiminfo(dim, buf, &sz, &dnt, &dna);
                                for (int j = H4_MAX_NC_NAME + 1; j < H4_MAX_NC_NAME + 17; j++)
                                    if (buf[j] != 0x5A)
                                        ctx.fail("overrun", "overrun:SDdiminfo", strf("SDdiminfo stores more than H4_MAX_NC_NAME+1 bytes of a name of %zu characters", nm.size()));
                                buf[H4_MAX_NC_NAME + 16] = 0;
                                name_ok(s, "SDsetdimname", nm, buf, H4_MAX_NC_NAME);
                            }
                            ctx.probe("long-name-dim");
                        }
                        else {
                            uint8_t v = 9;
                            if (SDsetattr(id, nm.c_str(), DFNT_UINT8, 1, &v) != FAIL) {
                                int32 ant = 0, cnt = 0;
                                SDattrinfo(id, 0, buf, &ant, &cnt);
                                for (int j = H4_MAX_NC_NAME + 1; j < H4_MAX_NC_NAME + 17; j++)
                                    if (buf[j] != 0x5A)
                                        ctx.fail("overrun", "overrun:SDattrinfo", strf("SDattrinfo stores more than H4_MAX_NC_NAME+1 bytes of a name of %zu characters", nm.size()));
                                buf[H4_MAX_NC_NAME + 16] = 0;
                                name_ok(s, "SDsetattr", nm, buf, H4_MAX_NC_NAME);
                            }
                            ctx.probe("long-name-attr");
                        }
                        SDendaccess(id);
                    }
                }
                else { // image name
                    int32 gr = GRstart(s.fid), dm[2] = {2, 2};
                    int32 ri = gr == FAIL ? FAIL : GRcreate(gr, nm.c_str(), 1, DFNT_UINT8, MFGR_INTERLACE_PIXEL, dm);
                    if (ri != FAIL) {
                        uint8_t px[4] = {1, 2, 3, 4};
                        int32   st[2] = {0, 0};
                        GRwriteimage(ri, st, NULL, dm, px);
                        std::vector<char> b(nm.size() + 4096, 0x5A);
                        int32 nc = 0, nt = 0, il = 0, d2[2], na = 0;
                        if (nm.size() <= H4_MAX_GR_NAME) {
                            GRgetiminfo(ri, b.data(), &nc, &nt, &il, d2, &na);
                            name_ok(s, "GRcreate", nm, b.data(), H4_MAX_GR_NAME);
                        }
                        GRendaccess(ri);
                    }
                    if (gr != FAIL && GRend(gr) == FAIL)
                        ctx.fail("unusable", "unusable:GRend", strf("GRend fails after an image with a name of %zu characters: %s", nm.size(), herr().c_str()));
                    ctx.probe("long-name-image");
                }
            }
            else if (k == "rank") {
                open_sd(s);
                int   rank = (int)o.arg(0);
                int32 dims[40];
                for (int d = 0; d < 40; d++)
                    dims[d] = 1;
                int32 id = SDcreate(s.sd, strf("rk%d_%d", rank, s.seq).c_str(), DFNT_INT16, rank, dims);
                if (rank > H4_MAX_VAR_DIMS) {
                    ctx.probe("rank-33-refused");
                    if (id != FAIL)
                        ctx.fail("accepted-over-limit", "accepted-over-limit:SDcreate-rank", strf("SDcreate accepts rank %d, the documented maximum is %d", rank, H4_MAX_VAR_DIMS));
                }
                else if (id == FAIL)
                    ctx.fail("unusable", "unusable:SDcreate-rank", strf("SDcreate refuses rank %d, %d is allowed: %s", rank, H4_MAX_VAR_DIMS, herr().c_str()));
                if (id != FAIL) {
                    int32 st[40] = {0}, v = 1234, g = 0;
                    if (SDwritedata(id, st, NULL, dims, &v) == FAIL || SDreaddata(id, st, NULL, dims, &g) == FAIL || (int16)g != (int16)v)
                        ctx.fail("wrapped", "wrapped:rank", strf("a dataset of rank %d does not take and return one value", rank));
                    SDendaccess(id);
                }
            }
            else if (k == "sdbig") {
                // extents whose byte size crosses 2^31 or 2^32, each in a file of its own: refused, or the dataset works
                // (first and last cell, also after reopen) and the file closes
                static const int32 nts[4] = {DFNT_INT8, DFNT_INT16, DFNT_INT32, DFNT_FLOAT64};
                static const int   sz[4]  = {1, 2, 4, 8};
                int                t      = modn(o.arg(0), 4);
                int64_t            target = (o.arg(1) % 2 == 0 ? 2147483648LL : 4294967296LL) / sz[t] + o.arg(2) * 32768 * (o.arg(1) % 3);
                int32              dims[2], rank = 2;
                dims[1] = 32768;
                dims[0] = (int32)std::max<int64_t>(1, target / dims[1]);
                int64_t     bytes = (int64_t)dims[0] * dims[1] * sz[t];
                std::string bf    = strf("/sim/lim_sdbig_%d.hdf", s.seq);
                int32       bsd   = SDstart(bf.c_str(), DFACC_CREATE);
                if (bsd == FAIL)
                    ctx.fail("unusable", "unusable:sdstart", "SDstart(create) failed");
                // no fill mode: the probe is about offsets, not about writing 2 GiB of fill values
                SDsetfillmode(bsd, SD_NOFILL);
                int32 id = SDcreate(bsd, "big", nts[t], rank, dims);
                if (bytes > LIM)
                    ctx.probe("sds-bytes-over-limit");
                bool   written = false;
                double v = 3, g = 0;
                memset(&v, 0x31, sizeof v);
                int32 st[2] = {dims[0] - 1, dims[1] - 1}, one[2] = {1, 1};
                if (id != FAIL) {
                    intn w = SDwritedata(id, st, NULL, one, &v);
                    if (w != FAIL) {
                        written = true;
                        if (bytes > LIM)
                            ctx.fail("accepted-over-limit", "accepted-over-limit:SDwritedata",
                                     strf("a value at the far corner of a %d x %d dataset of %d-byte values (%lld bytes) was accepted: its offset does not fit 31 bits", (int)dims[0], (int)dims[1], sz[t],
                                          (long long)bytes));
                        if (SDreaddata(id, st, NULL, one, &g) == FAIL || memcmp(&g, &v, (size_t)sz[t]) != 0)
                            ctx.fail("wrapped", "wrapped:sds-far-corner", strf("the far corner of a %d x %d dataset (%lld bytes) does not read back", (int)dims[0], (int)dims[1], (long long)bytes));
                    }
                    else if (bytes + 65536 < LIM)
                        ctx.fail("unusable", "unusable:SDwritedata-big", strf("a value at the far corner of a %d x %d dataset of %d-byte values (%lld bytes) is refused: %s", (int)dims[0], (int)dims[1],
                                                                               sz[t], (long long)bytes, herr().c_str()));
                    SDendaccess(id);
                }
                else {
                    int32 nds = -1, nat = -1;
                    ctx.st.checks++;
                    if (SDfileinfo(bsd, &nds, &nat) == FAIL || nds != 0)
                        ctx.fail("leftover", "leftover:dataset", strf("SDcreate of a %d x %d dataset (%lld bytes) was refused, SDfileinfo counts %d dataset(s) afterwards", (int)dims[0], (int)dims[1], (long long)bytes, (int)nds));
                }
                if (id == FAIL && bytes + 65536 < LIM)
                    ctx.fail("unusable", "unusable:SDcreate-big", strf("SDcreate refuses a %d x %d dataset of %d-byte values (%lld bytes): %s", (int)dims[0], (int)dims[1], sz[t], (long long)bytes, herr().c_str()));
                if (SDend(bsd) == FAIL)
                    ctx.fail("unusable", "unusable:sdend-big", strf("SDend fails for a file with one %d x %d dataset of %d-byte values (%lld bytes, far corner %s): %s", (int)dims[0], (int)dims[1], sz[t],
                                                                     (long long)bytes, written ? "written" : "not written", herr().c_str()));
                scan_sparse(s, bf, "after closing a file with one huge dataset");
                bsd = SDstart(bf.c_str(), DFACC_READ);
                if (bsd == FAIL)
                    ctx.fail("unusable", "unusable:sdstart-big", strf("the file with one huge dataset does not open again: %s", herr().c_str()));
                if (written) {
                    int32 ix = SDnametoindex(bsd, "big"), id2 = ix == FAIL ? FAIL : SDselect(bsd, ix);
                    g = 0;
                    if (id2 == FAIL || SDreaddata(id2, st, NULL, one, &g) == FAIL || memcmp(&g, &v, (size_t)sz[t]) != 0)
                        ctx.fail("wrapped", "wrapped:sds-far-corner-stored", strf("the far corner of a stored %d x %d dataset (%lld bytes) does not read back after reopen", (int)dims[0], (int)dims[1], (long long)bytes));
                    if (id2 != FAIL)
                        SDendaccess(id2);
                }
                SDend(bsd);
                simfs::disk().erase(bf);
            }
            else if (k == "hopen") {
                // more files than the documented table: each open either fails or gives a working id
                int                n = (int)o.arg(0), ok = 0;
                std::vector<int32> ids;
                for (int j = 0; j < n; j++) {
                    int32 f = Hopen(strf("/sim/limf_%d.hdf", j).c_str(), DFACC_CREATE, 0);
                    if (f == FAIL)
                        continue;
                    ids.push_back(f);
                    uint8_t z = (uint8_t)j;
                    if (Hputelement(f, 8900, 1, &z, 1) != 1)
                        ctx.fail("unusable", "unusable:many-files", strf("file number %d opened but cannot be written", j));
                    ok++;
                }
                for (size_t j = 0; j < ids.size(); j++) {
                    uint8_t z = 0xff;
                    if (Hgetelement(ids[j], 8900, 1, &z) != 1)
                        ctx.fail("wrapped", "wrapped:file-table", strf("with %d files open, file id number %zu no longer reads its element", ok, j));
                    if (Hclose(ids[j]) == FAIL)
                        ctx.fail("unusable", "unusable:many-files-close", strf("Hclose of file number %zu failed", j));
                }
                ctx.probe("many-files");
            }
            else if (k == "sdopen") {
                // SDstart of one file until the open-file table is full (the descriptor limit is small in this run)
                close_all(s);
                long lim = (long)p.knob("nofile", 1024), room = lim - 3 + o.arg(0);
                std::vector<int32> ids;
                int                fails = 0;
                for (long j = 0; j < room + 4 && j < 80; j++) {
                    int32 id = SDstart(sdpath.c_str(), DFACC_READ);
                    if (id == FAIL) {
                        fails++;
                        continue;
                    }
                    ids.push_back(id);
                }
                ctx.st.checks++;
                if ((long)ids.size() > lim - 3 && lim - 3 < 80)
                    ctx.fail("accepted-over-limit", "accepted-over-limit:SDstart", strf("%zu files are open through SDstart; the table holds %ld (descriptor limit %ld)", ids.size(), lim - 3, lim));
                if (fails)
                    ctx.probe("open-table-full");
                for (size_t j = 0; j < ids.size(); j++) {
                    int32 nds = 0, na = 0;
                    if (SDfileinfo(ids[j], &nds, &na) == FAIL || nds < 1)
                        ctx.fail("wrapped", "wrapped:sd-file-table", strf("with %zu SD ids open, id number %zu no longer answers SDfileinfo", ids.size(), j));
                }
                for (size_t j = 0; j < ids.size(); j++)
                    if (SDend(ids[j]) == FAIL)
                        ctx.fail("unusable", "unusable:sdend-many", strf("SDend of id number %zu of %zu failed", j, ids.size()));
                int32 id = SDstart(sdpath.c_str(), DFACC_READ);
                if (id == FAIL)
                    ctx.fail("unusable", "unusable:sdstart-after-full", "SDstart fails after the table had been full and was emptied again");
                SDend(id);
            }
            else if (k == "reopen") {
                close_all(s);
                scan_big(s, "after closing");
                // the probe files satisfy the format (the sparse file is scanned page-wise above)
                for (const std::string &f : {path, sdpath}) {
                    if (!simfs::disk().count(f))
                        continue;
                    scan_sparse(s, f, "after closing");
                    if (simfs::disk()[f]->len > (1 << 24))
                        continue; // holds a sparse element: the page-wise scan above is the structural check
                    spec::Reader rd;
                    rd.f = simfs::file_bytes(simfs::disk(), f);
                    const std::vector<std::string> &e = rd.validate();
                    ctx.st.checks++;
                    if (!e.empty())
                        ctx.fail("malformed-file", "malformed-file:after-probes", strf("%s does not satisfy the format after the probes: %s", f.c_str(), e[0].c_str()));
                }
                if (s.big_on_disk) {
                    open_big(s);
                    check_smalls(s, "reopening");
                }
                ctx.probe("reopen");
            }
            else
                done = false;
            if (done) {
                ctx.st.ops_done++;
                check_canaries(s, k.c_str());
                ctx.state(fnv64s(k, (uint64_t)s.smalls.size()));
            }
            else
                ctx.st.ops_skipped++;
        }
        close_all(s);
    }
};

Registrar reg(new Limits);

} // namespace
} // namespace h4
