// prof_layout.cc -- C04: storage layout and tuning knobs never change the data an application sees.
//
// One logical dataset ("slot") is stored several times in one file, once per physical layout ("variant"): contiguous,
// chunked with a generated chunk shape and cache size, chunked+compressed, chunked+n-bit, compressed, n-bit, external,
// unlimited with generated block sizes.  Every logical write goes to all variants, every read is compared with the
// array model for every variant (so also variant against variant).  A whole-chunk call on one chunked variant is the
// same logical access as the hyperslab of that chunk on the others.
#include "hx.h"

namespace h4 {
namespace {

const int NSLOT = 2, MAXVAR = 4, MAXR = 3;

struct LT {
    int32 code;
    int   size;
    int   cls; // 0 8-bit int, 2 16-bit int, 3 32-bit int, 4 float32, 5 float64
};
const LT  LTS[] = {{DFNT_INT8, 1, 0},  {DFNT_UINT8, 1, 0},  {DFNT_INT16, 2, 2},   {DFNT_UINT16, 2, 2},
                   {DFNT_INT32, 4, 3}, {DFNT_UINT32, 4, 3}, {DFNT_FLOAT32, 4, 4}, {DFNT_FLOAT64, 8, 5}};
const int NLT   = 8, NLT_INT = 6;

enum { V_CONTIG = 0, V_CHUNK, V_CHUNK_COMP, V_CHUNK_NBIT, V_COMP, V_NBIT, V_EXTERNAL, V_BLOCKSIZE, V_KINDS };
static const char *vname(int k)
{
    static const char *n[] = {"contiguous", "chunked", "chunked+compressed", "chunked+nbit", "compressed", "nbit", "external", "blocksize"};
    return n[k % V_KINDS];
}

struct Var {
    int   kind = V_CONTIG;
    int32 c[MAXR] = {1, 1, 1};
    int   coder = 0, cparam = 0, cache = 0, extoff = 0, blocksize = 0;
    int32 id = FAIL;
    bool  created = false;
    bool  late = false, pending = false; // the layout is selected in a later call (possibly a later session) than SDcreate
    bool  fill_after = false;            // SDsetfillvalue comes after the layout call (both before any data)
    bool  chunked() const { return kind == V_CHUNK || kind == V_CHUNK_COMP || kind == V_CHUNK_NBIT; }
};

struct Slot {
    bool  exists = false;
    int   rank = 1, nt = 0;
    int32 dims[MAXR] = {1, 1, 1};
    bool  unlimited = false, whole_only = false, nbit_safe = false, user_fill = false, any_write = false;
    int   nbstart = 0, nblen = 1, nbmode = 0;
    int32 nrec = 0;
    uint8_t fill[8];
    std::vector<uint8_t> cell;
    int   nvar = 0;
    Var   v[MAXVAR];
    int   esz() const { return LTS[nt].size; }
    int32 extent(int d) const { return (d == 0 && unlimited) ? nrec : dims[d]; }
    size_t rowcells() const
    {
        size_t n = 1;
        for (int d = 1; d < rank; d++)
            n *= (size_t)dims[d];
        return n;
    }
};

// ---- raster images: one logical image stored in several layouts
enum { G_PLAIN = 0, G_CHUNK, G_CHUNK_COMP, G_COMP, G_EXT, G_KINDS };
static const char *gname(int k)
{
    static const char *n[] = {"gr-plain", "gr-chunked", "gr-chunked+compressed", "gr-compressed", "gr-external"};
    return n[k % G_KINDS];
}
struct GVar {
    int   kind = G_PLAIN, c0 = 1, c1 = 1, coder = 1, cparam = 1, cache = 0;
    int32 ri = FAIL;
    bool  chunked() const { return kind == G_CHUNK || kind == G_CHUNK_COMP; }
};
struct GSlot {
    bool  exists = false, created = false, any_write = false, user_fill = false;
    int   w = 1, h = 1, nc = 1, nt = 0, il = 0, read_il = 0;
    bool  il_known = true; // false after a reopen until the first image says which interlace it has now
    std::vector<uint8_t> fill, pix; // nc elements; [y][x][c]
    int   nvar = 0;
    GVar  v[MAXVAR];
    int   esz() const { return LTS[nt].size; }
};
// index of component c of pixel (x,y) in a cw x ch block held in interlace il
static size_t ilidx(int il, int x, int y, int c, int cw, int ch, int nc)
{
    switch (il) {
        case MFGR_INTERLACE_LINE:
            return ((size_t)y * (size_t)nc + (size_t)c) * (size_t)cw + (size_t)x;
        case MFGR_INTERLACE_COMPONENT:
            return ((size_t)c * (size_t)ch + (size_t)y) * (size_t)cw + (size_t)x;
        default:
            return ((size_t)y * (size_t)cw + (size_t)x) * (size_t)nc + (size_t)c;
    }
}

static void default_fill(const LT &t, uint8_t *out)
{
    switch (t.cls) {
        case 0: {
            char v = FILL_BYTE;
            memcpy(out, &v, 1);
            break;
        }
        case 2: {
            short v = FILL_SHORT;
            memcpy(out, &v, 2);
            break;
        }
        case 3: {
            int32 v = (int32)FILL_LONG;
            memcpy(out, &v, 4);
            break;
        }
        case 4: {
            float v = FILL_FLOAT;
            memcpy(out, &v, 4);
            break;
        }
        default: {
            double v = FILL_DOUBLE;
            memcpy(out, &v, 8);
            break;
        }
    }
}

struct Layout : Profile {
    const char *name() const override { return "layout"; }
    const char *property() const override { return "C04"; }
    int         runs(bool thorough) const override { return thorough ? 150000 : 6000; }
    std::string rule() const override
    {
        return "each case = one generated plan: 1..2 logical datasets (rank 1..3, extents 1..7, 8 number types, user/default fill, "
               "optionally unlimited) each stored in 2..4 layouts at once (contiguous; chunked with any chunk shape incl. non-dividing "
               "and larger than the extent, cache size 1..8; chunked+RLE/skphuff/deflate; chunked+n-bit; compressed; n-bit; external "
               "file with offset; unlimited with block sizes), 12..60 slab writes, slab/strided reads, whole-chunk writes and reads, "
               "cache resizes, releases, reopens; descriptor-block and linked-block size knobs; oracle = array model compared with "
               "every layout after every read (layout against layout follows); non-trivial = >= 2 ops and >= 1 comparison";
    }
    std::vector<std::string> assumptions() const override
    {
        return {"datasets with a compressed (non-chunked) layout are written as a whole per call (the coders take sequential data only)",
                "datasets with an n-bit layout hold values the bit field represents exactly (n-bit is a projection, C05)",
                "chunked and compressed layouts have fixed dimensions (the API refuses them for unlimited datasets)",
                "the ghost area of an edge chunk is not compared",
                "the fill value is set before the layout is selected (a chunked layout freezes the fill value into its chunk record at SDsetchunk; setting it afterwards only changes the attribute: knob unguard_fill_after_layout shows the difference)",
                "a fixed-size dataset with an external layout is first written as a whole (never-written cells of an external element are the external file's own bytes: the wrapper use of SDsetexternalfile)"};
    }
    std::vector<std::string> required_probes() const override
    {
        return {"chunked", "chunked+compressed", "chunked+nbit", "compressed", "nbit", "external", "blocksize", "edge-chunk", "chunk-write",
                "chunk-read", "cache-1", "fill-checked", "reopen", "unlimited-grow", "strided-read", "chunk-larger-than-extent",
                "layout-selected-later", "high-rank", "rank>=19", "gr-chunked", "gr-chunked+compressed", "gr-compressed", "gr-chunk-write", "gr-chunk-read", "gr-chunk-read-interlaced", "gr-chunk-read-interlaced-nonsquare",
                "gr-chunk-write-interlaced-nonsquare", "gr-external"};
    }

    // ------------------------------------------------------------------ generator
    Plan generate(Rng &rng, bool thorough, uint64_t) override
    {
        Plan p;
        p.seed = rng.next();
        Rng kr = rng.sub(1);
        if (kr.chance(0.5))
            p.knobs["ndds_override"] = kr.range(1, 6);
        if (kr.chance(0.5))
            p.knobs["blklen"] = kr.range(1, 64);
        if (kr.chance(0.3))
            p.knobs["blknum"] = kr.range(1, 4);
        Rng r     = rng.sub(2);
        int nslot = (int)r.range(1, NSLOT);
        struct G {
            int  rank, nvar;
            bool unl, whole, nb;
            int  kinds[MAXVAR];
            int32 dims[MAXR], c[MAXVAR][MAXR];
        } g[NSLOT];
        for (int s = 0; s < nslot; s++) {
            G &q     = g[s];
            q.rank   = (int)r.range(1, MAXR);
            int mode = (int)r.below(20); // 0..10 general, 11..13 whole-only, 14..16 n-bit safe, 17..19 unlimited
            q.whole  = mode >= 11 && mode <= 13;
            q.nb     = mode >= 14 && mode <= 16;
            q.unl    = mode >= 17;
            int nt   = (int)r.below(q.nb ? NLT_INT : NLT);
            for (int d = 0; d < MAXR; d++)
                q.dims[d] = d < q.rank ? (int32)r.range(1, r.chance(0.15) ? 12 : 7) : 1;
            int bits = LTS[nt].size * 8, nbmode = (int)r.below(4), nbstart = (int)r.below((uint64_t)bits);
            int nblen = (nbmode == 1 || nbmode == 3) ? nbstart + 1 : 1 + (int)r.below((uint64_t)nbstart + 1);
            p.ops.push_back(mkop(0, "slot", {s, q.rank, q.dims[0], q.dims[1], q.dims[2], nt, (int64_t)r.below(2), q.unl, q.whole, q.nb, nbstart, nblen, nbmode,
                                             (int64_t)(r.next() >> 16)}));
            q.nvar       = (int)r.range(2, MAXVAR);
            q.kinds[0]   = V_CONTIG;
            for (int v = 1; v < q.nvar; v++) {
                int k;
                if (q.unl)
                    k = r.chance(0.5) ? V_BLOCKSIZE : r.chance(0.6) ? V_EXTERNAL : V_CONTIG;
                else if (q.whole)
                    k = r.chance(0.6) ? V_COMP : r.chance(0.5) ? V_CHUNK_COMP : V_CHUNK;
                else if (q.nb)
                    k = r.chance(0.45) ? V_CHUNK_NBIT : r.chance(0.6) ? V_NBIT : V_CHUNK;
                else {
                    static const int pool[] = {V_CHUNK, V_CHUNK, V_CHUNK, V_CHUNK_COMP, V_CHUNK_COMP, V_EXTERNAL, V_CONTIG};
                    k = pool[r.below(7)];
                }
                q.kinds[v] = k;
                for (int d = 0; d < MAXR; d++) {
                    // every shape for small extents: any length 1..extent, sometimes beyond the extent
                    int32 e    = d < q.rank ? q.dims[d] : 1;
                    q.c[v][d]  = d < q.rank ? (int32)(r.chance(0.1) ? e + r.range(1, 2) : r.range(1, e)) : 1;
                }
                p.ops.push_back(mkop(0, "variant", {s, k, q.c[v][0], q.c[v][1], q.c[v][2], 1 + (int64_t)r.below(3), r.chance(0.7) ? r.range(1, 9) : r.range(10, 16),
                                                    r.chance(0.4) ? 1 : r.range(0, 8), (int64_t)r.below(3) * 7, r.range(1, 200), r.chance(0.3) ? 1 : 0, r.chance(0.3) ? 1 : 0}));
            }
        }
        for (int s = 0; s < nslot; s++)
            if (r.chance(0.35)) {
                p.ops.push_back(mkop(0, "precreate", {s}));
                if (r.chance(0.6))
                    p.ops.push_back(mkop(0, "reopen", {}));
            }
        // chunking is per dimension: a dataset of high rank (up to the documented 32) in a chunked and a contiguous layout
        if (r.chance(0.15))
            p.ops.push_back(mkop(0, "hirank", {r.range(4, 32), (int64_t)r.below(3), (int64_t)(r.next() >> 16)}));
        // a raster image in several layouts (in about half of the plans)
        bool gr = r.chance(0.5);
        int  gw = 1, gh = 1;
        if (gr) {
            gw = (int)r.range(1, 8);
            gh = r.chance(0.6) ? gw : (int)r.range(1, 8);
            p.ops.push_back(mkop(0, "gslot", {gw, gh, r.range(1, 3), (int64_t)r.below(NLT), (int64_t)r.below(3), (int64_t)r.below(2), (int64_t)(r.next() >> 16)}));
            int nv = (int)r.range(1, MAXVAR - 1);
            for (int v = 0; v < nv; v++)
                p.ops.push_back(mkop(0, "gvariant", {1 + (int64_t)r.below(4), r.chance(0.1) ? gw + 1 : r.range(1, gw), r.chance(0.1) ? gh + 1 : r.range(1, gh),
                                                     1 + (int64_t)r.below(3), r.range(1, 9), r.chance(0.4) ? 1 : r.range(0, 6)}));
        }
        int nops = (int)r.range(12, thorough ? 90 : 60);
        static const std::vector<int> w = {/*write*/ 30, /*read*/ 30, /*wchunk*/ 10, /*rchunk*/ 10, /*cache*/ 5, /*release*/ 5, /*reopen*/ 4, /*readall*/ 6};
        static const char            *names[] = {"write", "read", "wchunk", "rchunk", "cache", "release", "reopen", "readall"};
        for (int i = 0; i < nops; i++) {
            if (gr && r.chance(0.4)) {
                switch (r.below(10)) {
                    case 0:
                    case 1:
                    case 2: {
                        int64_t x0 = (int64_t)r.below((uint64_t)gw), y0 = (int64_t)r.below((uint64_t)gh);
                        p.ops.push_back(mkop(0, "gwrite", {x0, y0, 1 + (int64_t)r.below((uint64_t)(gw - x0)), 1 + (int64_t)r.below((uint64_t)(gh - y0)), (int64_t)(r.next() >> 16)}));
                        break;
                    }
                    case 3:
                    case 4:
                    case 5:
                        p.ops.push_back(mkop(0, "gread", {(int64_t)r.below((uint64_t)gw), (int64_t)r.below((uint64_t)gh), (int64_t)r.below(8), (int64_t)r.below(8), r.chance(0.3) ? 2 : 1,
                                                          r.chance(0.3) ? 2 : 1, (int64_t)r.below(3)}));
                        break;
                    case 6:
                        p.ops.push_back(mkop(0, "gwchunk", {(int64_t)r.below(MAXVAR), (int64_t)r.below(8), (int64_t)r.below(8), (int64_t)(r.next() >> 16)}));
                        break;
                    case 7:
                        p.ops.push_back(mkop(0, "grchunk", {(int64_t)r.below(MAXVAR), (int64_t)r.below(8), (int64_t)r.below(8), (int64_t)r.below(3)}));
                        break;
                    case 8:
                        p.ops.push_back(mkop(0, r.chance(0.5) ? "gcache" : "grelease", {(int64_t)r.below(MAXVAR), r.chance(0.5) ? 1 : r.range(1, 8)}));
                        break;
                    default:
                        p.ops.push_back(mkop(0, "greadall", {(int64_t)r.below(3)}));
                }
                continue;
            }
            int     k = r.weighted(w);
            int64_t s = (int64_t)r.below((uint64_t)nslot);
            G      &q = g[s];
            switch (k) {
                case 0:
                case 1: {
                    int64_t a[13] = {s};
                    for (int d = 0; d < MAXR; d++) {
                        int64_t e = d < q.rank ? q.dims[d] : 1;
                        if (d == 0 && q.unl)
                            e = q.dims[0] + 4; // may grow the record dimension
                        int64_t st = (int64_t)r.below((uint64_t)e), n = 1 + (int64_t)r.below((uint64_t)(e - st));
                        if (r.chance(0.3)) {
                            st = 0;
                            n  = e;
                        }
                        a[1 + d] = st;
                        a[4 + d] = n;
                        a[7 + d] = (k == 1 && r.chance(0.25)) ? r.range(2, 3) : 1;
                    }
                    a[10] = (int64_t)(r.next() >> 16);
                    p.ops.push_back(mkop(0, names[k], {a[0], a[1], a[2], a[3], a[4], a[5], a[6], a[7], a[8], a[9], a[10]}));
                    break;
                }
                case 2:
                case 3:
                    p.ops.push_back(mkop(0, names[k], {s, (int64_t)r.below(MAXVAR), (int64_t)r.below(8), (int64_t)r.below(8), (int64_t)r.below(8), (int64_t)(r.next() >> 16)}));
                    break;
                case 4:
                    p.ops.push_back(mkop(0, names[k], {s, (int64_t)r.below(MAXVAR), r.chance(0.5) ? 1 : r.range(1, 10)}));
                    break;
                case 5:
                case 7:
                    p.ops.push_back(mkop(0, names[k], {s}));
                    break;
                case 6:
                    p.ops.push_back(mkop(0, names[k], {}));
                    break;
            }
        }
        p.ops.push_back(mkop(0, "reopen", {}));
        for (int s = 0; s < nslot; s++)
            p.ops.push_back(mkop(0, "readall", {s}));
        if (gr)
            p.ops.push_back(mkop(0, "greadall", {(int64_t)r.below(3)}));
        return p;
    }
    bool removable(const Plan &p, size_t i) const override { return p.ops[i].kind != "slot" && p.ops[i].kind != "gslot"; }

    // ------------------------------------------------------------------ executor
    struct S {
        Ctx  &ctx;
        Slot  sl[NSLOT];
        int32 sd = FAIL;
        bool  on_disk = false;
        GSlot g;
        int32 gfid = FAIL, grid = FAIL;
        bool  g_on_disk = false;
        explicit S(Ctx &c) : ctx(c) {}
    };
    const std::string path = "/sim/lay.hdf", gpath = "/sim/lay_gr.hdf";

    // ------------------------------------------------------------------ raster part
    void open_gr(S &s)
    {
        if (s.grid != FAIL)
            return;
        s.gfid = Hopen(gpath.c_str(), s.g_on_disk ? DFACC_RDWR : DFACC_CREATE, 0);
        s.grid = s.gfid == FAIL ? FAIL : GRstart(s.gfid);
        if (s.grid == FAIL)
            s.ctx.fail("open-failed", "open-failed:gr", strf("Hopen/GRstart failed: %s", herr().c_str()));
        s.g_on_disk = true;
    }
    void close_gr(S &s)
    {
        if (s.grid == FAIL)
            return;
        for (int v = 0; v < s.g.nvar; v++)
            if (s.g.v[v].ri != FAIL) {
                if (GRendaccess(s.g.v[v].ri) == FAIL)
                    s.ctx.fail("endaccess-failed", strf("endaccess-failed:%s", gname(s.g.v[v].kind)), strf("GRendaccess failed: %s", herr().c_str()));
                s.g.v[v].ri = FAIL;
            }
        if (GRend(s.grid) == FAIL || Hclose(s.gfid) == FAIL)
            s.ctx.fail("close-failed", "close-failed:gr", strf("GRend/Hclose failed: %s", herr().c_str()));
        s.grid = s.gfid = FAIL;
        s.g.il_known    = false;
    }
    int32 gsel(S &s, int v)
    {
        GSlot &g = s.g;
        open_gr(s);
        if (g.v[v].ri != FAIL)
            return g.v[v].ri;
        int32 ix = GRnametoindex(s.grid, strf("g_v%d", v).c_str());
        int32 ri = ix == FAIL ? FAIL : GRselect(s.grid, ix);
        if (ri == FAIL)
            s.ctx.fail("lookup-failed", strf("lookup-failed:%s", gname(g.v[v].kind)), strf("image g_v%d not found: %s", v, herr().c_str()));
        g.v[v].ri = ri;
        if (g.v[v].chunked() && g.v[v].cache > 0)
            GRsetchunkcache(ri, g.v[v].cache, 0);
        // the interlace given to GRcreate is not kept in the file: a stored image says which one its buffers have now
        // (C09 ruling); every layout has to say the same
        int32 nc = 0, nt = 0, il = 0, dm[2] = {0, 0}, na = 0;
        if (GRgetiminfo(ri, NULL, &nc, &nt, &il, dm, &na) == FAIL)
            s.ctx.fail("lookup-failed", "lookup-failed:iminfo", "GRgetiminfo failed");
        if (nc != g.nc || dm[0] != g.w || dm[1] != g.h || (nt & 0xfff) != (LTS[g.nt].code & 0xfff))
            s.ctx.fail("layout-mismatch", strf("layout-mismatch:%s:info", gname(g.v[v].kind)),
                       strf("the %s layout reports %d components, %dx%d, type %d; created with %d, %dx%d, type %d", gname(g.v[v].kind), (int)nc, (int)dm[0], (int)dm[1], (int)nt, g.nc,
                            g.w, g.h, (int)LTS[g.nt].code));
        if (g.il_known && il != g.il)
            s.ctx.fail("layout-mismatch", strf("layout-mismatch:%s:interlace", gname(g.v[v].kind)),
                       strf("the %s layout reports interlace %d where the other layouts of the same image report %d", gname(g.v[v].kind), (int)il, g.il));
        g.il       = (int)il;
        g.il_known = true;
        return ri;
    }
    void gcreate(S &s)
    {
        GSlot &g = s.g;
        open_gr(s);
        for (int v = 0; v < g.nvar; v++) {
            GVar &x = g.v[v];
            int32 dims[2] = {g.w, g.h};
            int32 ri = GRcreate(s.grid, strf("g_v%d", v).c_str(), g.nc, LTS[g.nt].code, g.il, dims);
            if (ri == FAIL)
                s.ctx.fail("create-refused", "create-refused:gr", strf("GRcreate failed: %s", herr().c_str()));
            if (g.user_fill && GRsetattr(ri, FILL_ATTR, LTS[g.nt].code, g.nc, g.fill.data()) == FAIL)
                s.ctx.fail("create-refused", "create-refused:gr-fill", "GRsetattr(FILL_ATTR) failed");
            HDF_CHUNK_DEF cd;
            memset(&cd, 0, sizeof cd);
            comp_info ci;
            memset(&ci, 0, sizeof ci);
            comp_coder_t ct = x.coder == 1 ? COMP_CODE_RLE : x.coder == 2 ? COMP_CODE_SKPHUFF : COMP_CODE_DEFLATE;
            if (x.coder == 2)
                ci.skphuff.skp_size = std::max(1, x.cparam);
            if (x.coder == 3)
                ci.deflate.level = x.cparam % 10;
            intn rc = SUCCEED;
            if (x.kind == G_CHUNK) {
                cd.chunk_lengths[0] = x.c0;
                cd.chunk_lengths[1] = x.c1;
                rc                  = GRsetchunk(ri, cd, HDF_CHUNK);
            }
            else if (x.kind == G_CHUNK_COMP) {
                cd.comp.chunk_lengths[0] = x.c0;
                cd.comp.chunk_lengths[1] = x.c1;
                cd.comp.comp_type        = ct;
                cd.comp.cinfo            = ci;
                rc                       = GRsetchunk(ri, cd, HDF_CHUNK | HDF_COMP);
            }
            else if (x.kind == G_COMP)
                rc = GRsetcompress(ri, ct, &ci);
            else if (x.kind == G_EXT) // every external variant has its own place in ONE external file
                rc = GRsetexternalfile(ri, "/sim/lay_grext.dat", 64 + v * 8192);
            if (rc == FAIL)
                s.ctx.fail("layout-refused", strf("layout-refused:%s", gname(x.kind)), strf("selecting the %s layout for a new image failed: %s", gname(x.kind), herr().c_str()));
            if (x.chunked() && x.cache > 0)
                GRsetchunkcache(ri, x.cache, 0);
            x.ri = ri;
            s.ctx.probe(gname(x.kind));
        }
        g.created = true;
    }
    // whole-chunk calls address the image as chunk rows x chunk columns (square images only, see DESIGN)
    bool chunk_region(const GSlot &g, const GVar &x, int o0, int o1, int32 *origin, int *y0, int *x0, int *cy, int *cx)
    {
        if (g.w != g.h)
            return false;
        int n0 = (g.h + x.c0 - 1) / x.c0, n1 = (g.w + x.c1 - 1) / x.c1;
        origin[0] = modn(o0, n0);
        origin[1] = modn(o1, n1);
        *y0       = origin[0] * x.c0;
        *x0       = origin[1] * x.c1;
        *cy       = std::min(x.c0, g.h - *y0);
        *cx       = std::min(x.c1, g.w - *x0);
        return true;
    }
    void gwrite(S &s, int x0, int y0, int cx, int cy, uint64_t ds, int chunk_var, const int32 *origin)
    {
        GSlot &g = s.g;
        if (!g.created)
            gcreate(s);
        int esz = g.esz();
        for (int v = 0; v < g.nvar; v++)
            gsel(s, v);
        for (int v = 0; v < g.nvar; v++) {
            GVar &x = g.v[v];
            int32 ri = gsel(s, v);
            if (v == chunk_var) {
                int bw = x.c1, bh = x.c0; // the chunk buffer: c0 rows of c1 pixels, in the image's interlace
                std::vector<uint8_t> cb((size_t)bw * (size_t)bh * (size_t)g.nc * (size_t)esz, 0xEE);
                for (int yy = 0; yy < cy; yy++)
                    for (int xx = 0; xx < cx; xx++)
                        for (int c = 0; c < g.nc; c++)
                            value_t(LTS[g.nt], ds, (uint64_t)((yy * 64 + xx) * 8 + c), cb.data() + ilidx(g.il, xx, yy, c, bw, bh, g.nc) * (size_t)esz);
                int32 og[2] = {origin[0], origin[1]};
                if (GRwritechunk(ri, og, cb.data()) == FAIL)
                    s.ctx.fail("write-refused", strf("write-refused:chunk:%s", gname(x.kind)), strf("GRwritechunk(%d,%d) failed: %s", (int)og[0], (int)og[1], herr().c_str()));
                s.ctx.probe("gr-chunk-write");
            }
            else {
                std::vector<uint8_t> buf((size_t)cx * (size_t)cy * (size_t)g.nc * (size_t)esz);
                for (int yy = 0; yy < cy; yy++)
                    for (int xx = 0; xx < cx; xx++)
                        for (int c = 0; c < g.nc; c++)
                            value_t(LTS[g.nt], ds, (uint64_t)((yy * 64 + xx) * 8 + c), buf.data() + ilidx(g.il, xx, yy, c, cx, cy, g.nc) * (size_t)esz);
                int32 st[2] = {x0, y0}, cn[2] = {cx, cy};
                if (GRwriteimage(ri, st, NULL, cn, buf.data()) == FAIL)
                    s.ctx.fail("write-refused", strf("write-refused:%s", gname(x.kind)),
                               strf("GRwriteimage(start %d,%d count %d,%d) on the %s layout of the %dx%d image failed: %s", x0, y0, cx, cy, gname(x.kind), g.w, g.h, herr().c_str()));
            }
        }
        g.any_write = true;
        for (int yy = 0; yy < cy; yy++)
            for (int xx = 0; xx < cx; xx++)
                for (int c = 0; c < g.nc; c++)
                    value_t(LTS[g.nt], ds, (uint64_t)((yy * 64 + xx) * 8 + c), g.pix.data() + (((size_t)(y0 + yy) * (size_t)g.w + (size_t)(x0 + xx)) * (size_t)g.nc + (size_t)c) * (size_t)esz);
    }
    void gcompare(S &s, int v, int x0, int y0, int sx, int sy, int cx, int cy, int il, const uint8_t *buf, int bw, int bh, const char *how)
    {
        GSlot &g   = s.g;
        int    esz = g.esz();
        s.ctx.st.checks++;
        for (int yy = 0; yy < cy; yy++)
            for (int xx = 0; xx < cx; xx++)
                for (int c = 0; c < g.nc; c++) {
                    const uint8_t *want = g.pix.data() + (((size_t)(y0 + yy * sy) * (size_t)g.w + (size_t)(x0 + xx * sx)) * (size_t)g.nc + (size_t)c) * (size_t)esz;
                    const uint8_t *got  = buf + ilidx(il, xx, yy, c, bw, bh, g.nc) * (size_t)esz;
                    if (memcmp(want, got, (size_t)esz) != 0)
                        s.ctx.fail("layout-mismatch", strf("layout-mismatch:%s:%s", gname(g.v[v].kind), how),
                                   strf("%dx%dx%d image (type %d, stored interlace %d) stored as %s (chunks %dx%d coder %d cache %d): %s start %d,%d count %d,%d stride %d,%d read "
                                        "interlace %d: pixel (%d,%d) component %d reads %s, model (= plain layout) has %s",
                                        g.w, g.h, g.nc, (int)LTS[g.nt].code, g.il, gname(g.v[v].kind), g.v[v].c0, g.v[v].c1, g.v[v].coder, g.v[v].cache, how, x0, y0, cx, cy, sx, sy, il,
                                        x0 + xx * sx, y0 + yy * sy, c, hexs(got, (size_t)esz).c_str(), hexs(want, (size_t)esz).c_str()));
                }
    }
    void gread(S &s, int x0, int y0, int sx, int sy, int cx, int cy, int il, const char *how)
    {
        GSlot &g = s.g;
        for (int v = 0; v < g.nvar; v++) {
            int32 ri = gsel(s, v);
            if (GRreqimageil(ri, il) == FAIL)
                s.ctx.fail("read-refused", "read-refused:reqil", "GRreqimageil failed");
            std::vector<uint8_t> buf((size_t)cx * (size_t)cy * (size_t)g.nc * (size_t)g.esz() + 16, 0x5A);
            int32 st[2] = {x0, y0}, sd[2] = {sx, sy}, cn[2] = {cx, cy};
            if (GRreadimage(ri, st, (sx == 1 && sy == 1) ? NULL : sd, cn, buf.data()) == FAIL)
                s.ctx.fail("read-refused", strf("read-refused:%s", gname(g.v[v].kind)), strf("GRreadimage on the %s layout failed: %s", gname(g.v[v].kind), herr().c_str()));
            gcompare(s, v, x0, y0, sx, sy, cx, cy, il, buf.data(), cx, cy, how);
        }
        g.read_il = il;
    }
    static void value_t(const LT &t, uint64_t dseed, uint64_t n, uint8_t *out)
    {
        uint64_t w = mix64(dseed, n);
        if (t.cls == 4) {
            float f = (float)(int32)(w % 200001) - 100000.0f;
            memcpy(out, &f, 4);
        }
        else if (t.cls == 5) {
            double f = (double)(int64_t)(w % 2000000001ULL) - 1000000000.0;
            memcpy(out, &f, 8);
        }
        else
            memcpy(out, &w, (size_t)t.size);
    }
    bool gop(S &s, const Op &o)
    {
        GSlot             &g = s.g;
        const std::string &k = o.kind;
        Ctx               &ctx = s.ctx;
        if (k == "gslot") {
            if (g.exists)
                return false;
            g        = GSlot();
            g.exists = true;
            g.w      = (int)std::max<int64_t>(1, std::min<int64_t>(o.arg(0), 12));
            g.h      = (int)std::max<int64_t>(1, std::min<int64_t>(o.arg(1), 12));
            g.nc     = 1 + modn(o.arg(2) - 1, 4);
            g.nt     = modn(o.arg(3), NLT);
            g.il     = modn(o.arg(4), 3);
            g.user_fill = o.arg(5) != 0;
            g.fill.assign((size_t)g.nc * (size_t)g.esz(), 0);
            if (g.user_fill)
                for (int c = 0; c < g.nc; c++)
                    value_t(LTS[g.nt], (uint64_t)o.arg(6), (uint64_t)c, g.fill.data() + (size_t)c * (size_t)g.esz());
            g.pix.resize((size_t)g.w * (size_t)g.h * (size_t)g.nc * (size_t)g.esz());
            for (size_t pi = 0; pi < (size_t)g.w * (size_t)g.h; pi++)
                memcpy(g.pix.data() + pi * g.fill.size(), g.fill.data(), g.fill.size());
            g.nvar = 1;
            g.v[0] = GVar();
            return true;
        }
        if (!g.exists)
            return false;
        if (k == "gvariant") {
            if (g.created || g.nvar >= MAXVAR)
                return false;
            GVar x;
            x.kind   = modn(o.arg(0), G_KINDS);
            x.c0     = (int)std::max<int64_t>(1, std::min<int64_t>(o.arg(1), 14));
            x.c1     = (int)std::max<int64_t>(1, std::min<int64_t>(o.arg(2), 14));
            x.coder  = 1 + modn(o.arg(3) - 1, 3);
            x.cparam = (int)o.arg(4);
            x.cache  = (int)std::max<int64_t>(0, o.arg(5));
            g.v[g.nvar++] = x;
            return true;
        }
        if (k == "gwrite") {
            int x0 = modn(o.arg(0), g.w), y0 = modn(o.arg(1), g.h);
            int cx = 1 + modn(o.arg(2) - 1, g.w - x0), cy = 1 + modn(o.arg(3) - 1, g.h - y0);
            gwrite(s, x0, y0, cx, cy, (uint64_t)o.arg(4), -1, nullptr);
            return true;
        }
        if (k == "gread" || k == "greadall") {
            if (!g.any_write)
                return false;
            if (k == "greadall") {
                gread(s, 0, 0, 1, 1, g.w, g.h, modn(o.arg(0), 3), "whole image");
                return true;
            }
            int x0 = modn(o.arg(0), g.w), y0 = modn(o.arg(1), g.h);
            int sx = (int)std::max<int64_t>(1, o.arg(4)), sy = (int)std::max<int64_t>(1, o.arg(5));
            int cx = 1 + modn(o.arg(2), (g.w - 1 - x0) / sx + 1), cy = 1 + modn(o.arg(3), (g.h - 1 - y0) / sy + 1);
            gread(s, x0, y0, sx, sy, cx, cy, modn(o.arg(6), 3), "region");
            if (sx > 1 || sy > 1)
                ctx.probe("gr-strided-read");
            return true;
        }
        if (k == "gwchunk" || k == "grchunk") {
            if (!g.created && k == "gwchunk")
                gcreate(s);
            if (!g.created || (k == "grchunk" && !g.any_write))
                return false;
            int cv = -1, first = modn(o.arg(0), std::max(1, g.nvar));
            for (int j = 0; j < g.nvar; j++)
                if (g.v[(first + j) % g.nvar].chunked()) {
                    cv = (first + j) % g.nvar;
                    break;
                }
            int32 origin[2];
            int   x0, y0, cx, cy;
            if (cv < 0 || !chunk_region(g, g.v[cv], (int)o.arg(1), (int)o.arg(2), origin, &y0, &x0, &cy, &cx))
                return false;
            for (int v = 0; v < g.nvar; v++)
                gsel(s, v);
            // (whole-chunk calls on non-square chunks with a non-pixel interlace used to be guarded: repaired, findings/fixed)
            GVar &x = g.v[cv];
            if (k == "gwchunk") {
                if (g.il != MFGR_INTERLACE_PIXEL && x.c0 != x.c1 && g.nc > 1)
                    ctx.probe("gr-chunk-write-interlaced-nonsquare");
                gwrite(s, x0, y0, cx, cy, (uint64_t)o.arg(3), cv, origin);
                return true;
            }
            int il = modn(o.arg(3), 3);
            if (il != MFGR_INTERLACE_PIXEL && x.c0 != x.c1 && g.nc > 1)
                ctx.probe("gr-chunk-read-interlaced-nonsquare");
            int32 ri = gsel(s, cv);
            if (GRreqimageil(ri, il) == FAIL)
                ctx.fail("read-refused", "read-refused:reqil", "GRreqimageil failed");
            std::vector<uint8_t> cb((size_t)x.c0 * (size_t)x.c1 * (size_t)g.nc * (size_t)g.esz() + 16, 0x5A);
            if (GRreadchunk(ri, origin, cb.data()) == FAIL)
                ctx.fail("read-refused", strf("read-refused:chunk:%s", gname(x.kind)), strf("GRreadchunk(%d,%d) failed: %s", (int)origin[0], (int)origin[1], herr().c_str()));
            gcompare(s, cv, x0, y0, 1, 1, cx, cy, il, cb.data(), x.c1, x.c0, "whole chunk");
            ctx.probe("gr-chunk-read");
            if (il != MFGR_INTERLACE_PIXEL && g.nc > 1)
                ctx.probe("gr-chunk-read-interlaced");
            // ... and the same region through the hyperslab interface of every layout, in the same interlace
            gread(s, x0, y0, 1, 1, cx, cy, il, "region of a chunk");
            return true;
        }
        if (k == "gcache") {
            int cv = modn(o.arg(0), std::max(1, g.nvar));
            if (!g.created || !g.v[cv].chunked())
                return false;
            int n = (int)std::max<int64_t>(1, o.arg(1));
            GRsetchunkcache(gsel(s, cv), n, 0);
            g.v[cv].cache = n;
            return true;
        }
        if (k == "grelease") {
            for (int v = 0; v < g.nvar; v++)
                if (g.v[v].ri != FAIL) {
                    if (GRendaccess(g.v[v].ri) == FAIL)
                        ctx.fail("endaccess-failed", strf("endaccess-failed:%s", gname(g.v[v].kind)), strf("GRendaccess failed: %s", herr().c_str()));
                    g.v[v].ri = FAIL;
                }
            return true;
        }
        return false;
    }


    void open_sd(S &s)
    {
        if (s.sd != FAIL)
            return;
        s.sd = SDstart(path.c_str(), s.on_disk ? DFACC_RDWR : DFACC_CREATE);
        if (s.sd == FAIL)
            s.ctx.fail("open-failed", "open-failed", strf("SDstart failed: %s", herr().c_str()));
        s.on_disk = true;
    }
    void close_sd(S &s)
    {
        if (s.sd == FAIL)
            return;
        for (auto &q : s.sl)
            for (int v = 0; v < q.nvar; v++)
                if (q.v[v].id != FAIL) {
                    if (SDendaccess(q.v[v].id) == FAIL)
                        s.ctx.fail("endaccess-failed", strf("endaccess-failed:%s", vname(q.v[v].kind)), strf("SDendaccess failed: %s", herr().c_str()));
                    q.v[v].id = FAIL;
                }
        if (SDend(s.sd) == FAIL)
            s.ctx.fail("close-failed", "close-failed", strf("SDend failed: %s", herr().c_str()));
        s.sd = FAIL;
    }
    static std::string dsname(int si, int v) { return strf("s%d_v%d", si, v); }

    // value number n of block dseed for this slot (exactly representable by every layout of the slot)
    static void value(const Slot &q, uint64_t dseed, uint64_t n, uint8_t *out)
    {
        const LT &t = LTS[q.nt];
        uint64_t  w = mix64(dseed, n);
        if (t.cls == 4) {
            float f = (float)(int32)(w % 2000001) - 1000000.0f;
            memcpy(out, &f, 4);
        }
        else if (t.cls == 5) {
            double f = (double)(int64_t)(w % 2000000001ULL) - 1000000000.0;
            memcpy(out, &f, 8);
        }
        else {
            uint32_t v = (uint32_t)w;
            if (q.nbit_safe)
                v = nbit_fit(q, v);
            memcpy(out, &v, (size_t)t.size);
        }
    }
    // a bit pattern which the slot's n-bit field reproduces exactly
    static uint32_t nbit_fit(const Slot &q, uint32_t v)
    {
        int      bits = LTS[q.nt].size * 8, hi = q.nbstart, lo = q.nbstart - q.nblen + 1;
        uint32_t all = bits == 32 ? 0xffffffffu : ((1u << bits) - 1), fm = 0;
        for (int b = lo; b <= hi; b++)
            fm |= 1u << b;
        bool     sext = q.nbmode == 1 || q.nbmode == 3, fone = q.nbmode >= 2;
        uint32_t out  = (v & fm) | (fone ? (all & ~fm) : 0);
        if (sext && hi < bits - 1) {
            uint32_t above = all & ~((1u << (hi + 1)) - 1);
            out            = (v & (1u << hi)) ? (out | above) : (out & ~above);
        }
        return out & all;
    }

    // An external layout takes the cells that were never written from the external file (that is how an existing file is
    // wrapped as a dataset), so a fixed-size dataset with such a layout is first written as a whole.
    static bool first_whole(const Slot &q)
    {
        if (q.any_write || q.unlimited)
            return false;
        for (int v = 0; v < q.nvar; v++)
            if (q.v[v].kind == V_EXTERNAL)
                return true;
        return false;
    }

    int32 sel(S &s, int si, int v)
    {
        Slot &q = s.sl[si];
        open_sd(s);
        if (q.v[v].id != FAIL)
            return q.v[v].id;
        int32 ix = SDnametoindex(s.sd, dsname(si, v).c_str());
        int32 id = ix == FAIL ? FAIL : SDselect(s.sd, ix);
        if (id == FAIL)
            s.ctx.fail("lookup-failed", strf("lookup-failed:%s", vname(q.v[v].kind)), strf("dataset %s not found: %s", dsname(si, v).c_str(), herr().c_str()));
        q.v[v].id = id;
        // the chunk cache size is a property of the open dataset
        if (q.v[v].chunked() && q.v[v].cache > 0 && !q.v[v].pending)
            SDsetchunkcache(id, q.v[v].cache, 0);
        return id;
    }

    void create_variant(S &s, int si, int vi, bool defer_ok = false)
    {
        Slot &q = s.sl[si];
        Var  &v = q.v[vi];
        open_sd(s);
        int32 dims[MAXR];
        for (int d = 0; d < q.rank; d++)
            dims[d] = q.dims[d];
        if (q.unlimited)
            dims[0] = SD_UNLIMITED;
        int32 id = SDcreate(s.sd, dsname(si, vi).c_str(), LTS[q.nt].code, q.rank, dims);
        if (id == FAIL)
            s.ctx.fail("create-refused", "create-refused", strf("SDcreate failed: %s", herr().c_str()));
        bool fill_later = q.user_fill && v.fill_after && v.kind != V_CONTIG && s.ctx.plan.knob("unguard_fill_after_layout", 0) != 0;
        if (q.user_fill && !fill_later && SDsetfillvalue(id, q.fill) == FAIL)
            s.ctx.fail("create-refused", "create-refused:fill", "SDsetfillvalue failed");
        v.id      = id;
        v.created = true;
        v.fill_after = fill_later;
        if (v.late && defer_ok && v.kind != V_CONTIG) {
            v.pending = true;
            s.ctx.probe("layout-selected-later");
        }
        else
            apply_layout(s, si, vi);
    }

    void apply_layout(S &s, int si, int vi)
    {
        Slot &q  = s.sl[si];
        Var  &v  = q.v[vi];
        int32 id = sel(s, si, vi);
        v.pending = false;
        HDF_CHUNK_DEF cd;
        memset(&cd, 0, sizeof cd);
        comp_info ci;
        memset(&ci, 0, sizeof ci);
        comp_coder_t ct = v.coder == 1 ? COMP_CODE_RLE : v.coder == 2 ? COMP_CODE_SKPHUFF : COMP_CODE_DEFLATE;
        if (v.coder == 2)
            ci.skphuff.skp_size = std::max(1, v.cparam);
        if (v.coder == 3)
            ci.deflate.level = v.cparam % 10;
        bool sext = q.nbmode == 1 || q.nbmode == 3, fone = q.nbmode >= 2;
        intn rc = SUCCEED;
        switch (v.kind) {
            case V_CHUNK:
                for (int d = 0; d < q.rank; d++)
                    cd.chunk_lengths[d] = v.c[d];
                rc = SDsetchunk(id, cd, HDF_CHUNK);
                break;
            case V_CHUNK_COMP:
                for (int d = 0; d < q.rank; d++)
                    cd.comp.chunk_lengths[d] = v.c[d];
                cd.comp.comp_type = ct;
                cd.comp.cinfo     = ci;
                rc                = SDsetchunk(id, cd, HDF_CHUNK | HDF_COMP);
                break;
            case V_CHUNK_NBIT:
                for (int d = 0; d < q.rank; d++)
                    cd.nbit.chunk_lengths[d] = v.c[d];
                cd.nbit.start_bit = q.nbstart;
                cd.nbit.bit_len   = q.nblen;
                cd.nbit.sign_ext  = sext;
                cd.nbit.fill_one  = fone;
                rc                = SDsetchunk(id, cd, HDF_CHUNK | HDF_NBIT);
                break;
            case V_COMP:
                rc = SDsetcompress(id, ct, &ci);
                break;
            case V_NBIT:
                rc = SDsetnbitdataset(id, q.nbstart, q.nblen, sext, fone);
                break;
            case V_EXTERNAL:
                rc = SDsetexternalfile(id, strf("/sim/lay_ext_%d_%d.dat", si, vi).c_str(), v.extoff);
                break;
            case V_BLOCKSIZE:
                rc = SDsetblocksize(id, v.blocksize);
                break;
            default:
                break;
        }
        if (rc == FAIL)
            s.ctx.fail("layout-refused", strf("layout-refused:%s", vname(v.kind)), strf("selecting the %s layout for a dataset without data failed: %s", vname(v.kind), herr().c_str()));
        if (v.fill_after) {
            if (SDsetfillvalue(id, q.fill) == FAIL)
                s.ctx.fail("create-refused", "create-refused:fill-after-layout", strf("SDsetfillvalue after selecting the %s layout failed", vname(v.kind)));
            s.ctx.probe("fill-after-layout");
        }
        if (v.chunked() && v.cache > 0)
            SDsetchunkcache(id, v.cache, 0);
        s.ctx.probe(vname(v.kind));
        if (v.chunked()) {
            bool edge = false, larger = false;
            for (int d = 0; d < q.rank; d++) {
                edge |= q.dims[d] % v.c[d] != 0;
                larger |= v.c[d] > q.dims[d];
            }
            if (edge)
                s.ctx.probe("edge-chunk");
            if (larger)
                s.ctx.probe("chunk-larger-than-extent");
            if (v.cache == 1)
                s.ctx.probe("cache-1");
        }
    }

    // the model: cells row-major over the current extent
    static size_t lin(const Slot &q, const int32 *ix)
    {
        size_t l = 0;
        for (int d = 0; d < q.rank; d++)
            l = l * (size_t)(d == 0 ? q.extent(0) : q.dims[d]) + (size_t)ix[d];
        return l;
    }
    static void grow(Slot &q, int32 nrec)
    {
        if (nrec <= q.nrec)
            return;
        size_t rc = q.rowcells() * (size_t)q.esz();
        q.cell.resize((size_t)nrec * rc);
        for (size_t i = (size_t)q.nrec * q.rowcells(); i < (size_t)nrec * q.rowcells(); i++)
            memcpy(q.cell.data() + i * (size_t)q.esz(), q.fill, (size_t)q.esz());
        q.nrec = nrec;
    }

    // compare a buffer that holds region (st, cnt, stride) with the model
    void compare(S &s, int si, int vi, const int32 *st, const int32 *cnt, const int32 *stride, const uint8_t *buf, const char *how, const int32 *bufshape = nullptr)
    {
        Slot  &q   = s.sl[si];
        int    esz = q.esz();
        int32  ix[MAXR] = {0, 0, 0}, k[MAXR] = {0, 0, 0};
        size_t total = 1;
        for (int d = 0; d < q.rank; d++)
            total *= (size_t)cnt[d];
        s.ctx.st.checks++;
        for (size_t n = 0; n < total; n++) {
            size_t rem = n, bl = 0;
            for (int d = q.rank - 1; d >= 0; d--) {
                k[d] = (int32)(rem % (size_t)cnt[d]);
                rem /= (size_t)cnt[d];
            }
            for (int d = 0; d < q.rank; d++) {
                ix[d] = st[d] + k[d] * stride[d];
                bl    = bl * (size_t)(bufshape ? bufshape[d] : cnt[d]) + (size_t)k[d];
            }
            const uint8_t *want = q.cell.data() + lin(q, ix) * (size_t)esz;
            const uint8_t *got  = buf + bl * (size_t)esz;
            if (memcmp(want, got, (size_t)esz) != 0) {
                bool isfill = memcmp(want, q.fill, (size_t)esz) == 0;
                s.ctx.fail("layout-mismatch", strf("layout-mismatch:%s:%s", vname(q.v[vi].kind), how),
                           strf("slot %d (rank %d, dims %d,%d,%d, type %d%s) stored as %s (chunks %d,%d,%d coder %d cache %d): %s start %d,%d,%d count %d,%d,%d "
                                "stride %d,%d,%d: cell %d,%d,%d reads %s, model (= contiguous layout) has %s%s",
                                si, q.rank, (int)q.extent(0), (int)q.dims[1], (int)q.dims[2], (int)LTS[q.nt].code, q.unlimited ? ", unlimited" : "", vname(q.v[vi].kind),
                                (int)q.v[vi].c[0], (int)q.v[vi].c[1], (int)q.v[vi].c[2], q.v[vi].coder, q.v[vi].cache, how, (int)st[0], (int)st[1], (int)st[2], (int)cnt[0],
                                (int)cnt[1], (int)cnt[2], (int)stride[0], (int)stride[1], (int)stride[2], (int)ix[0], (int)ix[1], (int)ix[2], hexs(got, (size_t)esz).c_str(),
                                hexs(want, (size_t)esz).c_str(), isfill ? " (fill value)" : ""));
            }
            if (memcmp(want, q.fill, (size_t)esz) == 0)
                s.ctx.probe("fill-checked");
        }
    }

    void read_slab(S &s, int si, const int32 *st, const int32 *cnt, const int32 *stride, const char *how)
    {
        Slot  &q     = s.sl[si];
        size_t total = 1;
        bool   strided = false;
        for (int d = 0; d < q.rank; d++) {
            total *= (size_t)cnt[d];
            strided |= stride[d] != 1;
        }
        for (int v = 0; v < q.nvar; v++) {
            std::vector<uint8_t> buf(total * (size_t)q.esz() + 16, 0x5A);
            int32 a[MAXR], b[MAXR], c[MAXR];
            for (int d = 0; d < MAXR; d++) {
                a[d] = st[d];
                b[d] = stride[d];
                c[d] = cnt[d];
            }
            if (SDreaddata(sel(s, si, v), a, strided ? b : NULL, c, buf.data()) == FAIL)
                s.ctx.fail("read-refused", strf("read-refused:%s", vname(q.v[v].kind)),
                           strf("SDreaddata on the %s layout of slot %d (start %d,%d,%d count %d,%d,%d) failed: %s", vname(q.v[v].kind), si, (int)st[0], (int)st[1], (int)st[2],
                                (int)cnt[0], (int)cnt[1], (int)cnt[2], herr().c_str()));
            compare(s, si, v, st, cnt, stride, buf.data(), how);
            for (size_t j = total * (size_t)q.esz(); j < buf.size(); j++)
                if (buf[j] != 0x5A)
                    s.ctx.fail("buffer-overrun", strf("buffer-overrun:%s", vname(q.v[v].kind)), "SDreaddata stored data beyond the requested region");
        }
        if (strided)
            s.ctx.probe("strided-read");
    }

    // one logical write of region (st,cnt) with data block dseed; `chunk_var` >= 0: that variant takes it as a whole-chunk call
    void write_region(S &s, int si, const int32 *st, const int32 *cnt, uint64_t dseed, int chunk_var, const int32 *origin)
    {
        Slot  &q     = s.sl[si];
        int    esz   = q.esz();
        size_t total = 1;
        for (int d = 0; d < q.rank; d++)
            total *= (size_t)cnt[d];
        std::vector<uint8_t> buf(total * (size_t)esz);
        for (size_t n = 0; n < total; n++)
            value(q, dseed, n, buf.data() + n * (size_t)esz);
        if (!q.any_write)
            for (int v = 0; v < q.nvar; v++) {
                if (!q.v[v].created)
                    create_variant(s, si, v);
                if (q.v[v].pending)
                    apply_layout(s, si, v);
            }
        for (int v = 0; v < q.nvar; v++) {
            int32 id = sel(s, si, v);
            if (v == chunk_var) {
                // the chunk buffer has the chunk's shape; cells outside the extent (ghost area) are padding
                const Var &cv = q.v[v];
                size_t     cs = 1;
                for (int d = 0; d < q.rank; d++)
                    cs *= (size_t)cv.c[d];
                std::vector<uint8_t> cb(cs * (size_t)esz, 0xEE);
                int32                k[MAXR];
                for (size_t n = 0; n < total; n++) {
                    size_t rem = n, bl = 0;
                    for (int d = q.rank - 1; d >= 0; d--) {
                        k[d] = (int32)(rem % (size_t)cnt[d]);
                        rem /= (size_t)cnt[d];
                    }
                    for (int d = 0; d < q.rank; d++)
                        bl = bl * (size_t)cv.c[d] + (size_t)k[d];
                    memcpy(cb.data() + bl * (size_t)esz, buf.data() + n * (size_t)esz, (size_t)esz);
                }
                int32 og[MAXR] = {origin[0], origin[1], origin[2]};
                if (SDwritechunk(id, og, cb.data()) == FAIL)
                    s.ctx.fail("write-refused", strf("write-refused:chunk:%s", vname(cv.kind)),
                               strf("SDwritechunk(origin %d,%d,%d) on the %s layout of slot %d failed: %s", (int)og[0], (int)og[1], (int)og[2], vname(cv.kind), si, herr().c_str()));
                s.ctx.probe("chunk-write");
            }
            else {
                int32 a[MAXR], c[MAXR];
                for (int d = 0; d < MAXR; d++) {
                    a[d] = st[d];
                    c[d] = cnt[d];
                }
                if (SDwritedata(id, a, NULL, c, buf.data()) == FAIL)
                    s.ctx.fail("write-refused", strf("write-refused:%s", vname(q.v[v].kind)),
                               strf("SDwritedata on the %s layout of slot %d (start %d,%d,%d count %d,%d,%d) failed: %s", vname(q.v[v].kind), si, (int)st[0], (int)st[1],
                                    (int)st[2], (int)cnt[0], (int)cnt[1], (int)cnt[2], herr().c_str()));
            }
        }
        q.any_write = true;
        if (q.unlimited && st[0] + cnt[0] > q.nrec) {
            grow(q, st[0] + cnt[0]);
            s.ctx.probe("unlimited-grow");
        }
        int32 ix[MAXR] = {0, 0, 0}, k[MAXR];
        for (size_t n = 0; n < total; n++) {
            size_t rem = n;
            for (int d = q.rank - 1; d >= 0; d--) {
                k[d] = (int32)(rem % (size_t)cnt[d]);
                rem /= (size_t)cnt[d];
            }
            for (int d = 0; d < q.rank; d++)
                ix[d] = st[d] + k[d];
            memcpy(q.cell.data() + lin(q, ix) * (size_t)esz, buf.data() + n * (size_t)esz, (size_t)esz);
        }
    }

    void execute(Ctx &ctx) override
    {
        S           s(ctx);
        const Plan &p = ctx.plan;
        apply_hook_knobs(p);
        for (size_t i = 0; i < p.ops.size(); i++) {
            const Op &o = p.ops[i];
            ctx.begin_op((int)i);
            const std::string &k    = o.kind;
            bool               done = true;
            int                si   = modn(o.arg(0), NSLOT);
            Slot              &q    = s.sl[si];
            if (k == "hirank") {
                // rank r, extents 1 except the last two dimensions (2 x 3); chunk lengths 1 except the last (2): 6 values
                int   rank = (int)std::max<int64_t>(1, std::min<int64_t>(o.arg(0), H4_MAX_VAR_DIMS));
                int32 dims[H4_MAX_VAR_DIMS], st[H4_MAX_VAR_DIMS];
                HDF_CHUNK_DEF cd;
                memset(&cd, 0, sizeof cd);
                for (int d = 0; d < rank; d++) {
                    dims[d]             = d == rank - 1 ? 3 : d == rank - 2 ? 2 : 1;
                    st[d]               = 0;
                    cd.chunk_lengths[d] = d == rank - 1 ? 2 : 1;
                }
                open_sd(s);
                int32 v[6], g[6];
                for (int j = 0; j < 6; j++)
                    v[j] = (int32)mix64((uint64_t)o.arg(2), (uint64_t)j);
                int   n    = rank == 1 ? 3 : 6;
                int32 a    = SDcreate(s.sd, strf("hr_c_%zu", i).c_str(), DFNT_INT32, rank, dims);
                int32 b    = SDcreate(s.sd, strf("hr_k_%zu", i).c_str(), DFNT_INT32, rank, dims);
                bool  comp = o.arg(1) == 1;
                if (comp) {
                    for (int d = 0; d < rank; d++)
                        cd.comp.chunk_lengths[d] = cd.chunk_lengths[d];
                    cd.comp.comp_type           = COMP_CODE_DEFLATE;
                    cd.comp.cinfo.deflate.level = 2;
                }
                if (a == FAIL || b == FAIL || SDsetchunk(b, cd, comp ? (HDF_CHUNK | HDF_COMP) : HDF_CHUNK) == FAIL)
                    ctx.fail("layout-refused", "layout-refused:high-rank", strf("creating a chunked dataset of rank %d failed: %s", rank, herr().c_str()));
                if (SDwritedata(a, st, NULL, dims, v) == FAIL || SDwritedata(b, st, NULL, dims, v) == FAIL)
                    ctx.fail("write-refused", "write-refused:high-rank", strf("writing a dataset of rank %d failed: %s", rank, herr().c_str()));
                SDendaccess(a);
                SDendaccess(b);
                if (o.arg(1) != 2)
                    close_sd(s); // read back in a later session (or, mode 2, in this one)
                open_sd(s);
                for (const char *pre : {"hr_c_", "hr_k_"}) {
                    int32 ix = SDnametoindex(s.sd, strf("%s%zu", pre, i).c_str()), id = ix == FAIL ? FAIL : SDselect(s.sd, ix);
                    memset(g, 0x5A, sizeof g);
                    ctx.st.checks++;
                    if (id == FAIL || SDreaddata(id, st, NULL, dims, g) == FAIL)
                        ctx.fail("read-refused", strf("read-refused:high-rank:%s", pre[3] == 'k' ? "chunked" : "contiguous"),
                                 strf("a %s dataset of rank %d that was created and written cannot be read%s: %s", pre[3] == 'k' ? "chunked" : "contiguous", rank,
                                      o.arg(1) != 2 ? " after reopen" : "", herr().c_str()));
                    if (memcmp(g, v, (size_t)n * 4) != 0)
                        ctx.fail("layout-mismatch", strf("layout-mismatch:high-rank:%s", pre[3] == 'k' ? "chunked" : "contiguous"), strf("a dataset of rank %d reads back other values", rank));
                    SDendaccess(id);
                }
                ctx.probe("high-rank");
                if (rank >= 19)
                    ctx.probe("rank>=19");
            }
            else if (k[0] == 'g')
                done = gop(s, o);
            else if (k == "slot") {
                if (q.exists)
                    done = false;
                else {
                    q        = Slot();
                    q.exists = true;
                    q.rank   = 1 + modn(o.arg(1) - 1, MAXR);
                    for (int d = 0; d < MAXR; d++)
                        q.dims[d] = d < q.rank ? (int32)std::max<int64_t>(1, std::min<int64_t>(o.arg(2 + d), 16)) : 1;
                    q.nt         = modn(o.arg(5), NLT);
                    q.user_fill  = o.arg(6) != 0;
                    q.unlimited  = o.arg(7) != 0;
                    q.whole_only = o.arg(8) != 0 && !q.unlimited;
                    q.nbit_safe  = o.arg(9) != 0 && !q.unlimited && !q.whole_only && q.nt < NLT_INT;
                    int bits     = LTS[q.nt].size * 8;
                    q.nbstart    = modn(o.arg(10), bits);
                    q.nbmode     = modn(o.arg(12), 4);
                    q.nblen      = (q.nbmode == 1 || q.nbmode == 3) ? q.nbstart + 1 : 1 + modn(o.arg(11) - 1, q.nbstart + 1);
                    if (q.nbit_safe)
                        q.user_fill = true; // the default fill values are not representable by every bit field
                    if (q.user_fill)
                        value(q, (uint64_t)o.arg(13), 0, q.fill);
                    else
                        default_fill(LTS[q.nt], q.fill);
                    q.nrec = 0;
                    q.nvar = 1;
                    q.v[0] = Var();
                    if (!q.unlimited) {
                        size_t n = 1;
                        for (int d = 0; d < q.rank; d++)
                            n *= (size_t)q.dims[d];
                        q.cell.resize(n * (size_t)q.esz());
                        for (size_t c = 0; c < n; c++)
                            memcpy(q.cell.data() + c * (size_t)q.esz(), q.fill, (size_t)q.esz());
                    }
                }
            }
            else if (k == "variant") {
                if (!q.exists || q.any_write || q.nvar >= MAXVAR)
                    done = false;
                else {
                    Var v;
                    v.kind = modn(o.arg(1), V_KINDS);
                    // a layout the logical dataset cannot have is replaced by the contiguous one
                    bool fixed_only = v.kind == V_CHUNK || v.kind == V_CHUNK_COMP || v.kind == V_CHUNK_NBIT || v.kind == V_COMP || v.kind == V_NBIT;
                    if (q.unlimited && fixed_only)
                        v.kind = V_CONTIG;
                    if ((v.kind == V_CHUNK_NBIT || v.kind == V_NBIT) && !q.nbit_safe)
                        v.kind = V_CHUNK;
                    if (v.kind == V_COMP && !q.whole_only)
                        v.kind = V_CHUNK_COMP;
                    for (int d = 0; d < MAXR; d++)
                        v.c[d] = d < q.rank ? (int32)std::max<int64_t>(1, std::min<int64_t>(o.arg(2 + d), 20)) : 1;
                    v.coder     = 1 + modn(o.arg(5) - 1, 3);
                    v.cparam    = (int)o.arg(6);
                    v.cache     = (int)std::max<int64_t>(0, o.arg(7));
                    v.extoff    = (int)std::max<int64_t>(0, o.arg(8));
                    v.blocksize = (int)std::max<int64_t>(1, o.arg(9));
                    v.late      = o.arg(10) != 0;
                    v.fill_after = o.arg(11) != 0;
                    q.v[q.nvar++] = v;
                }
            }
            else if (k == "precreate") {
                // the datasets come into being without data; layouts flagged 'late' are selected only before the first write
                if (!q.exists || q.any_write)
                    done = false;
                else
                    for (int v = 0; v < q.nvar; v++)
                        if (!q.v[v].created)
                            create_variant(s, si, v, true);
            }
            else if (k == "write") {
                if (!q.exists)
                    done = false;
                else {
                    int32 st[MAXR] = {0, 0, 0}, cnt[MAXR] = {1, 1, 1};
                    for (int d = 0; d < q.rank; d++) {
                        int32 e = (d == 0 && q.unlimited) ? q.dims[0] + 4 : q.dims[d];
                        st[d]   = (int32)modn(o.arg(1 + d), e);
                        cnt[d]  = 1 + (int32)modn(o.arg(4 + d) - 1, e - st[d]);
                        if (q.whole_only || first_whole(q)) {
                            st[d]  = 0;
                            cnt[d] = q.dims[d];
                        }
                    }
                    write_region(s, si, st, cnt, (uint64_t)o.arg(10), -1, nullptr);
                }
            }
            else if (k == "read" || k == "readall") {
                if (!q.exists || !q.any_write)
                    done = false;
                else {
                    int32 st[MAXR] = {0, 0, 0}, cnt[MAXR] = {1, 1, 1}, stride[MAXR] = {1, 1, 1};
                    bool  empty = false;
                    for (int d = 0; d < q.rank; d++) {
                        int32 e = q.extent(d);
                        if (e <= 0) {
                            empty = true;
                            break;
                        }
                        if (k == "readall") {
                            cnt[d] = e;
                            continue;
                        }
                        st[d]     = (int32)modn(o.arg(1 + d), e);
                        stride[d] = (int32)std::max<int64_t>(1, o.arg(7 + d));
                        int32 mx  = (e - 1 - st[d]) / stride[d] + 1;
                        cnt[d]    = 1 + (int32)modn(o.arg(4 + d) - 1, mx);
                    }
                    if (empty)
                        done = false;
                    else
                        read_slab(s, si, st, cnt, stride, k == "readall" ? "whole dataset" : "slab");
                }
            }
            else if (k == "wchunk" || k == "rchunk") {
                // the chunk grid of one chunked layout defines the region; the other layouts see the same region as a slab
                int cv = -1;
                if (q.exists && !q.whole_only && (q.any_write || (k == "wchunk" && !first_whole(q)))) {
                    if (!q.any_write)
                        for (int v = 0; v < q.nvar; v++) {
                            if (!q.v[v].created)
                                create_variant(s, si, v);
                            if (q.v[v].pending)
                                apply_layout(s, si, v);
                        }
                    int first = modn(o.arg(1), std::max(1, q.nvar));
                    for (int j = 0; j < q.nvar; j++)
                        if (q.v[(first + j) % q.nvar].chunked()) {
                            cv = (first + j) % q.nvar;
                            break;
                        }
                }
                if (cv < 0)
                    done = false;
                else {
                    const Var &v = q.v[cv];
                    int32      origin[MAXR] = {0, 0, 0}, st[MAXR] = {0, 0, 0}, cnt[MAXR] = {1, 1, 1}, one[MAXR] = {1, 1, 1};
                    for (int d = 0; d < q.rank; d++) {
                        int32 nch = (q.dims[d] + v.c[d] - 1) / v.c[d];
                        origin[d] = (int32)modn(o.arg(2 + d), nch);
                        st[d]     = origin[d] * v.c[d];
                        cnt[d]    = std::min(v.c[d], q.dims[d] - st[d]);
                    }
                    if (k == "wchunk")
                        write_region(s, si, st, cnt, (uint64_t)o.arg(5), cv, origin);
                    else {
                        size_t cs = 1;
                        for (int d = 0; d < q.rank; d++)
                            cs *= (size_t)v.c[d];
                        std::vector<uint8_t> cb(cs * (size_t)q.esz() + 16, 0x5A);
                        if (SDreadchunk(sel(s, si, cv), origin, cb.data()) == FAIL)
                            ctx.fail("read-refused", strf("read-refused:chunk:%s", vname(v.kind)),
                                     strf("SDreadchunk(origin %d,%d,%d) on the %s layout of slot %d failed: %s", (int)origin[0], (int)origin[1], (int)origin[2], vname(v.kind), si,
                                          herr().c_str()));
                        int32 shape[MAXR] = {v.c[0], v.c[1], v.c[2]};
                        compare(s, si, cv, st, cnt, one, cb.data(), "whole chunk", shape);
                        for (size_t j = cs * (size_t)q.esz(); j < cb.size(); j++)
                            if (cb[j] != 0x5A)
                                ctx.fail("buffer-overrun", "buffer-overrun:chunk", "SDreadchunk stored data beyond one chunk");
                        ctx.probe("chunk-read");
                        // ... and the hyperslab of the same region from every layout
                        read_slab(s, si, st, cnt, one, "slab of a chunk");
                    }
                }
            }
            else if (k == "cache") {
                int cv = modn(o.arg(1), std::max(1, q.nvar));
                if (!q.exists || !q.any_write || !q.v[cv].chunked())
                    done = false;
                else {
                    int n = (int)std::max<int64_t>(1, o.arg(2));
                    // the call answers with the size in force (it only grows, or shrinks when nothing is cached)
                    SDsetchunkcache(sel(s, si, cv), n, 0);
                    q.v[cv].cache = n;
                    if (n == 1)
                        ctx.probe("cache-1");
                }
            }
            else if (k == "release") {
                if (!q.exists)
                    done = false;
                else
                    for (int v = 0; v < q.nvar; v++)
                        if (q.v[v].id != FAIL) {
                            if (SDendaccess(q.v[v].id) == FAIL)
                                ctx.fail("endaccess-failed", strf("endaccess-failed:%s", vname(q.v[v].kind)), strf("SDendaccess failed: %s", herr().c_str()));
                            q.v[v].id = FAIL;
                        }
            }
            else if (k == "reopen") {
                close_sd(s);
                close_gr(s);
                ctx.probe("reopen");
            }
            else
                done = false;
            if (done) {
                ctx.st.ops_done++;
                uint64_t h = 1469598103934665603ULL;
                for (auto &x : s.sl)
                    if (x.exists)
                        h = fnv64(x.cell.data(), x.cell.size(), fnv64i((uint64_t)x.nvar, h));
                ctx.state(h);
            }
            else
                ctx.st.ops_skipped++;
        }
        close_sd(s);
        close_gr(s);
    }
};

Registrar reg(new Layout);

} // namespace
} // namespace h4
