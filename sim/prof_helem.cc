// prof_helem.cc -- C01: data elements behave as growable byte arrays (DESIGN section 4, C01).
// Clients interleave access ids on shared elements; the oracle is a byte-array model.
#include "hx.h"

namespace h4 {
namespace {

const int NFILES = 2, NELEM = 6, NAID = 4, MAXCLIENT = 3, NEXT = 2;

// byte states: written; reserved but never written (anything); skipped by a seek in this session (anything until
// the next restart); skipped by a seek and seen a restart (zero whenever a read delivers it -- but the read itself
// may still fail while the surrounding block lies beyond the physical end of file)
enum { ST_SPEC = 0, ST_UNSPEC = 1, ST_GAP = 2, ST_ZGAP = 3 };
enum { K_CONTIG = 0, K_LINKED = 1, K_EXT = 2 };

struct MElem {
    bool                 exists = false, nodata = false;
    std::vector<uint8_t> b, st;
    int                  kind  = K_CONTIG;
    int                  alias = -1; // element index (same file) sharing the same bytes via Hdupdd
    void                 resize(size_t n, uint8_t state)
    {
        b.resize(n, 0);
        st.resize(n, state);
    }
    bool all_spec(size_t from, size_t to) const
    {
        for (size_t i = from; i < to && i < st.size(); i++)
            if (st[i] != ST_SPEC)
                return false;
        return true;
    }
};
struct MAid {
    bool    live = false;
    int32   aid  = -1;
    int     f = 0, e = 0, fidx = 0;
    int64_t pos = 0;
    bool    wr = false, appendable = false, newelem = false;
};
struct MFile {
    std::string path;
    int32       fid[MAXCLIENT];
    int         mode[MAXCLIENT]; // 0 closed, 1 read, 2 write
    MElem       el[NELEM];
    bool        on_disk = false;
    bool        space_reused = false; // known finding C01-stale-gap: see compare()
};

struct HElem : Profile {
    const char *name() const override { return "helem"; }
    const char *property() const override { return "C01"; }
    int         runs(bool thorough) const override { return thorough ? 300000 : 16000; }
    std::string rule() const override
    {
        return "each case = one generated plan (knobs + 20..80 H-level ops by 1..3 interleaved clients over 2 files x 6 "
               "elements, with restarts) executed on the simulated disk against a byte-array model; non-trivial = "
               ">= 2 ops executed and >= 1 read/length comparison made; distinct = distinct plan text hash";
    }
    std::vector<std::string> assumptions() const override
    {
        return {"at most one writing access id per element at a time (documented restriction in the Hwrite header)",
                "bytes reserved by Hstartwrite(len) but never written are unspecified",
                "seek-gap bytes must read as zero only after a restart",
                "Htrunc/Hdupdd only on non-special elements; Hdeldd only with no access id open on the element",
                "tags 8000/8001 (special variants exist, library does not interpret them)"};
    }
    std::vector<std::string> required_probes() const override
    {
        return {"promoted-by-write", "promoted-by-seek", "linked-multi-table", "hole-read", "gap-after-restart",
                "external-io", "two-aids-same-elem", "restart", "hlconvert-before-first-write"};
    }

    static uint16 tag_of(int e) { return (uint16)(8000 + (e & 1)); }
    static uint16 ref_of(int e) { return (uint16)(1 + (e >> 1)); }

    // ---------------------------------------------------------------- generator
    Plan generate(Rng &rng, bool thorough, uint64_t) override
    {
        Plan p;
        p.seed               = rng.next();
        Rng kr               = rng.sub(1);
        p.knobs["ndds"]      = kr.chance(0.5) ? kr.range(1, 6) : kr.range(7, 40);
        p.knobs["cache"]     = (int64_t)kr.below(2);
        p.knobs["buffered"]  = kr.chance(0.25) ? 1 : 0;
        p.knobs["bufsize"]   = kr.range(1, 300);
        int nclients         = (int)kr.range(1, MAXCLIENT);
        p.knobs["clients"]   = nclients;
        p.knobs["sharefid"]  = kr.chance(0.5) ? 1 : 0;
        int maxlen           = kr.chance(0.2) ? 5000 : (kr.chance(0.5) ? 200 : 40);
        int nops             = (int)kr.range(20, thorough ? 140 : 80);
        Rng   r = rng.sub(2);
        Sched sc(r, nclients);
        // every client opens file 0 first so that most ops hit live slots
        for (int c = 0; c < nclients; c++)
            p.ops.push_back(mkop(c, "open", {0, c == 0 ? 0 : 1}));
        static const std::vector<int> w = {
            /*open*/ 3, /*close*/ 1, /*restart*/ 3, /*startwrite*/ 8, /*startaccess*/ 8, /*startread*/ 6,
            /*write*/ 22, /*read*/ 16, /*seek*/ 10, /*tell*/ 2, /*inquire*/ 2, /*length*/ 3, /*getelem*/ 3,
            /*putelem*/ 5, /*trunc*/ 2, /*appendable*/ 3, /*hlcreate*/ 3, /*hlconvert*/ 2, /*hxcreate*/ 2,
            /*dupdd*/ 1, /*deldd*/ 1, /*endaccess*/ 6, /*cache*/ 1, /*sync*/ 1};
        static const char *names[] = {"open", "close", "restart", "startwrite", "startaccess", "startread",
                                      "write", "read", "seek", "tell", "inquire", "length", "getelem",
                                      "putelem", "trunc", "appendable", "hlcreate", "hlconvert", "hxcreate",
                                      "dupdd", "deldd", "endaccess", "cache", "sync"};
        int nelem_used = (int)r.range(1, NELEM); // few elements => many conflicts
        for (int i = 0; i < nops; i++) {
            int         c = sc.next(r);
            int         k = r.weighted(w);
            int64_t     f = r.chance(0.85) ? 0 : 1, e = (int64_t)r.below((uint64_t)nelem_used), a = (int64_t)r.below(NAID);
            const char *n = names[k];
            switch (k) {
                case 0:
                    p.ops.push_back(mkop(c, n, {f, (int64_t)r.below(3)}));
                    break;
                case 1:
                    p.ops.push_back(mkop(c, n, {f}));
                    break;
                case 2:
                    p.ops.push_back(mkop(c, n, {(int64_t)r.below(1000)}));
                    for (int cc = 0; cc < nclients; cc++)
                        p.ops.push_back(mkop(cc, "open", {0, r.chance(0.8) ? 1 : 2}));
                    break;
                case 3:
                    p.ops.push_back(mkop(c, n, {f, e, r.sizeish(maxlen), a}));
                    break;
                case 4:
                    p.ops.push_back(mkop(c, n, {f, e, (int64_t)r.below(3), a}));
                    break;
                case 5:
                    p.ops.push_back(mkop(c, n, {f, e, a}));
                    break;
                case 6:
                    p.ops.push_back(mkop(c, n, {a, 1 + r.sizeish(maxlen), (int64_t)(r.next() >> 16)}));
                    break;
                case 7:
                    p.ops.push_back(mkop(c, n, {a, r.chance(0.25) ? 0 : r.sizeish(maxlen + 10)}));
                    break;
                case 8:
                    p.ops.push_back(mkop(c, n, {a, r.chance(0.1) ? -r.sizeish(20) : r.sizeish(maxlen), (int64_t)r.below(3)}));
                    break;
                case 9:
                case 10:
                case 15:
                case 21:
                    p.ops.push_back(mkop(c, n, {a}));
                    break;
                case 11:
                case 12:
                case 20:
                    p.ops.push_back(mkop(c, n, {f, e}));
                    break;
                case 13:
                    p.ops.push_back(mkop(c, n, {f, e, 1 + r.sizeish(maxlen), (int64_t)(r.next() >> 16)}));
                    break;
                case 14:
                    p.ops.push_back(mkop(c, n, {a, r.sizeish(maxlen)}));
                    break;
                case 16:
                    p.ops.push_back(mkop(c, n, {f, e, r.chance(0.5) ? r.range(1, 8) : r.range(1, 64), r.range(1, 4), a}));
                    break;
                case 17:
                    p.ops.push_back(mkop(c, n, {a, r.chance(0.5) ? r.range(1, 8) : r.range(1, 64), r.range(1, 4)}));
                    break;
                case 18:
                    p.ops.push_back(mkop(c, n, {f, e, (int64_t)r.below(NEXT), r.sizeish(50), r.sizeish(maxlen), a}));
                    break;
                case 19:
                    p.ops.push_back(mkop(c, n, {f, e, (int64_t)r.below((uint64_t)NELEM)}));
                    break;
                case 22:
                    p.ops.push_back(mkop(c, n, {f, (int64_t)r.below(2)}));
                    break;
                case 23:
                    p.ops.push_back(mkop(c, n, {f}));
                    break;
            }
        }
        p.ops.push_back(mkop(0, "restart", {(int64_t)r.below(1000)}));
        return p;
    }

    // ---------------------------------------------------------------- executor state
    struct S {
        Ctx  &ctx;
        MFile F[NFILES];
        MAid  A[MAXCLIENT][NAID];
        int   ndds, nclients;
        bool  sharefid = false;
        // guards of known findings; a stored finding replay switches its guard off with a knob the generator never sets
        bool  g_promo = true, g_multifid = true, g_stalegap = true;
        explicit S(Ctx &c) : ctx(c) {}
    };

    static int writers_on(S &s, int f, int e)
    {
        int n = 0;
        for (int c = 0; c < MAXCLIENT; c++)
            for (int k = 0; k < NAID; k++)
                if (s.A[c][k].live && s.A[c][k].f == f && s.A[c][k].e == e && s.A[c][k].wr)
                    n++;
        return n;
    }
    static int aids_on(S &s, int f, int e)
    {
        int n = 0;
        for (int c = 0; c < MAXCLIENT; c++)
            for (int k = 0; k < NAID; k++)
                if (s.A[c][k].live && s.A[c][k].f == f && s.A[c][k].e == e)
                    n++;
        return n;
    }
    // known finding C01-multi-fid: special-element bookkeeping is shared between access ids only when they
    // come from the same file id; a writer and another access id through different file ids diverge
    static bool other_fid_conflict(S &s, int f, int e, int fidx, bool wr)
    {
        if (!s.g_multifid)
            return false;
        for (int c = 0; c < MAXCLIENT; c++)
            for (int k = 0; k < NAID; k++) {
                MAid &a = s.A[c][k];
                if (a.live && a.f == f && a.e == e && a.fidx != fidx && (wr || a.wr || s.F[f].el[e].kind == K_EXT))
                    return true; // external: the other id's stdio stream may hold unflushed bytes of an earlier writer
            }
        return false;
    }
    static bool aliased(S &s, int f, int e)
    {
        if (s.F[f].el[e].alias >= 0)
            return true;
        for (int j = 0; j < NELEM; j++)
            if (s.F[f].el[j].exists && s.F[f].el[j].alias == e)
                return true;
        return false;
    }
    static std::string eid(int f, int e) { return strf("f%d/%u,%u", f, tag_of(e), ref_of(e)); }

    void state_hash(S &s)
    {
        uint64_t h = 1469598103934665603ULL;
        for (int f = 0; f < NFILES; f++)
            for (int e = 0; e < NELEM; e++) {
                MElem &m = s.F[f].el[e];
                if (!m.exists)
                    continue;
                h = fnv64i((uint64_t)(f * 100 + e), h);
                h = fnv64i(m.b.size() | ((uint64_t)m.kind << 40) | ((uint64_t)m.nodata << 48), h);
            }
        for (int c = 0; c < MAXCLIENT; c++)
            for (int k = 0; k < NAID; k++)
                if (s.A[c][k].live)
                    h = fnv64i((uint64_t)(s.A[c][k].f * 100 + s.A[c][k].e) | ((uint64_t)s.A[c][k].pos << 16) |
                                   ((uint64_t)s.A[c][k].wr << 60),
                               h);
        s.ctx.state(h);
    }

    // compare a buffer the library returned with the model; only specified bytes count
    void compare(S &s, const char *what, int f, int e, int64_t pos, const uint8_t *got, int64_t n, bool after_restart)
    {
        MElem &m = s.F[f].el[e];
        s.ctx.st.checks++;
        for (int64_t i = 0; i < n; i++) {
            size_t  at = (size_t)(pos + i);
            uint8_t stt = m.st[at];
            if (stt == ST_UNSPEC || (stt == ST_GAP && !after_restart))
                continue;
            // known finding C01-stale-gap: once an element of this file was truncated or deleted, space handed out
            // after the next reopen can lie inside the old bytes, and a seek gap shows them instead of zeros
            if (stt != ST_SPEC && s.F[f].space_reused && s.g_stalegap)
                continue;
            uint8_t want = (stt == ST_GAP || stt == ST_ZGAP) ? 0 : m.b[at];
            if (got[i] != want)
                s.ctx.fail("read-mismatch", std::string("read-mismatch:") + what,
                           strf("%s of %s: byte %lld is %02x, model has %02x (%s; element length %zu, kind %d)", what,
                                eid(f, e).c_str(), (long long)(pos + i), got[i], want,
                                stt != ST_SPEC ? "seek gap, must be zero after reopen" : "last written value",
                                m.b.size(), m.kind));
        }
    }

    void end_aid(S &s, int c, int k, const char *why)
    {
        MAid &a = s.A[c][k];
        if (!a.live)
            return;
        intn r = Hendaccess(a.aid);
        s.ctx.tr((uint64_t)r);
        a.live = false;
        if (r == FAIL)
            s.ctx.fail("endaccess-failed", "endaccess-failed",
                       strf("Hendaccess(%s) of a live access id on %s failed", why, eid(a.f, a.e).c_str()));
    }

    void close_file(S &s, int c, int f, const char *why)
    {
        if (!s.F[f].mode[c])
            return;
        // c is the file-id slot: release every access id obtained through it, whichever client holds it
        for (int cc = 0; cc < MAXCLIENT; cc++)
            for (int k = 0; k < NAID; k++)
                if (s.A[cc][k].live && s.A[cc][k].f == f && s.A[cc][k].fidx == c)
                    end_aid(s, cc, k, why);
        intn r = Hclose(s.F[f].fid[c]);
        s.ctx.tr((uint64_t)r);
        s.F[f].mode[c] = 0;
        if (r == FAIL)
            s.ctx.fail("close-failed", "close-failed",
                       strf("Hclose(f%d) by client %d failed although all of its access ids were released (%s): %s", f,
                            c, why, HEstring((hdf_err_code_t)HEvalue(1))));
    }

    // after a restart every element must read back in full
    void verify_all(S &s)
    {
        for (int f = 0; f < NFILES; f++) {
            MFile &F = s.F[f];
            if (!F.on_disk)
                continue;
            int32 fid = Hopen(F.path.c_str(), DFACC_READ, 0);
            if (fid == FAIL)
                s.ctx.fail("reopen-failed", "reopen-failed", strf("Hopen(%s, READ) failed after clean close", F.path.c_str()));
            for (int e = 0; e < NELEM; e++) {
                MElem &m = F.el[e];
                if (!m.exists) {
                    s.ctx.st.checks++;
                    if (Hexist(fid, tag_of(e), ref_of(e)) != FAIL)
                        s.ctx.fail("ghost-element", "ghost-element",
                                   strf("%s exists after reopen but was never created or was deleted", eid(f, e).c_str()));
                    continue;
                }
                // gaps are zeros from now on
                for (auto &x : m.st)
                    if (x == ST_GAP) {
                        x = ST_ZGAP;
                        s.ctx.probe("gap-after-restart");
                    }
                if (m.nodata)
                    continue;
                int32 len = Hlength(fid, tag_of(e), ref_of(e));
                s.ctx.st.checks++;
                if (len != (int32)m.b.size())
                    s.ctx.fail("length-mismatch", "length-mismatch:reopen",
                               strf("Hlength(%s) after reopen = %d, model %zu (kind %d)", eid(f, e).c_str(), (int)len,
                                    m.b.size(), m.kind));
                bool unspec = false;
                for (auto x : m.st)
                    unspec |= x == ST_UNSPEC;
                if (unspec)
                    continue; // reserved-but-unwritten bytes: a read may fail
                std::vector<uint8_t> buf(m.b.size() + 64, 0xA5);
                int32                n = Hgetelement(fid, tag_of(e), ref_of(e), buf.data());
                if (m.b.size() == 0) {
                    // an empty element: 0 or FAIL are both acceptable, data never
                    if (n > 0)
                        s.ctx.fail("count-mismatch", "count-mismatch:getelement-empty",
                                   strf("Hgetelement(%s) of an empty element returned %d", eid(f, e).c_str(), (int)n));
                    continue;
                }
                if (n != (int32)m.b.size())
                    s.ctx.fail("count-mismatch", "count-mismatch:reopen",
                               strf("Hgetelement(%s) after reopen returned %d, model %zu (kind %d)", eid(f, e).c_str(),
                                    (int)n, m.b.size(), m.kind));
                compare(s, "Hgetelement-after-reopen", f, e, 0, buf.data(), n, true);
                for (size_t i = m.b.size(); i < buf.size(); i++)
                    if (buf[i] != 0xA5)
                        s.ctx.fail("buffer-overrun", "buffer-overrun:getelement", "Hgetelement wrote past the element length");
            }
            if (Hclose(fid) == FAIL)
                s.ctx.fail("close-failed", "close-failed:verify", "Hclose after read-only verification failed");
        }
    }

    // element grows to n bytes; new bytes get `state`
    static void grow(MElem &m, size_t n, uint8_t state)
    {
        if (n > m.b.size())
            m.resize(n, state);
    }

    void execute(Ctx &ctx) override
    {
        S s(ctx);
        const Plan &p = ctx.plan;
        s.ndds        = (int)p.knob("ndds", 16);
        s.nclients    = (int)std::min<int64_t>(MAXCLIENT, std::max<int64_t>(1, p.knob("clients", 1)));
        s.sharefid    = p.knob("sharefid", 0) != 0;
        s.g_promo     = p.knob("unguard_promotion", 0) == 0;
        s.g_multifid  = p.knob("unguard_multifid", 0) == 0;
        s.g_stalegap  = p.knob("unguard_stalegap", 0) == 0;
        simfs::set_buffered(p.knob("buffered", 0) != 0, (int)p.knob("bufsize", 64));
        for (int f = 0; f < NFILES; f++) {
            s.F[f].path = strf("/sim/f%d.hdf", f);
            for (int c = 0; c < MAXCLIENT; c++)
                s.F[f].mode[c] = 0;
        }
        bool cache_default = p.knob("cache", 1) != 0;

        for (size_t i = 0; i < p.ops.size(); i++) {
            const Op &o = p.ops[i];
            ctx.begin_op((int)i);
            int c  = modn(o.client, s.nclients);
            int fc = s.sharefid ? 0 : c; // all clients may work through one shared file id
            const std::string &k = o.kind;
            bool               done = true;
            if (k == "open") {
                int f = modn(o.arg(0), NFILES), mode = modn(o.arg(1), 3);
                MFile &F = s.F[f];
                if (F.mode[fc]) {
                    done = false;
                }
                else {
                    bool anyopen = false;
                    for (int cc = 0; cc < MAXCLIENT; cc++)
                        anyopen |= F.mode[cc] != 0;
                    int acc;
                    if (mode == 0 && !anyopen && !F.on_disk)
                        acc = DFACC_CREATE;
                    else if (mode == 2 && F.on_disk)
                        acc = DFACC_READ;
                    else
                        acc = DFACC_RDWR;
                    if (!F.on_disk && acc == DFACC_READ)
                        acc = DFACC_RDWR;
                    // further opens of an already open path follow the access of the first one (mixed-mode
                    // nesting belongs to C13)
                    for (int cc = 0; cc < MAXCLIENT; cc++)
                        if (F.mode[cc])
                            acc = F.mode[cc] == 1 ? DFACC_READ : DFACC_RDWR;
                    int32 fid = Hopen(F.path.c_str(), acc, (int16)s.ndds);
                    ctx.tr((uint64_t)(fid != FAIL));
                    if (fid == FAIL)
                        ctx.fail("open-failed", "open-failed", strf("Hopen(%s, %d) failed: %s", F.path.c_str(), acc,
                                                                   HEstring((hdf_err_code_t)HEvalue(1))));
                    F.fid[fc]  = fid;
                    F.mode[fc] = acc == DFACC_READ ? 1 : 2;
                    if (!F.on_disk) {
                        F.on_disk = true;
                        if (!cache_default)
                            Hcache(fid, 0);
                    }
                }
            }
            else if (k == "close") {
                int f = modn(o.arg(0), NFILES);
                if (!s.F[f].mode[fc])
                    done = false;
                else
                    close_file(s, fc, f, "close op");
            }
            else if (k == "restart") {
                // release everything in a plan-chosen order, then verify from disk
                Rng rr(mix64(p.seed, (uint64_t)o.arg(0)));
                std::vector<int> order;
                for (int cc = 0; cc < MAXCLIENT; cc++)
                    order.push_back(cc);
                for (int j = MAXCLIENT - 1; j > 0; j--)
                    std::swap(order[(size_t)j], order[(size_t)rr.below((uint64_t)j + 1)]);
                for (int cc : order)
                    for (int f = 0; f < NFILES; f++)
                        close_file(s, cc, f, "restart");
                if (simfs::open_streams() != 0)
                    ctx.probe("streams-open-after-close"); // e.g. the external file of a failed HXcreate (not C01)
                ctx.probe("restart");
                verify_all(s);
            }
            else if (k == "startwrite" || k == "startaccess" || k == "startread") {
                int f = modn(o.arg(0), NFILES), e = modn(o.arg(1), NELEM);
                int flags, slot;
                int64_t len = 0;
                if (k == "startwrite") {
                    len   = std::max<int64_t>(0, o.arg(2));
                    slot  = modn(o.arg(3), NAID);
                    flags = 1;
                }
                else if (k == "startaccess") {
                    flags = modn(o.arg(2), 3);
                    slot  = modn(o.arg(3), NAID);
                }
                else {
                    flags = 0;
                    slot  = modn(o.arg(2), NAID);
                }
                MFile &F = s.F[f];
                MElem &m = F.el[e];
                MAid  &a = s.A[c][slot];
                bool   wr = flags != 0;
                if (!F.mode[fc] || a.live || (wr && F.mode[fc] != 2) || (wr && (writers_on(s, f, e) || aliased(s, f, e))))
                    done = false;
                else if (m.exists && m.kind != K_CONTIG && other_fid_conflict(s, f, e, fc, wr)) {
                    done = false;
                    ctx.probe("guard:multi-fid-special");
                }
                else {
                    int32 aid;
                    if (k == "startwrite")
                        aid = Hstartwrite(F.fid[fc], tag_of(e), ref_of(e), (int32)len);
                    else if (k == "startread")
                        aid = Hstartread(F.fid[fc], tag_of(e), ref_of(e));
                    else
                        aid = Hstartaccess(F.fid[fc], tag_of(e), ref_of(e),
                                           flags == 0 ? DFACC_READ : flags == 1 ? DFACC_RDWR : (DFACC_RDWR | DFACC_APPENDABLE));
                    ctx.tr((uint64_t)(aid != FAIL));
                    if (!wr && !m.exists) {
                        if (aid != FAIL)
                            ctx.fail("ghost-element", "ghost-element:startread",
                                     strf("read access to %s succeeded but the element does not exist", eid(f, e).c_str()));
                        ctx.st.api_fail++;
                    }
                    else if (aid == FAIL) {
                        ctx.fail("access-refused", std::string("access-refused:") + k,
                                 strf("%s on %s (exists=%d kind=%d len=%zu) failed: %s", k.c_str(), eid(f, e).c_str(),
                                      m.exists, m.kind, m.b.size(), HEstring((hdf_err_code_t)HEvalue(1))));
                    }
                    else {
                        a.live = true;
                        a.aid  = aid;
                        a.f    = f;
                        a.e    = e;
                        a.fidx = fc;
                        a.pos  = 0;
                        a.wr   = wr;
                        a.appendable = flags == 2;
                        if (aids_on(s, f, e) >= 2)
                            ctx.probe("two-aids-same-elem");
                        if (!m.exists) {
                            m        = MElem();
                            m.exists = true;
                            if (k == "startwrite") {
                                m.resize((size_t)len, ST_UNSPEC);
                                m.nodata = false;
                            }
                            else {
                                // Hstartaccess created a descriptor without data.  What seeks, lengths and reads
                                // mean in that state is not specified anywhere; give the element its first bytes
                                // at once so that every later op sees an element with data.
                                int64_t              ilen = 1 + modn(o.arg(1) + o.arg(3), 4);
                                std::vector<uint8_t> d    = data_block((uint64_t)(o.arg(1) * 131 + o.arg(3) + 7), (size_t)ilen);
                                if (modn(o.arg(1) * 3 + o.arg(3), 5) == 0 && !aliased(s, f, e)) {
                                    // now and then the new element is promoted to linked blocks before it holds a byte
                                    int bl = 1 + modn(o.arg(3), 9), nb = 1 + modn(o.arg(1), 3);
                                    if (HLconvert(aid, bl, nb) == FAIL)
                                        ctx.fail("access-refused", "access-refused:hlconvert-new", strf("HLconvert(%s, %d, %d) on a new element failed: %s", eid(f, e).c_str(), bl, nb, herr().c_str()));
                                    m.kind = K_LINKED;
                                    ctx.probe("hlconvert-before-first-write");
                                }
                                int32                n    = Hwrite(aid, (int32)ilen, d.data());
                                ctx.tr((uint64_t)n);
                                if (n != (int32)ilen)
                                    ctx.fail("write-refused", "write-refused:new",
                                             strf("first Hwrite(%lld) on the new element %s returned %d", (long long)ilen,
                                                  eid(f, e).c_str(), (int)n));
                                m.resize((size_t)ilen, ST_SPEC);
                                memcpy(m.b.data(), d.data(), (size_t)ilen);
                                m.nodata     = false;
                                a.pos        = ilen;
                                a.appendable = true; // Hwrite makes a new element appendable
                            }
                        }
                        else if (m.nodata && k == "startwrite") {
                            // a descriptor without data gets its length now
                            m.resize((size_t)len, ST_UNSPEC);
                            m.nodata = false;
                        }
                        a.newelem = m.nodata;
                    }
                }
            }
            else if (k == "write") {
                int   slot = modn(o.arg(0), NAID);
                MAid &a    = s.A[c][slot];
                int64_t len = std::max<int64_t>(1, o.arg(1));
                if (!a.live || !a.wr)
                    done = false;
                else if (s.F[a.f].el[a.e].kind == K_CONTIG && !s.F[a.f].el[a.e].nodata &&
                         a.pos + len > (int64_t)s.F[a.f].el[a.e].b.size() && aids_on(s, a.f, a.e) > 1 && s.g_promo &&
                         HPisappendable(a.aid) == FAIL) {
                    // known finding C01-promotion-stale-handles: growth here would promote the element to linked
                    // blocks and leave the other access ids on it dangling
                    done = false;
                    ctx.probe("guard:promotion-with-other-aids");
                }
                else {
                    MElem &m = s.F[a.f].el[a.e];
                    // the data block is positioned so that every write has unique, attributable bytes
                    std::vector<uint8_t> d = data_block((uint64_t)o.arg(2), (size_t)len);
                    bool  inside = !m.nodata && a.pos + len <= (int64_t)m.b.size();
                    bool  wasnodata = m.nodata;
                    int32 n = Hwrite(a.aid, (int32)len, d.data());
                    ctx.tr((uint64_t)n);
                    if (n == FAIL) {
                        ctx.st.api_fail++;
                        if (inside || a.appendable || wasnodata)
                            ctx.fail("write-refused", strf("write-refused:%s", inside ? "inside" : wasnodata ? "new" : "append"),
                                     strf("Hwrite(%lld bytes at %lld) on %s failed (len %zu, kind %d, appendable %d): %s",
                                          (long long)len, (long long)a.pos, eid(a.f, a.e).c_str(), m.b.size(), m.kind,
                                          a.appendable, HEstring((hdf_err_code_t)HEvalue(1))));
                    }
                    else {
                        if (n != (int32)len)
                            ctx.fail("count-mismatch", "count-mismatch:write",
                                     strf("Hwrite(%lld) returned %d", (long long)len, (int)n));
                        if (wasnodata) {
                            m.nodata = false;
                            // a first write makes the element appendable (Hwrite sets it for new elements)
                            a.appendable = true;
                        }
                        if (a.pos > (int64_t)m.b.size())
                            grow(m, (size_t)a.pos, ST_GAP);
                        if (a.pos + len > (int64_t)m.b.size()) {
                            if (m.kind == K_CONTIG && !inside)
                                ctx.probe("append");
                            grow(m, (size_t)(a.pos + len), ST_SPEC);
                        }
                        memcpy(m.b.data() + a.pos, d.data(), (size_t)len);
                        memset(m.st.data() + a.pos, ST_SPEC, (size_t)len);
                        a.pos += len;
                        // silent promotion?
                        int32 flen, foff;
                        int16 sp = 0;
                        if (Hinquire(a.aid, NULL, NULL, NULL, &flen, &foff, NULL, NULL, &sp) != FAIL && sp == SPECIAL_LINKED &&
                            m.kind == K_CONTIG) {
                            m.kind = K_LINKED;
                            ctx.probe("promoted-by-write");
                        }
                    }
                }
            }
            else if (k == "read") {
                int   slot = modn(o.arg(0), NAID);
                MAid &a    = s.A[c][slot];
                int64_t len = std::max<int64_t>(0, o.arg(1));
                if (!a.live)
                    done = false;
                else {
                    MElem &m     = s.F[a.f].el[a.e];
                    int64_t mlen = (int64_t)m.b.size();
                    int64_t avail = a.pos <= mlen ? mlen - a.pos : 0;
                    int64_t expect = (len == 0 || len > avail) ? avail : len;
                    std::vector<uint8_t> buf((size_t)(std::max<int64_t>(len, avail) + 64), 0xA5);
                    int32 n = Hread(a.aid, (int32)len, buf.data());
                    ctx.tr((uint64_t)n);
                    if (n > 0)
                        ctx.trb(buf.data(), (size_t)n);
                    // never more than what was asked for / what exists, whatever else happens
                    int64_t cap = (len == 0) ? avail : std::min<int64_t>(len, avail);
                    for (size_t j = (size_t)std::max<int64_t>(cap, 0); j < buf.size(); j++)
                        if (buf[j] != 0xA5)
                            ctx.fail("buffer-overrun", strf("buffer-overrun:read:kind%d", m.kind),
                                     strf("Hread(%lld) at %lld of %s (len %lld, kind %d) stored data beyond byte %lld of the "
                                          "caller's buffer (returned %d)",
                                          (long long)len, (long long)a.pos, eid(a.f, a.e).c_str(), (long long)mlen, m.kind,
                                          (long long)cap, (int)n));
                    bool unspec = m.nodata || a.newelem || !m.all_spec((size_t)a.pos, (size_t)(a.pos + expect));
                    if (n == FAIL) {
                        ctx.st.api_fail++;
                        if (!unspec && expect > 0)
                            ctx.fail("read-refused", strf("read-refused:kind%d", m.kind),
                                     strf("Hread(%lld) at %lld of %s failed but %lld specified bytes are there (len %lld, kind "
                                          "%d): %s",
                                          (long long)len, (long long)a.pos, eid(a.f, a.e).c_str(), (long long)expect,
                                          (long long)mlen, m.kind, HEstring((hdf_err_code_t)HEvalue(1))));
                    }
                    else {
                        ctx.st.checks++;
                        if (m.nodata) {
                            if (n != 0)
                                ctx.fail("count-mismatch", "count-mismatch:read-nodata",
                                         strf("Hread on %s which has no data returned %d", eid(a.f, a.e).c_str(), (int)n));
                        }
                        else {
                            if (n != (int32)expect)
                                ctx.fail("count-mismatch", strf("count-mismatch:read:kind%d", m.kind),
                                         strf("Hread(%lld) at %lld of %s returned %d, model says %lld (len %lld, kind %d)",
                                              (long long)len, (long long)a.pos, eid(a.f, a.e).c_str(), (int)n,
                                              (long long)expect, (long long)mlen, m.kind));
                            compare(s, "Hread", a.f, a.e, a.pos, buf.data(), n, false);
                            if (m.kind == K_LINKED)
                                ctx.probe("linked-read");
                            a.pos += n;
                        }
                    }
                }
            }
            else if (k == "seek") {
                int   slot = modn(o.arg(0), NAID);
                MAid &a    = s.A[c][slot];
                int64_t off = o.arg(1);
                int     origin = modn(o.arg(2), 3);
                if (!a.live)
                    done = false;
                else if (s.F[a.f].el[a.e].kind == K_CONTIG && !s.F[a.f].el[a.e].nodata && a.appendable &&
                         aids_on(s, a.f, a.e) > 1 && s.g_promo && HPisappendable(a.aid) == FAIL &&
                         (origin == 0 ? off : origin == 1 ? a.pos + off : (int64_t)s.F[a.f].el[a.e].b.size() + off) >=
                             (int64_t)s.F[a.f].el[a.e].b.size()) {
                    done = false; // same known finding: Hseek at/after the end promotes too
                    ctx.probe("guard:promotion-with-other-aids");
                }
                else {
                    MElem &m    = s.F[a.f].el[a.e];
                    int64_t mlen = m.nodata ? 0 : (int64_t)m.b.size();
                    int64_t tgt = origin == 0 ? off : origin == 1 ? a.pos + off : mlen + off;
                    intn    r   = Hseek(a.aid, (int32)off, origin);
                    ctx.tr((uint64_t)r);
                    bool must_ok   = tgt >= 0 && (tgt <= mlen) && !m.nodata;
                    bool must_fail = tgt < 0;
                    if (r == FAIL) {
                        ctx.st.api_fail++;
                        if (must_ok)
                            ctx.fail("seek-refused", strf("seek-refused:kind%d", m.kind),
                                     strf("Hseek(%lld, origin %d) to %lld inside %s (len %lld, kind %d) failed: %s",
                                          (long long)off, origin, (long long)tgt, eid(a.f, a.e).c_str(), (long long)mlen,
                                          m.kind, HEstring((hdf_err_code_t)HEvalue(1))));
                    }
                    else {
                        if (must_fail)
                            ctx.fail("seek-accepted", "seek-accepted:negative",
                                     strf("Hseek to negative position %lld succeeded", (long long)tgt));
                        a.pos = tgt;
                        if (m.nodata) // no data yet: the element has no length to seek against; follow the library
                            a.pos = Htell(a.aid);
                        if (tgt > mlen)
                            ctx.probe("seek-past-end");
                        int16 sp = 0;
                        if (m.kind == K_CONTIG && Hinquire(a.aid, NULL, NULL, NULL, NULL, NULL, NULL, NULL, &sp) != FAIL &&
                            sp == SPECIAL_LINKED) {
                            m.kind = K_LINKED;
                            ctx.probe("promoted-by-seek");
                        }
                    }
                }
            }
            else if (k == "tell" || k == "inquire") {
                int   slot = modn(o.arg(0), NAID);
                MAid &a    = s.A[c][slot];
                if (!a.live)
                    done = false;
                else {
                    MElem &m = s.F[a.f].el[a.e];
                    ctx.st.checks++;
                    if (k == "tell") {
                        int32 t = Htell(a.aid);
                        ctx.tr((uint64_t)t);
                        if (t != (int32)a.pos)
                            ctx.fail("position-mismatch", "position-mismatch:tell",
                                     strf("Htell on %s = %d, model %lld", eid(a.f, a.e).c_str(), (int)t, (long long)a.pos));
                    }
                    else {
                        int32  fid = 0, len = 0, off = 0, pos = 0;
                        uint16 tag = 0, ref = 0;
                        int16  acc = 0, sp = 0;
                        intn   r = Hinquire(a.aid, &fid, &tag, &ref, &len, &off, &pos, &acc, &sp);
                        ctx.tr((uint64_t)r);
                        if (r == FAIL) {
                            if (!m.nodata && !a.newelem)
                                ctx.fail("inquire-refused", "inquire-refused",
                                         strf("Hinquire on live access id of %s failed", eid(a.f, a.e).c_str()));
                        }
                        else {
                            ctx.tr((uint64_t)len);
                            ctx.tr((uint64_t)pos);
                            if ((uint16)(tag & ~0x4000) != tag_of(a.e) || ref != ref_of(a.e))
                                ctx.fail("identity-mismatch", "identity-mismatch:inquire",
                                         strf("Hinquire reports %u/%u for an access id of %s", tag, ref, eid(a.f, a.e).c_str()));
                            if (pos != (int32)a.pos)
                                ctx.fail("position-mismatch", strf("position-mismatch:inquire:kind%d", m.kind),
                                         strf("Hinquire position on %s = %d, model %lld", eid(a.f, a.e).c_str(), (int)pos,
                                              (long long)a.pos));
                            if (!m.nodata && !a.newelem && len != (int32)m.b.size())
                                ctx.fail("length-mismatch", strf("length-mismatch:inquire:kind%d", m.kind),
                                         strf("Hinquire length of %s = %d, model %zu (kind %d)", eid(a.f, a.e).c_str(),
                                              (int)len, m.b.size(), m.kind));
                        }
                    }
                }
            }
            else if (k == "length" || k == "getelem") {
                int    f = modn(o.arg(0), NFILES), e = modn(o.arg(1), NELEM);
                MFile &F = s.F[f];
                MElem &m = F.el[e];
                if (!F.mode[fc])
                    done = false;
                else if (m.exists && m.kind != K_CONTIG && other_fid_conflict(s, f, e, fc, false)) {
                    done = false;
                    ctx.probe("guard:multi-fid-special");
                }
                else if (k == "length") {
                    int32 len = Hlength(F.fid[fc], tag_of(e), ref_of(e));
                    ctx.tr((uint64_t)len);
                    ctx.st.checks++;
                    if (!m.exists) {
                        if (len != FAIL)
                            ctx.fail("ghost-element", "ghost-element:length",
                                     strf("Hlength(%s) = %d but the element does not exist", eid(f, e).c_str(), (int)len));
                    }
                    else if (!m.nodata && len != (int32)m.b.size())
                        ctx.fail("length-mismatch", strf("length-mismatch:Hlength:kind%d", m.kind),
                                 strf("Hlength(%s) = %d, model %zu (kind %d)", eid(f, e).c_str(), (int)len, m.b.size(),
                                      m.kind));
                }
                else {
                    std::vector<uint8_t> buf(m.b.size() + 64, 0xA5);
                    int32                n = Hgetelement(F.fid[fc], tag_of(e), ref_of(e), buf.data());
                    ctx.tr((uint64_t)n);
                    if (n > 0)
                        ctx.trb(buf.data(), (size_t)n);
                    ctx.st.checks++;
                    size_t cap = m.exists && !m.nodata ? m.b.size() : 0;
                    for (size_t j = cap; j < buf.size(); j++)
                        if (buf[j] != 0xA5)
                            ctx.fail("buffer-overrun", strf("buffer-overrun:getelement:kind%d", m.kind),
                                     strf("Hgetelement(%s) wrote beyond the element length %zu (returned %d)",
                                          eid(f, e).c_str(), cap, (int)n));
                    if (!m.exists) {
                        if (n != FAIL)
                            ctx.fail("ghost-element", "ghost-element:getelement",
                                     strf("Hgetelement(%s) = %d but the element does not exist", eid(f, e).c_str(), (int)n));
                    }
                    else if (m.nodata || m.b.empty()) {
                        if (n > 0)
                            ctx.fail("count-mismatch", "count-mismatch:getelement-nodata",
                                     strf("Hgetelement(%s) returned %d for an element without data", eid(f, e).c_str(), (int)n));
                    }
                    else if (n == FAIL) {
                        ctx.st.api_fail++;
                        if (m.all_spec(0, m.b.size()))
                            ctx.fail("read-refused", strf("read-refused:getelement:kind%d", m.kind),
                                     strf("Hgetelement(%s) failed; %zu specified bytes (kind %d): %s", eid(f, e).c_str(),
                                          m.b.size(), m.kind, HEstring((hdf_err_code_t)HEvalue(1))));
                    }
                    else {
                        if (n != (int32)m.b.size())
                            ctx.fail("count-mismatch", strf("count-mismatch:getelement:kind%d", m.kind),
                                     strf("Hgetelement(%s) returned %d, model %zu", eid(f, e).c_str(), (int)n, m.b.size()));
                        compare(s, "Hgetelement", f, e, 0, buf.data(), n, false);
                    }
                }
            }
            else if (k == "putelem") {
                int    f = modn(o.arg(0), NFILES), e = modn(o.arg(1), NELEM);
                MFile &F = s.F[f];
                MElem &m = F.el[e];
                int64_t len = std::max<int64_t>(1, o.arg(2));
                if (F.mode[fc] != 2 || writers_on(s, f, e) || aliased(s, f, e))
                    done = false;
                else if (m.exists && m.kind != K_CONTIG && other_fid_conflict(s, f, e, fc, true)) {
                    done = false;
                    ctx.probe("guard:multi-fid-special");
                }
                else {
                    std::vector<uint8_t> d = data_block((uint64_t)o.arg(3), (size_t)len);
                    bool  fits = !m.exists || m.nodata || len <= (int64_t)m.b.size();
                    int32 n    = Hputelement(F.fid[fc], tag_of(e), ref_of(e), d.data(), (int32)len);
                    ctx.tr((uint64_t)n);
                    if (n == FAIL) {
                        ctx.st.api_fail++;
                        if (fits)
                            ctx.fail("write-refused", strf("write-refused:putelement:kind%d", m.kind),
                                     strf("Hputelement(%s, %lld bytes) failed (exists %d, len %zu, kind %d): %s",
                                          eid(f, e).c_str(), (long long)len, m.exists, m.b.size(), m.kind,
                                          HEstring((hdf_err_code_t)HEvalue(1))));
                    }
                    else {
                        if (n != (int32)len)
                            ctx.fail("count-mismatch", "count-mismatch:putelement", strf("Hputelement(%lld) returned %d", (long long)len, (int)n));
                        if (!m.exists || m.nodata) {
                            int kind = m.exists ? m.kind : K_CONTIG;
                            m        = MElem();
                            m.exists = true;
                            m.kind   = kind;
                        }
                        grow(m, (size_t)len, ST_SPEC);
                        memcpy(m.b.data(), d.data(), (size_t)len);
                        memset(m.st.data(), ST_SPEC, (size_t)len);
                        // other access ids on a formerly data-less element keep seeing it as the library does
                    }
                }
            }
            else if (k == "trunc") {
                int   slot = modn(o.arg(0), NAID);
                MAid &a    = s.A[c][slot];
                int64_t len = std::max<int64_t>(0, o.arg(1));
                if (!a.live || !a.wr)
                    done = false;
                else {
                    MElem &m = s.F[a.f].el[a.e];
                    if (m.kind != K_CONTIG || m.nodata || aliased(s, a.f, a.e))
                        done = false;
                    else {
                        int32 r = Htrunc(a.aid, (int32)len);
                        ctx.tr((uint64_t)r);
                        if (len < (int64_t)m.b.size()) {
                            if (r != (int32)len)
                                ctx.fail("trunc-refused", "trunc-refused",
                                         strf("Htrunc(%s, %lld) returned %d (len %zu)", eid(a.f, a.e).c_str(), (long long)len,
                                              (int)r, m.b.size()));
                            m.b.resize((size_t)len);
                            m.st.resize((size_t)len);
                            if (a.pos > len)
                                a.pos = len;
                            s.F[a.f].space_reused = true;
                            ctx.probe("trunc");
                        }
                        else if (r != FAIL)
                            ctx.fail("trunc-accepted", "trunc-accepted",
                                     strf("Htrunc(%s, %lld) of a %zu byte element returned %d", eid(a.f, a.e).c_str(),
                                          (long long)len, m.b.size(), (int)r));
                    }
                }
            }
            else if (k == "appendable") {
                int   slot = modn(o.arg(0), NAID);
                MAid &a    = s.A[c][slot];
                if (!a.live || !a.wr)
                    done = false;
                else {
                    intn r = Happendable(a.aid);
                    ctx.tr((uint64_t)r);
                    if (r == FAIL)
                        ctx.fail("appendable-refused", "appendable-refused", "Happendable on a live write access id failed");
                    a.appendable = true;
                }
            }
            else if (k == "hlcreate") {
                int    f = modn(o.arg(0), NFILES), e = modn(o.arg(1), NELEM);
                int    bl = (int)std::max<int64_t>(1, o.arg(2)), nb = (int)std::max<int64_t>(1, o.arg(3));
                int    slot = modn(o.arg(4), NAID);
                MFile &F = s.F[f];
                MElem &m = F.el[e];
                MAid  &a = s.A[c][slot];
                if (F.mode[fc] != 2 || a.live || aids_on(s, f, e) || aliased(s, f, e) || (m.exists && m.kind != K_CONTIG) ||
                    (m.exists && m.nodata))
                    done = false;
                else {
                    int32 aid = HLcreate(F.fid[fc], tag_of(e), ref_of(e), bl, nb);
                    ctx.tr((uint64_t)(aid != FAIL));
                    if (aid == FAIL)
                        ctx.fail("access-refused", "access-refused:hlcreate",
                                 strf("HLcreate(%s, %d, %d) failed (exists %d len %zu): %s", eid(f, e).c_str(), bl, nb,
                                      m.exists, m.b.size(), HEstring((hdf_err_code_t)HEvalue(1))));
                    if (!m.exists) {
                        m        = MElem();
                        m.exists = true;
                    }
                    m.kind = K_LINKED;
                    a.live = true;
                    a.aid  = aid;
                    a.f    = f;
                    a.e    = e;
                    a.fidx = fc;
                    a.pos  = 0;
                    a.wr   = true;
                    a.appendable = true; // linked-block elements always grow
                    a.newelem    = false;
                    ctx.probe("hlcreate");
                    if (nb <= 2)
                        ctx.probe("linked-multi-table");
                }
            }
            else if (k == "hlconvert") {
                int   slot = modn(o.arg(0), NAID);
                MAid &a    = s.A[c][slot];
                int   bl = (int)std::max<int64_t>(1, o.arg(1)), nb = (int)std::max<int64_t>(1, o.arg(2));
                if (!a.live || !a.wr)
                    done = false;
                else {
                    MElem &m = s.F[a.f].el[a.e];
                    if (m.kind != K_CONTIG || m.nodata || aliased(s, a.f, a.e) || aids_on(s, a.f, a.e) > 1)
                        done = false;
                    else {
                        intn r = HLconvert(a.aid, bl, nb);
                        ctx.tr((uint64_t)r);
                        if (r == FAIL)
                            ctx.fail("access-refused", "access-refused:hlconvert",
                                     strf("HLconvert(%s, %d, %d) failed: %s", eid(a.f, a.e).c_str(), bl, nb,
                                          HEstring((hdf_err_code_t)HEvalue(1))));
                        m.kind       = K_LINKED;
                        a.appendable = true;
                        ctx.probe("hlconvert");
                    }
                }
            }
            else if (k == "hxcreate") {
                int    f = modn(o.arg(0), NFILES), e = modn(o.arg(1), NELEM);
                int    x = modn(o.arg(2), NEXT);
                int64_t off = std::max<int64_t>(0, o.arg(3)), len = std::max<int64_t>(0, o.arg(4));
                int    slot = modn(o.arg(5), NAID);
                MFile &F = s.F[f];
                MElem &m = F.el[e];
                MAid  &a = s.A[c][slot];
                // one element per external file region: regions of different elements must not overlap, so each
                // (file, element) gets its own external file
                std::string xname = strf("/sim/x%d_%d_%d.dat", f, e, x);
                if (F.mode[fc] != 2 || a.live || aids_on(s, f, e) || aliased(s, f, e) || (m.exists && m.nodata) ||
                    (m.exists && m.kind == K_EXT))
                    done = false;
                else {
                    int32 aid = HXcreate(F.fid[fc], tag_of(e), ref_of(e), xname.c_str(), (int32)off, (int32)len);
                    ctx.tr((uint64_t)(aid != FAIL));
                    if (aid == FAIL && m.exists && !m.all_spec(0, m.b.size())) {
                        // moving data that was reserved but never written: the copy may fail
                        ctx.st.api_fail++;
                        ctx.st.ops_done++;
                        continue;
                    }
                    if (aid == FAIL)
                        ctx.fail("access-refused", "access-refused:hxcreate",
                                 strf("HXcreate(%s -> %s) failed (exists %d kind %d len %zu): %s", eid(f, e).c_str(),
                                      xname.c_str(), m.exists, m.kind, m.b.size(), HEstring((hdf_err_code_t)HEvalue(1))));
                    if (!m.exists || m.b.empty()) {
                        // no data to move: the external element gets the requested length
                        m        = MElem();
                        m.exists = true;
                        m.resize((size_t)len, ST_UNSPEC);
                    }
                    m.kind = K_EXT;
                    a.live = true;
                    a.aid  = aid;
                    a.f    = f;
                    a.e    = e;
                    a.fidx = fc;
                    a.pos  = 0;
                    a.wr   = true;
                    a.appendable = true; // external elements grow with their file
                    a.newelem    = false;
                    ctx.probe("external-io");
                }
            }
            else if (k == "dupdd") {
                int    f = modn(o.arg(0), NFILES), e = modn(o.arg(1), NELEM), d = modn(o.arg(2), NELEM);
                MFile &F = s.F[f];
                if (F.mode[fc] != 2 || e == d || !F.el[e].exists || F.el[e].nodata || F.el[d].exists || F.el[e].kind != K_CONTIG ||
                    aids_on(s, f, e) || aids_on(s, f, d) || F.el[e].alias >= 0)
                    done = false;
                else {
                    intn r = Hdupdd(F.fid[fc], tag_of(d), ref_of(d), tag_of(e), ref_of(e));
                    ctx.tr((uint64_t)r);
                    if (r == FAIL)
                        ctx.fail("dup-refused", "dup-refused", strf("Hdupdd(%s -> %s) failed", eid(f, e).c_str(), eid(f, d).c_str()));
                    F.el[d]       = F.el[e];
                    F.el[d].alias = e;
                    ctx.probe("dupdd");
                }
            }
            else if (k == "deldd") {
                int    f = modn(o.arg(0), NFILES), e = modn(o.arg(1), NELEM);
                MFile &F = s.F[f];
                if (F.mode[fc] != 2 || !F.el[e].exists || aids_on(s, f, e))
                    done = false;
                else {
                    intn r = Hdeldd(F.fid[fc], tag_of(e), ref_of(e));
                    ctx.tr((uint64_t)r);
                    if (r == FAIL)
                        ctx.fail("delete-refused", strf("delete-refused:kind%d", F.el[e].kind),
                                 strf("Hdeldd(%s) failed (kind %d): %s", eid(f, e).c_str(), F.el[e].kind,
                                      HEstring((hdf_err_code_t)HEvalue(1))));
                    for (int j = 0; j < NELEM; j++)
                        if (F.el[j].alias == e)
                            F.el[j].alias = -1;
                    F.el[e]        = MElem();
                    F.space_reused = true;
                    ctx.probe("deldd");
                }
            }
            else if (k == "endaccess") {
                int slot = modn(o.arg(0), NAID);
                if (!s.A[c][slot].live)
                    done = false;
                else
                    end_aid(s, c, slot, "endaccess op");
            }
            else if (k == "cache" || k == "sync") {
                int f = modn(o.arg(0), NFILES);
                if (!s.F[f].mode[fc])
                    done = false;
                else {
                    intn r = k == "cache" ? Hcache(s.F[f].fid[fc], (intn)modn(o.arg(1), 2)) : Hsync(s.F[f].fid[fc]);
                    ctx.tr((uint64_t)r);
                    if (r == FAIL)
                        ctx.fail("sync-failed", "sync-failed:" + k, k + " failed on an open file");
                }
            }
            else
                done = false;
            if (getenv("H4SIM_DEBUG")) {
                for (int f = 0; f < NFILES; f++)
                    for (int cc = 0; cc < MAXCLIENT; cc++)
                        if (s.F[f].mode[cc]) {
                            char *fn = NULL;
                            intn  acc = 0, att = 0;
                            Hfidinquire(s.F[f].fid[cc], &fn, &acc, &att);
                            fprintf(stderr, "  after op %zu (%s%s): f%d fid-slot %d attach=%d\n", i, k.c_str(),
                                    done ? "" : " skipped", f, cc, att);
                        }
            }
            if (done) {
                ctx.st.ops_done++;
                state_hash(s);
            }
            else
                ctx.st.ops_skipped++;
        }
    }
};

Registrar reg(new HElem);

} // namespace
} // namespace h4
