// prof_coder.cc -- C05: lossless coders and bit-level I/O round-trip every byte stream.
#include "hx.h"

namespace h4 {
namespace {

const int NEL = 3, NBIT = 2, NNB = 2;

struct MEl {
    bool                 exists = false;
    int                  coder = 0, param = 0;
    std::vector<uint8_t> data;
    int32                waid = FAIL; // open writer
    bool                 resumed = false; // the writer has read back or took the stream up in a later access: appends may be refused
};
struct MBits {
    bool              exists = false;
    std::vector<bool> bits;
};
struct MNbit {
    bool  exists = false;
    int   nt = 0, start = 0, len = 0, sext = 0, fillone = 0;
    int32 n = 0;
    int   gen = 0;               // SD datasets cannot be deleted: a slot that is filled again gets a dataset of a new name
    std::vector<uint8_t> expect; // projected values as read back
};
struct IT {
    int32 code;
    int   size;
    bool  is_signed;
};
const IT  ITS[] = {{DFNT_INT8, 1, true}, {DFNT_UINT8, 1, false}, {DFNT_INT16, 2, true}, {DFNT_UINT16, 2, false}, {DFNT_INT32, 4, true}, {DFNT_UINT32, 4, false}};
const int NIT   = 6;

static std::vector<uint8_t> gen_data(int cls, int64_t len, uint64_t ds)
{
    std::vector<uint8_t> v((size_t)len);
    switch (cls % 5) {
        case 0: // incompressible
            fill_data(ds, v.data(), v.size());
            break;
        case 1: { // runs around the run-length limits
            static const int rl[] = {1, 2, 3, 126, 127, 128, 129, 130, 131, 255, 256, 257};
            size_t           i    = 0;
            uint64_t         k    = 0;
            while (i < v.size()) {
                uint64_t w = mix64(ds, k++);
                size_t   n = (size_t)rl[w % 12];
                uint8_t  b = (uint8_t)(w >> 8);
                for (size_t j = 0; j < n && i < v.size(); j++)
                    v[i++] = b;
            }
            break;
        }
        case 2: // periodic
            for (size_t i = 0; i < v.size(); i++)
                v[i] = (uint8_t)(mix64(ds, i % 7) & 0xff);
            break;
        case 3: // zeros
            break;
        default: // mostly constant with sparse changes
            for (size_t i = 0; i < v.size(); i++)
                v[i] = (mix64(ds, i) % 37 == 0) ? (uint8_t)mix64(ds, i + 1000) : 0x41;
    }
    return v;
}

struct Coder : Profile {
    const char *name() const override { return "coder"; }
    const char *property() const override { return "C05"; }
    int         runs(bool thorough) const override { return thorough ? 150000 : 8000; }
    std::string rule() const override
    {
        return "each case = one generated plan of 12..60 ops: compressed elements (none, RLE, skipping Huffman with skip 1..16, "
               "deflate 0..9) written sequentially in generated partitions with data classes (incompressible, runs around "
               "127/128/129, periodic, zeros, sparse), rewritten in full, read back in other partitions with forward and backward "
               "seeks, HCPgetdatasize; n-bit datasets for every integer type x start bit x length x sign-extend x fill-one; "
               "bit-granular elements written and read with generated widths 1..32 and bit seeks; restarts; oracle = byte model, "
               "independently written n-bit projection model, bit-vector model; non-trivial = >= 2 ops and >= 1 comparison";
    }
    std::vector<std::string> assumptions() const override
    {
        return {"compressed elements are written sequentially or rewritten in full from offset 0 (the property's wording)",
                "n-bit datasets are transferred as whole values"};
    }
    std::vector<std::string> required_probes() const override
    {
        return {"rle", "skphuff", "deflate", "none", "backward-seek", "rewrite", "multi-call-write", "nbit", "nbit-signext", "bits", "bitseek",
                "restart", "empty-read-at-end", "writer-readback", "append-later", "bitmix", "bit-read-in-write-mode", "hnbit", "hnbit-partitioned-read", "hnbit-seek", "partial-refused", "seek-relative", "compress-existing-element"};
    }

    Plan generate(Rng &rng, bool thorough, uint64_t) override
    {
        Plan p;
        p.seed          = rng.next();
        Rng kr          = rng.sub(1);
        p.knobs["ndds"] = kr.chance(0.5) ? kr.range(2, 8) : 16;
        Rng r = rng.sub(2);
        int nops = (int)r.range(12, thorough ? 90 : 60);
        int maxlen = r.chance(0.25) ? 6000 : 400;
        static const std::vector<int> w     = {/*ccreate*/ 10, /*cwrite*/ 22, /*cend*/ 8, /*crewrite*/ 7, /*cread*/ 22, /*csize*/ 4, /*restart*/ 5,
                                               /*nbit*/ 7,     /*nbitread*/ 5, /*bitwrite*/ 6, /*bitread*/ 8,
                                               /*cwread*/ 9,   /*cappend*/ 5,  /*bitmix*/ 7,   /*hnbit*/ 6, /*hnbitread*/ 7, /*cdelete*/ 3, /*bitdelete*/ 2, /*hnbdelete*/ 2, /*cpartial*/ 5};
        static const char            *names[] = {"ccreate", "cwrite", "cend", "crewrite", "cread", "csize", "restart", "nbit", "nbitread", "bitwrite", "bitread",
                                                 "cwread", "cappend", "bitmix", "hnbit", "hnbitread", "cdelete", "bitdelete", "hnbdelete", "cpartial"};
        // the generator follows which slots exist so that most ops find their precondition (the executor still skips the rest)
        bool ex[NEL] = {false}, wr[NEL] = {false}, dat[NEL] = {false}, bx[NBIT] = {false}, nx[NNB] = {false}, hx[NNB] = {false};
        auto pick = [&](const bool *a, int n, bool want) -> int64_t {
            int c[8], m = 0;
            for (int i = 0; i < n; i++)
                if (a[i] == want)
                    c[m++] = i;
            return m && !r.chance(0.05) ? c[r.below((uint64_t)m)] : (int64_t)r.below((uint64_t)n);
        };
        for (int i = 0; i < nops; i++) {
            int     k = r.weighted(w);
            int64_t e;
            switch (k) {
                case 0:
                    e = pick(ex, NEL, false);
                    if (r.chance(0.25)) {
                        // compress an element that holds plain data already: length, data class, seed, and what the
                        // returned access id is used for first (0 read it, 1 rewrite it in full, 2 nothing)
                        p.ops.push_back(mkop(0, names[k], {e, (int64_t)r.below(4), r.chance(0.7) ? r.range(1, 9) : r.range(10, 16), 1 + r.sizeish(maxlen),
                                                           (int64_t)r.below(5), (int64_t)(r.next() >> 16), (int64_t)r.below(3)}));
                        if (!ex[e]) {
                            ex[e] = dat[e] = true;
                            wr[e] = p.ops.back().arg(6) == 1;
                        }
                        break;
                    }
                    p.ops.push_back(mkop(0, names[k], {e, (int64_t)r.below(4), r.chance(0.7) ? r.range(1, 9) : r.range(10, 16)}));
                    if (!ex[e])
                        ex[e] = wr[e] = true;
                    break;
                case 1:
                    e = pick(wr, NEL, true);
                    p.ops.push_back(mkop(0, names[k], {e, 1 + r.sizeish(maxlen), (int64_t)r.below(5), (int64_t)(r.next() >> 16)}));
                    if (wr[e])
                        dat[e] = true;
                    break;
                case 2:
                    e = pick(wr, NEL, true);
                    p.ops.push_back(mkop(0, names[k], {e}));
                    wr[e] = false;
                    break;
                case 5: // second argument 1: walk all elements of the tag with one access id (Hnextread)
                    e = pick(dat, NEL, true);
                    if (r.chance(0.35)) {
                        p.ops.push_back(mkop(0, names[k], {e, 1}));
                        for (int q = 0; q < NEL; q++)
                            wr[q] = false;
                    }
                    else
                        p.ops.push_back(mkop(0, names[k], {e}));
                    wr[e] = false;
                    break;
                case 3:
                    e = pick(dat, NEL, true);
                    p.ops.push_back(mkop(0, names[k], {e, (int64_t)r.below(5), (int64_t)(r.next() >> 16), (int64_t)r.below(1000), r.range(1, 5)}));
                    wr[e] = false;
                    break;
                case 4:
                    e = pick(dat, NEL, true);
                    p.ops.push_back(mkop(0, names[k], {e, (int64_t)(r.next() >> 16), r.range(1, 8)}));
                    wr[e] = false;
                    break;
                case 6:
                    p.ops.push_back(mkop(0, names[k], {}));
                    for (int q = 0; q < NEL; q++)
                        wr[q] = false;
                    break;
                case 7:
                    e = pick(nx, NNB, false);
                    p.ops.push_back(mkop(0, names[k], {e, (int64_t)r.below(NIT), (int64_t)r.below(32), r.range(1, 32), (int64_t)r.below(2),
                                                       (int64_t)r.below(2), r.range(1, 60), (int64_t)(r.next() >> 16)}));
                    nx[e] = true;
                    break;
                case 8:
                    p.ops.push_back(mkop(0, names[k], {pick(nx, NNB, true)}));
                    break;
                case 9:
                    e = pick(bx, NBIT, false);
                    p.ops.push_back(mkop(0, names[k], {e, r.chance(0.15) ? r.range(1000, 2600) : r.range(1, 60), (int64_t)(r.next() >> 16)}));
                    bx[e] = true;
                    break;
                case 10:
                    p.ops.push_back(mkop(0, names[k], {pick(bx, NBIT, true), (int64_t)(r.next() >> 16), (int64_t)r.below(3)}));
                    break;
                case 11: { // read back through the writing access id
                    bool both[NEL];
                    for (int q = 0; q < NEL; q++)
                        both[q] = wr[q] && dat[q];
                    p.ops.push_back(mkop(0, names[k], {pick(both, NEL, true), (int64_t)(r.next() >> 16), r.range(1, 4)}));
                    break;
                }
                case 12: {
                    bool idle[NEL];
                    for (int q = 0; q < NEL; q++)
                        idle[q] = dat[q] && !wr[q];
                    e = pick(idle, NEL, true);
                    p.ops.push_back(mkop(0, names[k], {e}));
                    if (idle[e])
                        wr[e] = true;
                    break;
                }
                case 13: // overwrite/read/seek mix on one write-capable bit id
                    p.ops.push_back(mkop(0, names[k], {pick(bx, NBIT, true), (int64_t)(r.next() >> 16), r.range(2, 14)}));
                    break;
                case 14: // H-level n-bit element: slot, type, start, len, sext, fill, values, data, write pieces
                    e = pick(hx, NNB, false);
                    p.ops.push_back(mkop(0, names[k], {e, (int64_t)r.below(NIT), (int64_t)r.below(32), r.range(1, 32), (int64_t)r.below(2),
                                                       (int64_t)r.below(2), r.range(1, r.chance(0.2) ? 1500 : 80), (int64_t)(r.next() >> 16), r.range(1, 4)}));
                    hx[e] = true;
                    break;
                case 15:
                    p.ops.push_back(mkop(0, names[k], {pick(hx, NNB, true), (int64_t)(r.next() >> 16), r.range(1, 5)}));
                    break;
                case 16:
                    e = pick(ex, NEL, true);
                    p.ops.push_back(mkop(0, names[k], {e}));
                    ex[e] = wr[e] = dat[e] = false;
                    break;
                case 17:
                    e = pick(bx, NBIT, true);
                    p.ops.push_back(mkop(0, names[k], {e}));
                    bx[e] = false;
                    break;
                case 19: // a write that does not cover the stream: anywhere, any length
                    e = pick(dat, NEL, true);
                    p.ops.push_back(mkop(0, names[k], {e, (int64_t)r.below(1000), (int64_t)r.below(1000), (int64_t)(r.next() >> 16)}));
                    wr[e] = false;
                    break;
                case 18:
                    e = pick(hx, NNB, true);
                    p.ops.push_back(mkop(0, names[k], {e}));
                    hx[e] = false;
                    break;
            }
        }
        p.ops.push_back(mkop(0, "restart", {}));
        return p;
    }

    struct S {
        Ctx  &ctx;
        MEl   el[NEL];
        MBits bt[NBIT];
        MNbit nb[NNB], hnb[NNB];
        int32 fid = FAIL, sd = FAIL;
        bool  on_disk = false, sd_on_disk = false;
        explicit S(Ctx &c) : ctx(c) {}
    };
    const std::string path = "/sim/cd.hdf", sdpath = "/sim/cd_nbit.hdf";

    void open_h(S &s, int ndds)
    {
        if (s.fid != FAIL)
            return;
        s.fid = Hopen(path.c_str(), s.on_disk ? DFACC_RDWR : DFACC_CREATE, (int16)ndds);
        if (s.fid == FAIL)
            s.ctx.fail("open-failed", "open-failed", "Hopen failed");
        s.on_disk = true;
    }
    void open_sd(S &s)
    {
        if (s.sd != FAIL)
            return;
        s.sd = SDstart(sdpath.c_str(), s.sd_on_disk ? DFACC_RDWR : DFACC_CREATE);
        if (s.sd == FAIL)
            s.ctx.fail("open-failed", "open-failed:sd", "SDstart failed");
        s.sd_on_disk = true;
    }
    void end_writer(S &s, int e)
    {
        s.el[e].resumed = false;
        if (s.el[e].waid == FAIL)
            return;
        if (Hendaccess(s.el[e].waid) == FAIL)
            s.ctx.fail("endaccess-failed", strf("endaccess-failed:coder%d", s.el[e].coder), strf("Hendaccess of the writer of compressed element %d failed", e));
        s.el[e].waid = FAIL;
    }
    void close_all(S &s)
    {
        for (int e = 0; e < NEL; e++)
            end_writer(s, e);
        if (s.fid != FAIL) {
            if (Hclose(s.fid) == FAIL)
                s.ctx.fail("close-failed", "close-failed", strf("Hclose failed: %s", herr().c_str()));
            s.fid = FAIL;
        }
        if (s.sd != FAIL) {
            if (SDend(s.sd) == FAIL)
                s.ctx.fail("close-failed", "close-failed:sd", "SDend failed");
            s.sd = FAIL;
        }
    }
    static const char *cname(int c)
    {
        static const char *n[] = {"none", "rle", "skphuff", "deflate"};
        return n[c & 3];
    }

    // read the element back in a generated pattern of reads and seeks
    void read_pattern(S &s, int e, uint64_t seed, int maxpieces, const char *when)
    {
        MEl  &m   = s.el[e];
        int32 aid = Hstartread(s.fid, 8900, (uint16)(1 + e));
        if (aid == FAIL)
            s.ctx.fail("access-refused", strf("access-refused:%s", cname(m.coder)), strf("Hstartread of compressed element %d (%s) failed (%s)", e, cname(m.coder), when));
        Rng     r(seed);
        int64_t len = (int64_t)m.data.size(), pos = 0;
        int     pieces = 0;
        while (pieces++ < maxpieces * 3) {
            // sometimes seek (forward or backward), then read a piece
            if (r.chance(0.35) && len > 0) {
                int64_t tgt = (int64_t)r.below((uint64_t)len + 1);
                if (tgt < pos)
                    s.ctx.probe("backward-seek");
                // the same target through one of the three origins
                int   org = (int)r.below(3);
                int32 rc = org == 0 ? Hseek(aid, (int32)tgt, DF_START) : org == 1 ? Hseek(aid, (int32)(tgt - pos), DF_CURRENT) : Hseek(aid, (int32)(tgt - len), DF_END);
                if (org)
                    s.ctx.probe("seek-relative");
                if (rc == FAIL)
                    s.ctx.fail("seek-refused", strf("seek-refused:%s", cname(m.coder)),
                               strf("Hseek to %lld (origin %d) inside compressed element %d (%s, %lld bytes) failed (%s)", (long long)tgt, org, e, cname(m.coder), (long long)len, when));
                pos = tgt;
            }
            int64_t avail = len - pos;
            int64_t want  = r.chance(0.2) ? 0 : r.chance(0.1) ? avail + 1 + (int64_t)r.below(5) : 1 + (int64_t)r.below((uint64_t)std::max<int64_t>(1, avail));
            if (r.chance(0.3))
                want = std::min<int64_t>(want, 1 + (int64_t)r.below(9));
            int64_t expect = (want == 0 || want > avail) ? avail : want;
            std::vector<uint8_t> buf((size_t)std::max<int64_t>(want, avail) + 32, 0x5A);
            int32   n = Hread(aid, (int32)want, buf.data());
            s.ctx.tr((uint64_t)n);
            s.ctx.st.checks++;
            if (want > avail && n == FAIL) {
                // a request that crosses the end of the stream is refused by the compression layer (plain elements clip it):
                // either answer is fine, wrong bytes are not; the position after a refusal is re-established by a seek
                s.ctx.probe("overlong-refused");
                if (Hseek(aid, (int32)pos, DF_START) == FAIL)
                    s.ctx.fail("seek-refused", strf("seek-refused:%s", cname(m.coder)), strf("Hseek to %lld after a refused read failed (%s)", (long long)pos, when));
                continue;
            }
            if (expect == 0) {
                s.ctx.probe("empty-read-at-end");
                if (n > 0)
                    s.ctx.fail("count-mismatch", strf("count-mismatch:at-end:%s", cname(m.coder)),
                               strf("Hread(%lld) at the end of compressed element %d (%s) returned %d (%s)", (long long)want, e, cname(m.coder), (int)n, when));
            }
            else {
                if (n != (int32)expect)
                    s.ctx.fail("count-mismatch", strf("count-mismatch:%s", cname(m.coder)),
                               strf("Hread(%lld) at %lld of compressed element %d (%s, %lld bytes) returned %d, model %lld (%s)", (long long)want,
                                    (long long)pos, e, cname(m.coder), (long long)len, (int)n, (long long)expect, when));
                if (memcmp(buf.data(), m.data.data() + pos, (size_t)expect) != 0) {
                    size_t at = 0;
                    while (buf[at] == m.data[(size_t)pos + at])
                        at++;
                    s.ctx.fail("data-mismatch", strf("data-mismatch:%s", cname(m.coder)),
                               strf("compressed element %d (%s param %d, %lld bytes): byte %lld reads %02x, written %02x (read of %lld at %lld, %s)", e,
                                    cname(m.coder), m.param, (long long)len, (long long)(pos + (int64_t)at), buf[at], m.data[(size_t)pos + at],
                                    (long long)want, (long long)pos, when));
                }
                pos += expect;
            }
            for (size_t j = (size_t)std::max<int64_t>(expect, 0); j < buf.size(); j++)
                if (buf[j] != 0x5A)
                    s.ctx.fail("buffer-overrun", strf("buffer-overrun:%s", cname(m.coder)), strf("Hread on compressed element %d stored data beyond the bytes it reported", e));
            if (pos >= len && pieces >= maxpieces)
                break;
        }
        if (Hendaccess(aid) == FAIL)
            s.ctx.fail("endaccess-failed", strf("endaccess-failed:reader:%s", cname(m.coder)), "Hendaccess of a reader failed");
    }

    // documented n-bit projection of one value (written independently of cnbit.c)
    static uint32_t project(uint32_t v, int bits, int start, int len, bool sext, bool fillone, bool is_signed)
    {
        (void)is_signed;
        int hi = start, lo = start - len + 1;
        if (lo < 0)
            lo = 0;
        uint32_t fieldmask = 0;
        for (int b = lo; b <= hi && b < bits; b++)
            fieldmask |= 1u << b;
        uint32_t all = bits == 32 ? 0xffffffffu : ((1u << bits) - 1);
        uint32_t out = (fillone ? all : 0) & ~fieldmask;
        out |= v & fieldmask;
        if (sext && hi < bits - 1) {
            uint32_t above = all & ~((hi + 1 >= 32) ? 0xffffffffu : ((1u << (hi + 1)) - 1));
            if (v & (1u << hi))
                out |= above;
            else
                out &= ~above;
        }
        return out & all;
    }

    void execute(Ctx &ctx) override
    {
        S           s(ctx);
        const Plan &p    = ctx.plan;
        int         ndds = (int)p.knob("ndds", 16);
        for (size_t i = 0; i < p.ops.size(); i++) {
            const Op &o = p.ops[i];
            ctx.begin_op((int)i);
            const std::string &k = o.kind;
            bool               done = true;
            if (k == "ccreate") {
                int  e = modn(o.arg(0), NEL);
                MEl &m = s.el[e];
                if (m.exists)
                    done = false;
                else {
                    open_h(s, ndds);
                    m       = MEl();
                    m.coder = modn(o.arg(1), 4);
                    m.param = (int)o.arg(2);
                    comp_info  ci;
                    model_info mi;
                    memset(&ci, 0, sizeof ci);
                    memset(&mi, 0, sizeof mi);
                    comp_coder_t ct = COMP_CODE_NONE;
                    if (m.coder == 1)
                        ct = COMP_CODE_RLE;
                    else if (m.coder == 2) {
                        ct                  = COMP_CODE_SKPHUFF;
                        ci.skphuff.skp_size = std::max(1, m.param);
                    }
                    else if (m.coder == 3) {
                        ct               = COMP_CODE_DEFLATE;
                        ci.deflate.level = m.param % 10;
                    }
                    std::vector<uint8_t> plain;
                    if (o.arg(3) > 0) {
                        // the element holds plain data already: HCcreate compresses what is there
                        plain = gen_data((int)o.arg(4), o.arg(3), (uint64_t)o.arg(5));
                        if (Hputelement(s.fid, 8900, (uint16)(1 + e), plain.data(), (int32)plain.size()) == FAIL)
                            ctx.fail("create-refused", "create-refused:plain", strf("Hputelement of the plain element failed: %s", herr().c_str()));
                    }
                    int32 aid = HCcreate(s.fid, 8900, (uint16)(1 + e), COMP_MODEL_STDIO, &mi, ct, &ci);
                    if (aid == FAIL)
                        ctx.fail("create-refused", strf("create-refused:%s", cname(m.coder)), strf("HCcreate(%s, param %d) failed: %s", cname(m.coder), m.param, herr().c_str()));
                    m.exists = true;
                    m.waid   = aid;
                    ctx.probe(cname(m.coder));
                    if (!plain.empty()) {
                        ctx.probe("compress-existing-element");
                        m.data = plain;
                        int first = modn(o.arg(6), 3);
                        if (first == 0) {
                            // the access id stands at the start of the element: reading gives the bytes that were there
                            std::vector<uint8_t> got(plain.size() + 8, 0x5A);
                            int32                n = Hread(aid, (int32)plain.size(), got.data());
                            if (n != (int32)plain.size() || memcmp(got.data(), plain.data(), plain.size()) != 0)
                                ctx.fail("read-mismatch", strf("read-mismatch:after-compressing:%s", cname(m.coder)),
                                         strf("Hread(%zu) through the id HCcreate returned for an element that held data returned %d%s", plain.size(), (int)n,
                                              n == (int32)plain.size() ? " and other bytes" : ""));
                            m.resumed = true;
                        }
                        else if (first == 1) {
                            // ... and writing from there replaces it (first call covers the old length)
                            std::vector<uint8_t> d = gen_data((int)o.arg(4) + 1, (int64_t)plain.size() + o.arg(5) % 40, (uint64_t)o.arg(5) + 1);
                            if (Hwrite(aid, (int32)d.size(), d.data()) != (int32)d.size())
                                ctx.fail("write-refused", strf("write-refused:after-compressing:%s", cname(m.coder)),
                                         strf("a full rewrite through the id HCcreate returned for an element that held data failed: %s", herr().c_str()));
                            m.data = d;
                        }
                        // only a writer that has just rewritten the whole stream stands at its end and may go on appending;
                        // the others are released (a write at the start of a stream has to cover it: crewrite does that)
                        if (first != 1)
                            end_writer(s, e);
                    }
                }
            }
            else if (k == "cwrite") {
                int  e = modn(o.arg(0), NEL);
                MEl &m = s.el[e];
                if (!m.exists || m.waid == FAIL)
                    done = false;
                else {
                    std::vector<uint8_t> d = gen_data((int)o.arg(2), std::max<int64_t>(1, o.arg(1)), (uint64_t)o.arg(3));
                    int32                n = Hwrite(m.waid, (int32)d.size(), d.data());
                    ctx.tr((uint64_t)n);
                    if (n == FAIL && m.resumed) {
                        // appending after a read-back or in a later access is something a coder may refuse (a deflate stream
                        // cannot be extended); a refusal must leave the stream as it was, which the later reads check
                        ctx.probe("append-refused");
                        end_writer(s, e);
                        ctx.st.ops_done++;
                        continue;
                    }
                    if (n != (int32)d.size())
                        ctx.fail("write-refused", strf("write-refused:%s", cname(m.coder)),
                                 strf("sequential Hwrite(%zu) at %zu on compressed element %d (%s) returned %d: %s", d.size(), m.data.size(), e, cname(m.coder), (int)n, herr().c_str()));
                    if (m.resumed)
                        ctx.probe("append-accepted");
                    if (!m.data.empty())
                        ctx.probe("multi-call-write");
                    m.data.insert(m.data.end(), d.begin(), d.end());
                }
            }
            else if (k == "cend") {
                int e = modn(o.arg(0), NEL);
                if (!s.el[e].exists || s.el[e].waid == FAIL)
                    done = false;
                else
                    end_writer(s, e);
            }
            else if (k == "crewrite") {
                int  e = modn(o.arg(0), NEL);
                MEl &m = s.el[e];
                if (!m.exists || m.data.empty())
                    done = false;
                else {
                    open_h(s, ndds);
                    end_writer(s, e);
                    int32 aid = Hstartaccess(s.fid, 8900, (uint16)(1 + e), DFACC_RDWR);
                    if (aid == FAIL)
                        ctx.fail("access-refused", strf("access-refused:rewrite:%s", cname(m.coder)), strf("Hstartaccess(RDWR) on compressed element %d failed", e));
                    // the whole stream again from its start: the first call covers at least the old stream (the coders'
                    // documented rule for rewriting), further calls append
                    int64_t              ol = (int64_t)m.data.size();
                    int64_t              nl = ol + o.arg(3) % 50;
                    std::vector<uint8_t> d  = gen_data((int)o.arg(1), nl, (uint64_t)o.arg(2));
                    int                  pieces = (int)std::max<int64_t>(1, o.arg(4));
                    size_t               at = 0;
                    for (int q = 0; q < pieces && at < d.size(); q++) {
                        size_t n = q == pieces - 1 ? d.size() - at : std::max<size_t>(1, (d.size() - at) / (size_t)(pieces - q));
                        if (q == 0)
                            n = std::max<size_t>(n, (size_t)ol);
                        if (Hwrite(aid, (int32)n, d.data() + at) != (int32)n)
                            ctx.fail("write-refused", strf("write-refused:rewrite:%s", cname(m.coder)),
                                     strf("rewriting compressed element %d (%s, %lld bytes) from its start: Hwrite(%zu) at %zu failed: %s", e, cname(m.coder),
                                          (long long)ol, n, at, herr().c_str()));
                        at += n;
                    }
                    if (Hendaccess(aid) == FAIL)
                        ctx.fail("endaccess-failed", strf("endaccess-failed:rewrite:%s", cname(m.coder)), strf("Hendaccess after a full rewrite failed: %s", herr().c_str()));
                    m.data = d;
                    ctx.probe("rewrite");
                }
            }
            else if (k == "cpartial") {
                // a write into the middle or over a part of the stream: the coders may refuse it (they document that they
                // do), but what they accept has to take effect as on a plain byte array and a refusal changes nothing
                int  e = modn(o.arg(0), NEL);
                MEl &m = s.el[e];
                if (!m.exists || m.data.size() < 2)
                    done = false;
                else {
                    open_h(s, ndds);
                    end_writer(s, e);
                    int64_t len = (int64_t)m.data.size();
                    int64_t pos = o.arg(1) % 3 == 0 ? 0 : o.arg(1) % len;
                    int64_t n   = 1 + o.arg(2) % (len - pos);
                    if (pos == 0 && n == len)
                        n = len - 1;
                    int32 aid = Hstartaccess(s.fid, 8900, (uint16)(1 + e), DFACC_RDWR);
                    if (aid == FAIL)
                        ctx.fail("access-refused", strf("access-refused:partial:%s", cname(m.coder)), strf("Hstartaccess(RDWR) on compressed element %d failed: %s", e, herr().c_str()));
                    bool ok = pos == 0 || Hseek(aid, (int32)pos, DF_START) != FAIL;
                    std::vector<uint8_t> d = gen_data(0, n, (uint64_t)o.arg(3));
                    if (ok && Hwrite(aid, (int32)n, d.data()) == (int32)n) {
                        std::copy(d.begin(), d.end(), m.data.begin() + pos);
                        ctx.probe("partial-accepted");
                    }
                    else
                        ctx.probe("partial-refused");
                    if (Hendaccess(aid) == FAIL)
                        ctx.fail("endaccess-failed", strf("endaccess-failed:partial:%s", cname(m.coder)), strf("Hendaccess after a partial write failed: %s", herr().c_str()));
                    read_pattern(s, e, (uint64_t)o.arg(3), 2, "after a partial write");
                }
            }
            else if (k == "cread" || k == "csize") {
                int  e = modn(o.arg(0), NEL);
                MEl &m = s.el[e];
                if (!m.exists || m.data.empty())
                    done = false;
                else {
                    open_h(s, ndds);
                    end_writer(s, e); // readers see the stream once the writer has finished it
                    bool walk = k == "csize" && o.arg(1) == 1;
                    for (int q = 0; walk && q < NEL; q++)
                        walk &= !s.el[q].exists || !s.el[q].data.empty();
                    if (walk) {
                        // one access id moved from element to element: on each it starts at the beginning, and a read of
                        // "the rest" gives the whole element
                        for (int q = 0; q < NEL; q++)
                            if (s.el[q].exists)
                                end_writer(s, q);
                        int32 aid = Hstartread(s.fid, 8900, DFREF_WILDCARD);
                        int   seen = 0;
                        while (aid != FAIL) {
                            uint16 tg = 0, rf = 0;
                            int32  len = -1, off = -1, posn = -1;
                            int16  acc = 0, spec = 0;
                            if (Hinquire(aid, NULL, &tg, &rf, &len, &off, &posn, &acc, &spec) == FAIL || rf < 1 || rf > NEL || !s.el[rf - 1].exists)
                                ctx.fail("walk-mismatch", "walk-mismatch:inquire", strf("Hinquire on the walking access id fails or names an element that does not exist (%u/%u)", tg, rf));
                            MEl &w = s.el[rf - 1];
                            ctx.st.checks++;
                            if (posn != 0 || len != (int32)w.data.size() || Htell(aid) != 0)
                                ctx.fail("walk-mismatch", strf("walk-mismatch:start:%s", cname(w.coder)),
                                         strf("the access id moved on to element %u (%s): position %d (Htell %d), length %d; the element has %zu bytes", rf, cname(w.coder), (int)posn, (int)Htell(aid), (int)len, w.data.size()));
                            std::vector<uint8_t> buf(w.data.size() + 16, 0xEE);
                            int32                got = Hread(aid, 0, buf.data());
                            if (got != (int32)w.data.size() || memcmp(buf.data(), w.data.data(), w.data.size()) != 0)
                                ctx.fail("walk-mismatch", strf("walk-mismatch:read:%s", cname(w.coder)),
                                         strf("reading the rest of element %u (%s) through the walking access id returns %d of %zu bytes or other bytes", rf, cname(w.coder), (int)got, w.data.size()));
                            seen++;
                            if (Hnextread(aid, 8900, DFREF_WILDCARD, DF_CURRENT) == FAIL)
                                break;
                        }
                        int want = 0;
                        for (int q = 0; q < NEL; q++)
                            want += s.el[q].exists;
                        if (aid == FAIL || seen != want)
                            ctx.fail("walk-mismatch", "walk-mismatch:count", strf("walking the tag with Hnextread visits %d elements, %d exist", seen, want));
                        if (Hendaccess(aid) == FAIL)
                            ctx.fail("end-failed", "end-failed:walk", "Hendaccess of the walking access id failed");
                        ctx.probe("walked-with-hnextread");
                    }
                    if (k == "cread")
                        read_pattern(s, e, (uint64_t)o.arg(1), (int)o.arg(2), "in session");
                    else {
                        int32 cs = -7, os = -7;
                        if (HCPgetdatasize(s.fid, 8900, (uint16)(1 + e), &cs, &os) == FAIL)
                            ctx.fail("size-failed", strf("size-failed:%s", cname(m.coder)), "HCPgetdatasize failed");
                        ctx.st.checks++;
                        if (os != (int32)m.data.size() || cs < 0 || (m.coder == 0 && cs != os))
                            ctx.fail("size-mismatch", strf("size-mismatch:%s", cname(m.coder)),
                                     strf("HCPgetdatasize(element %d, %s): compressed %d, original %d; model has %zu bytes", e, cname(m.coder), (int)cs, (int)os, m.data.size()));
                        if (Hlength(s.fid, 8900, (uint16)(1 + e)) != (int32)m.data.size())
                            ctx.fail("size-mismatch", strf("size-mismatch:Hlength:%s", cname(m.coder)), strf("Hlength of compressed element %d is %d, model %zu", e, (int)Hlength(s.fid, 8900, (uint16)(1 + e)), m.data.size()));
                    }
                }
            }
            else if (k == "nbit") {
                int    bi = modn(o.arg(0), NNB);
                MNbit &m  = s.nb[bi];
                {
                    open_sd(s);
                    m.gen++;
                    const IT &t   = ITS[modn(o.arg(1), NIT)];
                    int       bits = t.size * 8;
                    m.nt      = modn(o.arg(1), NIT);
                    m.start   = modn(o.arg(2), bits);
                    m.len     = 1 + modn(o.arg(3) - 1, m.start + 1); // the field ends at bit 0 at the latest
                    m.sext    = (int)o.arg(4);
                    m.fillone = (int)o.arg(5);
                    m.n       = (int32)std::max<int64_t>(1, o.arg(6));
                    int32 dims[1] = {m.n};
                    int32 id = SDcreate(s.sd, strf("nbit%d_%d", bi, m.gen).c_str(), t.code, 1, dims);
                    if (id == FAIL || SDsetnbitdataset(id, m.start, m.len, m.sext, m.fillone) == FAIL)
                        ctx.fail("create-refused", "create-refused:nbit", strf("SDcreate/SDsetnbitdataset(type %d, start %d, len %d) failed", (int)t.code, m.start, m.len));
                    std::vector<uint8_t> d((size_t)m.n * (size_t)t.size);
                    fill_data((uint64_t)o.arg(7), d.data(), d.size());
                    int32 st[1] = {0};
                    if (SDwritedata(id, st, NULL, dims, d.data()) == FAIL)
                        ctx.fail("write-refused", "write-refused:nbit", "SDwritedata on an n-bit dataset failed");
                    SDendaccess(id);
                    m.expect.resize(d.size());
                    for (int32 q = 0; q < m.n; q++) {
                        uint32_t v = 0;
                        memcpy(&v, d.data() + (size_t)q * (size_t)t.size, (size_t)t.size);
                        uint32_t pr = project(v, bits, m.start, m.len, m.sext != 0, m.fillone != 0, t.is_signed);
                        memcpy(m.expect.data() + (size_t)q * (size_t)t.size, &pr, (size_t)t.size);
                    }
                    m.exists = true;
                    ctx.probe("nbit");
                    if (m.sext)
                        ctx.probe("nbit-signext");
                }
            }
            else if (k == "nbitread") {
                int    bi = modn(o.arg(0), NNB);
                MNbit &m  = s.nb[bi];
                if (!m.exists)
                    done = false;
                else {
                    open_sd(s);
                    nbit_check(s, bi, "in session");
                }
            }
            else if (k == "bitwrite") {
                int    bi = modn(o.arg(0), NBIT);
                MBits &m  = s.bt[bi];
                if (m.exists)
                    done = false;
                else {
                    open_h(s, ndds);
                    Rng r((uint64_t)o.arg(2));
                    int cnt = (int)std::max<int64_t>(1, o.arg(1));
                    std::vector<std::pair<int, uint32>> fields;
                    size_t                              total = 0;
                    for (int q = 0; q < cnt; q++) {
                        int    wdt = 1 + (int)r.below(32);
                        uint32 v   = (uint32)r.next();
                        if (wdt < 32)
                            v &= (1u << wdt) - 1;
                        fields.push_back({wdt, v});
                        total += (size_t)wdt;
                    }
                    // either the byte length is declared up front or the element is made appendable (what the coders do)
                    bool  declared = (o.arg(2) & 1) != 0;
                    int32 bid      = Hstartbitwrite(s.fid, 8910, (uint16)(1 + bi), declared ? (int32)((total + 7) / 8) : 0);
                    if (bid == FAIL)
                        ctx.fail("create-refused", "create-refused:bits", "Hstartbitwrite failed");
                    if (!declared && Hbitappendable(bid) == FAIL)
                        ctx.fail("create-refused", "create-refused:bitappendable", "Hbitappendable failed");
                    ctx.probe(declared ? "bits-declared" : "bits-appendable");
                    for (auto &f : fields) {
                        int    wdt = f.first;
                        uint32 v   = f.second;
                        if (Hbitwrite(bid, wdt, v) != wdt)
                            ctx.fail("write-refused", "write-refused:bits", strf("Hbitwrite(%d bits) failed: %s", wdt, herr().c_str()));
                        for (int b = wdt - 1; b >= 0; b--)
                            m.bits.push_back(((v >> b) & 1) != 0);
                    }
                    if (Hendbitaccess(bid, 0) == FAIL)
                        ctx.fail("endaccess-failed", "endaccess-failed:bits", strf("Hendbitaccess failed: %s", herr().c_str()));
                    m.exists = true;
                    ctx.probe("bits");
                }
            }
            else if (k == "bitread") {
                int    bi = modn(o.arg(0), NBIT);
                MBits &m  = s.bt[bi];
                if (!m.exists)
                    done = false;
                else {
                    open_h(s, ndds);
                    bits_check(s, bi, (uint64_t)o.arg(1), (int)o.arg(2), "in session");
                }
            }
            else if (k == "cwread") {
                // the writer looks at what it has written so far (backward seek on the writing id), then goes on appending
                int  e = modn(o.arg(0), NEL);
                MEl &m = s.el[e];
                if (!m.exists || m.waid == FAIL || m.data.empty())
                    done = false;
                else {
                    Rng     r((uint64_t)o.arg(1));
                    int64_t len = (int64_t)m.data.size();
                    for (int q = 0; q < (int)std::max<int64_t>(1, o.arg(2)); q++) {
                        int64_t pos = (int64_t)r.below((uint64_t)len), n = 1 + (int64_t)r.below((uint64_t)(len - pos));
                        if (Hseek(m.waid, (int32)pos, DF_START) == FAIL)
                            ctx.fail("seek-refused", strf("seek-refused:writer:%s", cname(m.coder)),
                                     strf("Hseek to %lld on the writing id of compressed element %d (%s, %lld bytes) failed: %s", (long long)pos, e, cname(m.coder), (long long)len, herr().c_str()));
                        std::vector<uint8_t> buf((size_t)n + 8, 0x5A);
                        int32                got = Hread(m.waid, (int32)n, buf.data());
                        ctx.st.checks++;
                        if (got != (int32)n)
                            ctx.fail("count-mismatch", strf("count-mismatch:writer:%s", cname(m.coder)),
                                     strf("Hread(%lld) at %lld on the writing id of compressed element %d (%s, %lld bytes) returned %d: %s", (long long)n, (long long)pos, e, cname(m.coder), (long long)len, (int)got, herr().c_str()));
                        if (memcmp(buf.data(), m.data.data() + pos, (size_t)n) != 0) {
                            size_t at = 0;
                            while (buf[at] == m.data[(size_t)pos + at])
                                at++;
                            ctx.fail("data-mismatch", strf("data-mismatch:writer:%s", cname(m.coder)),
                                     strf("compressed element %d (%s, %lld bytes) read on its writing id: byte %lld reads %02x, written %02x", e, cname(m.coder), (long long)len, (long long)(pos + (int64_t)at), buf[at], m.data[(size_t)pos + at]));
                        }
                    }
                    // back to the end: the next write appends
                    if (Hseek(m.waid, (int32)len, DF_START) == FAIL)
                        ctx.fail("seek-refused", strf("seek-refused:writer-end:%s", cname(m.coder)), strf("Hseek to the end (%lld) on the writing id failed: %s", (long long)len, herr().c_str()));
                    m.resumed = true;
                    ctx.probe("writer-readback");
                }
            }
            else if (k == "cappend") {
                // a later access takes up sequential writing where the stream ends
                int  e = modn(o.arg(0), NEL);
                MEl &m = s.el[e];
                if (!m.exists || m.waid != FAIL || m.data.empty())
                    done = false;
                else {
                    open_h(s, ndds);
                    int32 aid = Hstartaccess(s.fid, 8900, (uint16)(1 + e), DFACC_RDWR);
                    if (aid == FAIL)
                        ctx.fail("access-refused", strf("access-refused:append:%s", cname(m.coder)), strf("Hstartaccess(RDWR) on compressed element %d failed: %s", e, herr().c_str()));
                    if (Hseek(aid, (int32)m.data.size(), DF_START) == FAIL)
                        ctx.fail("seek-refused", strf("seek-refused:append:%s", cname(m.coder)), strf("Hseek to the end (%zu) of compressed element %d (%s) failed: %s", m.data.size(), e, cname(m.coder), herr().c_str()));
                    m.waid    = aid;
                    m.resumed = true;
                    ctx.probe("append-later");
                }
            }
            else if (k == "bitmix") {
                int    bi = modn(o.arg(0), NBIT);
                MBits &m  = s.bt[bi];
                if (!m.exists || m.bits.size() < 8)
                    done = false;
                else {
                    open_h(s, ndds);
                    size_t total = m.bits.size();
                    int32  bid   = Hstartbitwrite(s.fid, 8910, (uint16)(1 + bi), (int32)((total + 7) / 8));
                    if (bid == FAIL)
                        ctx.fail("access-refused", "access-refused:bitmix", strf("Hstartbitwrite on an existing bit element failed: %s", herr().c_str()));
                    Rng    r((uint64_t)o.arg(1));
                    size_t pos = 0;
                    for (int q = 0; q < (int)o.arg(2) && pos < total; q++) {
                        int act = (int)r.below(3);
                        int wdt = 1 + (int)r.below(32);
                        if ((size_t)wdt > total - pos)
                            wdt = (int)(total - pos);
                        if (getenv("H4SIM_DEBUG"))
                            fprintf(stderr, "bitmix: act %d wdt %d pos %zu total %zu\n", act, wdt, pos, total);
                        if (act == 0) {
                            size_t tgt = (size_t)r.below(total);
                            if (getenv("H4SIM_DEBUG"))
                                fprintf(stderr, "bitmix: seek %zu\n", tgt);
                            if (Hbitseek(bid, (int32)(tgt / 8), (int)(tgt % 8)) == FAIL)
                                ctx.fail("seek-refused", "seek-refused:bitmix", strf("Hbitseek to bit %zu of %zu on a write-capable id failed: %s", tgt, total, herr().c_str()));
                            pos = tgt;
                        }
                        else if (act == 1) {
                            uint32 v = (uint32)r.next();
                            if (wdt < 32)
                                v &= (1u << wdt) - 1;
                            if (Hbitwrite(bid, wdt, v) != wdt)
                                ctx.fail("write-refused", "write-refused:bitmix", strf("Hbitwrite(%d bits) at bit %zu of %zu failed: %s", wdt, pos, total, herr().c_str()));
                            for (int b = wdt - 1; b >= 0; b--)
                                m.bits[pos++] = ((v >> b) & 1) != 0;
                        }
                        else {
                            uint32 v = 0, want = 0;
                            if (Hbitread(bid, wdt, &v) != wdt)
                                ctx.fail("count-mismatch", "count-mismatch:bitmix", strf("Hbitread(%d bits) at bit %zu of %zu on a write-capable id failed: %s", wdt, pos, total, herr().c_str()));
                            for (int b = 0; b < wdt; b++)
                                want = (want << 1) | (m.bits[pos + (size_t)b] ? 1u : 0u);
                            ctx.st.checks++;
                            if (v != want)
                                ctx.fail("bits-mismatch", "bits-mismatch:bitmix", strf("Hbitread(%d bits) at bit %zu on a write-capable id reads %x, model %x", wdt, pos, (unsigned)v, (unsigned)want));
                            pos += (size_t)wdt;
                            ctx.probe("bit-read-in-write-mode");
                        }
                    }
                    if (Hendbitaccess(bid, 0) == FAIL)
                        ctx.fail("endaccess-failed", "endaccess-failed:bitmix", strf("Hendbitaccess failed: %s", herr().c_str()));
                    ctx.probe("bitmix");
                }
            }
            else if (k == "hnbit") {
                int    bi = modn(o.arg(0), NNB);
                MNbit &m  = s.hnb[bi];
                if (m.exists)
                    done = false;
                else {
                    open_h(s, ndds);
                    const IT &t    = ITS[modn(o.arg(1), NIT)];
                    int       bits = t.size * 8;
                    m.nt      = modn(o.arg(1), NIT);
                    m.start   = modn(o.arg(2), bits);
                    m.len     = 1 + modn(o.arg(3) - 1, m.start + 1);
                    m.sext    = (int)o.arg(4) & 1;
                    m.fillone = (int)o.arg(5) & 1;
                    m.n       = (int32)std::max<int64_t>(1, o.arg(6));
                    comp_info  ci;
                    model_info mi;
                    memset(&ci, 0, sizeof ci);
                    memset(&mi, 0, sizeof mi);
                    ci.nbit.nt        = t.code;
                    ci.nbit.sign_ext  = m.sext;
                    ci.nbit.fill_one  = m.fillone;
                    ci.nbit.start_bit = m.start;
                    ci.nbit.bit_len   = m.len;
                    int32 aid = HCcreate(s.fid, 8920, (uint16)(1 + bi), COMP_MODEL_STDIO, &mi, COMP_CODE_NBIT, &ci);
                    if (aid == FAIL)
                        ctx.fail("create-refused", "create-refused:hnbit", strf("HCcreate(n-bit, type %d, start %d, len %d) failed: %s", (int)t.code, m.start, m.len, herr().c_str()));
                    // values in file byte order (big-endian), whole values per call
                    std::vector<uint8_t> d((size_t)m.n * (size_t)t.size);
                    fill_data((uint64_t)o.arg(7), d.data(), d.size());
                    int    pieces = (int)std::max<int64_t>(1, o.arg(8));
                    int32  at = 0;
                    for (int q = 0; q < pieces && at < m.n; q++) {
                        int32 nv = q == pieces - 1 ? m.n - at : std::max<int32>(1, (m.n - at) / (pieces - q));
                        if (Hwrite(aid, nv * t.size, d.data() + (size_t)at * (size_t)t.size) != nv * t.size)
                            ctx.fail("write-refused", "write-refused:hnbit", strf("Hwrite of %d whole values at value %d on an n-bit element failed: %s", (int)nv, (int)at, herr().c_str()));
                        at += nv;
                    }
                    if (Hendaccess(aid) == FAIL)
                        ctx.fail("endaccess-failed", "endaccess-failed:hnbit", strf("Hendaccess on an n-bit element failed: %s", herr().c_str()));
                    m.expect.resize(d.size());
                    for (int32 q = 0; q < m.n; q++) {
                        uint32_t v = 0;
                        for (int b = 0; b < t.size; b++)
                            v = (v << 8) | d[(size_t)q * (size_t)t.size + (size_t)b];
                        uint32_t pr = project(v, bits, m.start, m.len, m.sext != 0, m.fillone != 0, t.is_signed);
                        for (int b = t.size - 1; b >= 0; b--) {
                            m.expect[(size_t)q * (size_t)t.size + (size_t)b] = (uint8_t)(pr & 0xff);
                            pr >>= 8;
                        }
                    }
                    m.exists = true;
                    ctx.probe("hnbit");
                    if (pieces > 1 && m.n > 1)
                        ctx.probe("hnbit-multi-call-write");
                }
            }
            else if (k == "hnbitread") {
                int    bi = modn(o.arg(0), NNB);
                MNbit &m  = s.hnb[bi];
                if (!m.exists)
                    done = false;
                else {
                    open_h(s, ndds);
                    hnbit_check(s, bi, (uint64_t)o.arg(1), (int)o.arg(2), "in session");
                }
            }
            else if (k == "cdelete" || k == "bitdelete" || k == "hnbdelete") {
                int    slot = modn(o.arg(0), k == "cdelete" ? NEL : k == "bitdelete" ? NBIT : NNB);
                bool   there = k == "cdelete" ? s.el[slot].exists : k == "bitdelete" ? s.bt[slot].exists : s.hnb[slot].exists;
                uint16 tag   = k == "cdelete" ? 8900 : k == "bitdelete" ? 8910 : 8920;
                if (!there)
                    done = false;
                else {
                    open_h(s, ndds);
                    if (k == "cdelete")
                        end_writer(s, slot);
                    if (Hdeldd(s.fid, tag, (uint16)(1 + slot)) == FAIL)
                        ctx.fail("delete-refused", "delete-refused", strf("Hdeldd(%d,%d) failed: %s", tag, 1 + slot, herr().c_str()));
                    if (k == "cdelete")
                        s.el[slot] = MEl();
                    else if (k == "bitdelete")
                        s.bt[slot] = MBits();
                    else
                        s.hnb[slot] = MNbit();
                    ctx.probe("slot-reused");
                }
            }
            else if (k == "restart") {
                close_all(s);
                ctx.probe("restart");
                if (s.on_disk) {
                    s.fid = Hopen(path.c_str(), DFACC_READ, 0);
                    if (s.fid == FAIL)
                        ctx.fail("reopen-failed", "reopen-failed", "Hopen(READ) after clean close failed");
                    for (int e = 0; e < NEL; e++)
                        if (s.el[e].exists && !s.el[e].data.empty())
                            read_pattern(s, e, (uint64_t)(i * 7 + (size_t)e), 3, "after reopen");
                    for (int b = 0; b < NBIT; b++)
                        if (s.bt[b].exists)
                            bits_check(s, b, (uint64_t)(i * 11 + (size_t)b), 1, "after reopen");
                    for (int b = 0; b < NNB; b++)
                        if (s.hnb[b].exists)
                            hnbit_check(s, b, (uint64_t)(i * 13 + (size_t)b), 2, "after reopen");
                    Hclose(s.fid);
                    s.fid = FAIL;
                }
                if (s.sd_on_disk) {
                    s.sd = SDstart(sdpath.c_str(), DFACC_READ);
                    if (s.sd == FAIL)
                        ctx.fail("reopen-failed", "reopen-failed:sd", "SDstart(READ) after clean close failed");
                    for (int b = 0; b < NNB; b++)
                        if (s.nb[b].exists)
                            nbit_check(s, b, "after reopen");
                    SDend(s.sd);
                    s.sd = FAIL;
                }
            }
            else
                done = false;
            if (done) {
                ctx.st.ops_done++;
                uint64_t h = 1469598103934665603ULL;
                for (int e = 0; e < NEL; e++)
                    if (s.el[e].exists)
                        h = fnv64i(((uint64_t)s.el[e].coder << 40) | s.el[e].data.size(), h);
                ctx.state(h);
            }
            else
                ctx.st.ops_skipped++;
        }
    }

    void nbit_check(S &s, int bi, const char *when)
    {
        MNbit &m  = s.nb[bi];
        int32  ix = SDnametoindex(s.sd, strf("nbit%d_%d", bi, m.gen).c_str());
        int32  id = ix == FAIL ? FAIL : SDselect(s.sd, ix);
        if (id == FAIL)
            s.ctx.fail("lookup-failed", "lookup-failed:nbit", "selecting an n-bit dataset failed");
        const IT            &t = ITS[m.nt];
        std::vector<uint8_t> buf(m.expect.size() + 16, 0x5A);
        int32                st[1] = {0}, dims[1] = {m.n};
        if (SDreaddata(id, st, NULL, dims, buf.data()) == FAIL)
            s.ctx.fail("read-refused", "read-refused:nbit", strf("SDreaddata of an n-bit dataset failed (%s)", when));
        s.ctx.st.checks++;
        for (int32 q = 0; q < m.n; q++)
            if (memcmp(buf.data() + (size_t)q * (size_t)t.size, m.expect.data() + (size_t)q * (size_t)t.size, (size_t)t.size) != 0)
                s.ctx.fail("nbit-mismatch", strf("nbit-mismatch:type%d:sext%d:fill%d", (int)t.code, m.sext, m.fillone),
                           strf("n-bit dataset (type %d, start bit %d, length %d, sign-extend %d, fill-one %d): value %d reads %s, documented projection %s (%s)",
                                (int)t.code, m.start, m.len, m.sext, m.fillone, (int)q, hexs(buf.data() + (size_t)q * (size_t)t.size, (size_t)t.size).c_str(),
                                hexs(m.expect.data() + (size_t)q * (size_t)t.size, (size_t)t.size).c_str(), when));
        SDendaccess(id);
    }

    // whole-value transfers in a generated partition, with seeks to value boundaries
    void hnbit_check(S &s, int bi, uint64_t seed, int pieces, const char *when)
    {
        MNbit    &m = s.hnb[bi];
        const IT &t = ITS[m.nt];
        int32     aid = Hstartread(s.fid, 8920, (uint16)(1 + bi));
        if (aid == FAIL)
            s.ctx.fail("access-refused", "access-refused:hnbit", strf("Hstartread of an n-bit element failed (%s): %s", when, herr().c_str()));
        Rng   r(seed);
        int32 pos = 0;
        for (int q = 0; q < pieces * 2 && (q < pieces || pos < m.n); q++) {
            if (pos >= m.n || r.chance(0.4)) {
                pos = (int32)r.below((uint64_t)m.n);
                if (Hseek(aid, pos * t.size, DF_START) == FAIL)
                    s.ctx.fail("seek-refused", "seek-refused:hnbit", strf("Hseek to value %d of %d of an n-bit element failed (%s): %s", (int)pos, (int)m.n, when, herr().c_str()));
                s.ctx.probe("hnbit-seek");
            }
            int32 nv = pieces <= 1 && pos == 0 ? m.n : 1 + (int32)r.below((uint64_t)(m.n - pos));
            std::vector<uint8_t> buf((size_t)nv * (size_t)t.size + 16, 0x5A);
            int32 got = Hread(aid, nv * t.size, buf.data());
            s.ctx.st.checks++;
            if (got != nv * t.size)
                s.ctx.fail("count-mismatch", "count-mismatch:hnbit", strf("Hread of %d whole values at value %d of %d of an n-bit element returned %d (%s): %s", (int)nv, (int)pos, (int)m.n, (int)got, when, herr().c_str()));
            for (int32 v = 0; v < nv; v++)
                if (memcmp(buf.data() + (size_t)v * (size_t)t.size, m.expect.data() + (size_t)(pos + v) * (size_t)t.size, (size_t)t.size) != 0)
                    s.ctx.fail("nbit-mismatch", strf("nbit-mismatch:hlevel:%s", nv == m.n ? "single-call" : "partitioned"),
                               strf("n-bit element (type %d, start bit %d, length %d, sign-extend %d, fill-one %d, %d values): value %d reads %s, documented projection %s (read of %d values at value %d, %s)",
                                    (int)t.code, m.start, m.len, m.sext, m.fillone, (int)m.n, (int)(pos + v), hexs(buf.data() + (size_t)v * (size_t)t.size, (size_t)t.size).c_str(),
                                    hexs(m.expect.data() + (size_t)(pos + v) * (size_t)t.size, (size_t)t.size).c_str(), (int)nv, (int)pos, when));
            for (size_t j = (size_t)nv * (size_t)t.size; j < buf.size(); j++)
                if (buf[j] != 0x5A)
                    s.ctx.fail("buffer-overrun", "buffer-overrun:hnbit", "Hread on an n-bit element stored data beyond the bytes it reported");
            if (nv < m.n)
                s.ctx.probe("hnbit-partitioned-read");
            pos += nv;
        }
        if (Hendaccess(aid) == FAIL)
            s.ctx.fail("endaccess-failed", "endaccess-failed:hnbit-reader", "Hendaccess of an n-bit reader failed");
    }

    void bits_check(S &s, int bi, uint64_t seed, int mode, const char *when)
    {
        MBits &m   = s.bt[bi];
        int32  bid = Hstartbitread(s.fid, 8910, (uint16)(1 + bi));
        if (bid == FAIL)
            s.ctx.fail("access-refused", "access-refused:bits", strf("Hstartbitread failed (%s)", when));
        Rng    r(seed);
        size_t pos = 0, total = m.bits.size();
        int    guard = 0;
        s.ctx.st.checks++;
        while (pos < total && guard++ < 400) {
            if (mode > 0 && r.chance(0.3)) {
                size_t tgt = (size_t)r.below(total);
                if (Hbitseek(bid, (int32)(tgt / 8), (int)(tgt % 8)) == FAIL)
                    s.ctx.fail("seek-refused", "seek-refused:bits", strf("Hbitseek to bit %zu of %zu failed (%s)", tgt, total, when));
                pos = tgt;
                s.ctx.probe("bitseek");
            }
            int wdt = 1 + (int)r.below(32);
            if ((size_t)wdt > total - pos)
                wdt = (int)(total - pos);
            uint32 v = 0;
            if (Hbitread(bid, wdt, &v) != wdt)
                s.ctx.fail("count-mismatch", "count-mismatch:bits", strf("Hbitread(%d bits) at bit %zu of %zu did not deliver them (%s)", wdt, pos, total, when));
            uint32 want = 0;
            for (int b = 0; b < wdt; b++)
                want = (want << 1) | (m.bits[pos + (size_t)b] ? 1u : 0u);
            if (v != want)
                s.ctx.fail("bits-mismatch", "bits-mismatch", strf("Hbitread(%d bits) at bit %zu reads %x, written %x (%s)", wdt, pos, (unsigned)v, (unsigned)want, when));
            pos += (size_t)wdt;
        }
        if (Hendbitaccess(bid, 0) == FAIL)
            s.ctx.fail("endaccess-failed", "endaccess-failed:bitread", "Hendbitaccess of a reader failed");
    }
};

Registrar reg(new Coder);

} // namespace
} // namespace h4
