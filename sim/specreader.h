// specreader.h -- an independent reader of HDF4 files, written from /verif/FORMAT_NOTES.md only.
// It shares no code with the library (no HDF header is included here; tag numbers are the published ones).
#pragma once
#include <cstdint>
#include <cstring>
#include <functional>
#include <map>
#include <set>
#include <string>
#include <vector>
#include <algorithm>
#include <zlib.h>
#include "util.h"

namespace spec {
using h4::strf;

enum : uint16_t {
    T_NULL = 1, T_LINKED = 20, T_VERSION = 30, T_COMPRESSED = 40, T_CHUNK = 61, T_FID = 100, T_FD = 101, T_DIL = 104, T_DIA = 105, T_NT = 106, T_FREE = 108,
    T_ID = 300, T_LUT = 301, T_RI = 302, T_CI = 303, T_RIG = 306, T_SDD = 701, T_SD = 702, T_NDG = 720, T_VH = 1962, T_VS = 1963, T_VG = 1965
};
enum { SP_LINKED = 1, SP_EXT = 2, SP_COMP = 3, SP_CHUNKED = 5 };
enum { CODER_NONE = 0, CODER_RLE = 1, CODER_NBIT = 2, CODER_SKPHUFF = 3, CODER_DEFLATE = 4 };

struct DD {
    uint16_t tag = 0, ref = 0; // tag as stored (the special bit included)
    int32_t  off = 0, len = 0;
    int64_t  at = 0;           // file offset of the descriptor itself
    bool     special() const { return !(tag & 0x8000) && (tag & 0x4000); }
    uint16_t base() const { return special() ? (uint16_t)(tag & ~0x4000) : tag; }
};
struct Extent {
    int64_t off = 0, len = 0;
};
struct Field {
    int         type = 0, isize = 0, offset = 0, order = 0;
    std::string name;
};
struct Vdata {
    uint16_t    ref = 0;
    int         interlace = 0, nrec = 0, recsize = 0, version = 0;
    std::vector<Field> fields;
    std::string name, cls;
    int         nattrs = 0;
};
struct Vgroup {
    uint16_t    ref = 0;
    std::vector<std::pair<uint16_t, uint16_t>> members;
    std::string name, cls;
    int         version = 0, nattrs = 0;
};
struct Chunked {
    int32_t  head_len = 0, flag = 0, total_elems = 0, chunk_elems = 0, nt_size = 0, ndims = 0;
    uint16_t tbl_tag = 0, tbl_ref = 0;
    std::vector<int32_t> dim_len, chunk_len;
    std::vector<uint8_t> fill;
    bool     compressed = false;
    struct Rec {
        std::vector<int32_t> origin;
        uint16_t             tag, ref;
    };
    std::vector<Rec> recs;
};

struct Reader {
    std::vector<uint8_t> f;                                                         // the main file
    std::function<bool(const std::string &, std::vector<uint8_t> &)> external;      // bytes of an external file by name
    std::function<bool(const DD &, const DD &)>                      declared_alias; // the writer of the file aliased these two on purpose
    std::vector<DD>                            dds;                                 // live descriptors in chain order
    std::vector<std::pair<int64_t, int64_t>>   ddblocks;                            // [start,end) of each descriptor block
    std::vector<std::string>                   errors;                              // violations of the published format
    std::map<std::pair<uint16_t, uint16_t>, size_t> index;                          // (base tag, ref) -> dds index

    void err(const std::string &s)
    {
        if (errors.size() < 20)
            errors.push_back(s);
    }
    bool     in(int64_t o, int64_t n) const { return o >= 0 && n >= 0 && o + n <= (int64_t)f.size(); }
    uint16_t u16(int64_t o) const { return (uint16_t)((f[(size_t)o] << 8) | f[(size_t)o + 1]); }
    int32_t  i32(int64_t o) const { return (int32_t)(((uint32_t)f[(size_t)o] << 24) | ((uint32_t)f[(size_t)o + 1] << 16) | ((uint32_t)f[(size_t)o + 2] << 8) | f[(size_t)o + 3]); }
    static uint16_t bu16(const std::vector<uint8_t> &b, size_t o) { return (uint16_t)((b[o] << 8) | b[o + 1]); }
    static int32_t  bi32(const std::vector<uint8_t> &b, size_t o) { return (int32_t)(((uint32_t)b[o] << 24) | ((uint32_t)b[o + 1] << 16) | ((uint32_t)b[o + 2] << 8) | b[o + 3]); }

    // ---- level 0: magic, descriptor-block chain, descriptor table
    bool parse()
    {
        static const uint8_t magic[4] = {0x0e, 0x03, 0x13, 0x01};
        if (f.size() < 10 || memcmp(f.data(), magic, 4) != 0) {
            err("magic number missing");
            return false;
        }
        std::set<int64_t> seen;
        int64_t           blk = 4;
        while (true) {
            if (!in(blk, 6)) {
                err(strf("descriptor block at %lld lies outside the file (%zu bytes)", (long long)blk, f.size()));
                return false;
            }
            if (!seen.insert(blk).second) {
                err(strf("descriptor-block chain returns to offset %lld (cycle)", (long long)blk));
                return false;
            }
            int     ndds = (int16_t)u16(blk);
            int64_t next = i32(blk + 2);
            if (ndds <= 0) {
                err(strf("descriptor block at %lld announces %d descriptors", (long long)blk, ndds));
                return false;
            }
            if (!in(blk + 6, (int64_t)ndds * 12)) {
                err(strf("descriptor block at %lld (%d descriptors) runs past the end of the file (%zu bytes)", (long long)blk, ndds, f.size()));
                return false;
            }
            ddblocks.push_back({blk, blk + 6 + (int64_t)ndds * 12});
            for (int i = 0; i < ndds; i++) {
                int64_t d = blk + 6 + (int64_t)i * 12;
                DD      x;
                x.tag = u16(d);
                x.ref = u16(d + 2);
                x.off = i32(d + 4);
                x.len = i32(d + 8);
                x.at  = d;
                if (x.tag == T_NULL || x.tag == T_FREE)
                    continue;
                dds.push_back(x);
            }
            if (next == 0)
                break;
            if (next < 0) {
                err(strf("descriptor block at %lld has next-block offset %lld", (long long)blk, (long long)next));
                return false;
            }
            blk = next;
        }
        for (size_t i = 0; i < dds.size(); i++) {
            const DD &x = dds[i];
            auto      k = std::make_pair(x.base(), x.ref);
            if (index.count(k)) {
                const DD &y = dds[index[k]];
                err(strf("descriptor %d/%d occurs twice (tags %d at %lld and %d at %lld)", x.base(), x.ref, y.tag, (long long)y.at, x.tag, (long long)x.at));
            }
            else
                index[k] = i;
            if (x.off == -1 && x.len == -1)
                continue; // created, no data yet
            if (x.off < 0 || x.len < 0)
                err(strf("descriptor %d/%d has offset %d length %d", x.tag, x.ref, x.off, x.len));
            else if ((int64_t)x.off + x.len > (int64_t)f.size())
                err(strf("descriptor %d/%d (offset %d length %d) ends beyond the file (%zu bytes)", x.tag, x.ref, x.off, x.len, f.size()));
        }
        return errors.empty();
    }

    const DD *find(uint16_t base_tag, uint16_t ref) const
    {
        auto it = index.find({base_tag, ref});
        return it == index.end() ? nullptr : &dds[it->second];
    }
    bool has_data(const DD &x) const { return x.off >= 0 && x.len >= 0 && in(x.off, x.len); }
    std::vector<uint8_t> raw(const DD &x) const
    {
        if (!has_data(x))
            return {};
        return std::vector<uint8_t>(f.begin() + x.off, f.begin() + x.off + x.len);
    }

    // ---- level 0: distinct live elements do not overlap unless deliberately aliased; nor do they overlap descriptor blocks
    void check_overlap()
    {
        struct R {
            int64_t a, b;
            int     who; // index into dds, or -1-k for descriptor block k
        };
        std::vector<R> rs;
        for (size_t k = 0; k < ddblocks.size(); k++)
            rs.push_back({ddblocks[k].first, ddblocks[k].second, -1 - (int)k});
        for (size_t i = 0; i < dds.size(); i++)
            if (dds[i].off >= 0 && dds[i].len > 0)
                rs.push_back({dds[i].off, (int64_t)dds[i].off + dds[i].len, (int)i});
        std::sort(rs.begin(), rs.end(), [](const R &x, const R &y) { return x.a != y.a ? x.a < y.a : x.b < y.b; });
        for (size_t i = 0; i + 1 < rs.size(); i++) {
            // compare with the followers that start before this one ends
            for (size_t j = i + 1; j < rs.size() && rs[j].a < rs[i].b; j++) {
                if (rs[i].a == rs[j].a && rs[i].b == rs[j].b && rs[i].who >= 0 && rs[j].who >= 0)
                    continue; // identical extents: aliases (Hdupdd, first linked block)
                if (rs[i].a == rs[j].a && rs[i].who >= 0 && rs[j].who >= 0 && declared_alias && declared_alias(dds[(size_t)rs[i].who], dds[(size_t)rs[j].who]))
                    continue; // an alias the workload made on purpose, whose original has grown in place since
                auto nm = [&](int w) { return w < 0 ? strf("descriptor block %d", -1 - w) : strf("%d/%d", dds[(size_t)w].tag, dds[(size_t)w].ref); };
                err(strf("%s [%lld,%lld) overlaps %s [%lld,%lld)", nm(rs[i].who).c_str(), (long long)rs[i].a, (long long)rs[i].b, nm(rs[j].who).c_str(), (long long)rs[j].a,
                         (long long)rs[j].b));
                return;
            }
        }
    }

    // ---- special elements
    struct Linked {
        int32_t  total = 0, block_len = 0, nblocks = 0;
        uint16_t link_ref = 0;
        std::vector<uint16_t> blocks; // block refs over all tables, in order (0 = hole)
        int      ntables = 0;
    };
    bool parse_linked(const DD &x, Linked &L, std::string &why)
    {
        if (x.len < 16) {
            why = "linked-block record shorter than 16 bytes";
            return false;
        }
        L.total     = i32(x.off + 2);
        L.block_len = i32(x.off + 6);
        L.nblocks   = i32(x.off + 10);
        L.link_ref  = u16(x.off + 14);
        if (L.total < 0 || L.block_len <= 0 || L.nblocks <= 0) {
            why = strf("linked-block record: length %d block length %d blocks per table %d", L.total, L.block_len, L.nblocks);
            return false;
        }
        std::set<uint16_t> seen;
        uint16_t           t = L.link_ref;
        while (t != 0) {
            if (!seen.insert(t).second) {
                why = strf("block-table chain returns to table %d", t);
                return false;
            }
            const DD *tb = find(T_LINKED, t);
            if (!tb || !has_data(*tb) || tb->len < 2 + 2 * L.nblocks) {
                why = strf("block table 20/%d missing or shorter than %d bytes", t, 2 + 2 * L.nblocks);
                return false;
            }
            for (int i = 0; i < L.nblocks; i++)
                L.blocks.push_back(u16(tb->off + 2 + 2 * i));
            L.ntables++;
            t = u16(tb->off);
        }
        return true;
    }
    // capacity of block k: the first block keeps the length its descriptor has, the others hold block_len
    bool linked_layout(const Linked &L, std::vector<Extent> &ext, std::vector<int64_t> &logical_at, std::string &why)
    {
        int64_t at = 0;
        for (size_t k = 0; k < L.blocks.size() && at < L.total; k++) {
            int64_t cap = L.block_len;
            if (L.blocks[k] != 0) {
                const DD *b = find(T_LINKED, L.blocks[k]);
                if (!b || !has_data(*b)) {
                    why = strf("data block 20/%d missing", L.blocks[k]);
                    return false;
                }
                if (k == 0)
                    cap = b->len;
                int64_t n = std::min<int64_t>(std::min<int64_t>(cap, b->len), L.total - at);
                if (n >= 0) { // an empty first block (an element that had no data when it was converted) is a block too
                    ext.push_back({b->off, n});
                    logical_at.push_back(at);
                }
            }
            at += cap;
        }
        return true;
    }

    struct Comp {
        int32_t  length = 0;
        uint16_t comp_ref = 0, model = 0, coder = 0;
        int32_t  nb_nt = 0, nb_start = 0, nb_len = 0, skip = 0;
        uint16_t nb_sext = 0, nb_fill = 0, level = 0;
    };
    bool parse_comp_header(const std::vector<uint8_t> &b, size_t o, Comp &c, std::string &why)
    {
        // o points behind the special code
        if (b.size() < o + 12) {
            why = "compression record too short";
            return false;
        }
        c.length   = bi32(b, o + 2);
        c.comp_ref = bu16(b, o + 6);
        c.model    = bu16(b, o + 8);
        c.coder    = bu16(b, o + 10);
        size_t p   = o + 12;
        if (c.coder == CODER_NBIT) {
            if (b.size() < p + 16) {
                why = "n-bit parameters missing";
                return false;
            }
            c.nb_nt    = bi32(b, p);
            c.nb_sext  = bu16(b, p + 4);
            c.nb_fill  = bu16(b, p + 6);
            c.nb_start = bi32(b, p + 8);
            c.nb_len   = bi32(b, p + 12);
        }
        else if (c.coder == CODER_SKPHUFF) {
            if (b.size() < p + 8) {
                why = "skipping-Huffman parameters missing";
                return false;
            }
            c.skip = bi32(b, p);
        }
        else if (c.coder == CODER_DEFLATE) {
            if (b.size() < p + 2) {
                why = "deflate parameter missing";
                return false;
            }
            c.level = bu16(b, p);
        }
        else if (c.coder != CODER_NONE && c.coder != CODER_RLE) {
            why = strf("coder %d", c.coder);
            return false;
        }
        if (c.length < 0) {
            why = strf("compressed element with uncompressed length %d", c.length);
            return false;
        }
        return true;
    }
    static bool unrle(const std::vector<uint8_t> &in, size_t want, std::vector<uint8_t> &out)
    {
        size_t i = 0;
        while (out.size() < want) {
            if (i >= in.size())
                return false;
            uint8_t c = in[i++];
            if (c & 0x80) {
                if (i >= in.size())
                    return false;
                out.insert(out.end(), (size_t)(c & 0x7f) + 3, in[i++]);
            }
            else {
                size_t n = (size_t)(c & 0x7f) + 1;
                if (i + n > in.size())
                    return false;
                out.insert(out.end(), in.begin() + (long)i, in.begin() + (long)(i + n));
                i += n;
            }
        }
        out.resize(want);
        return true;
    }
    static bool inflate_all(const std::vector<uint8_t> &in, size_t want, std::vector<uint8_t> &out)
    {
        out.assign(want, 0);
        z_stream z;
        memset(&z, 0, sizeof z);
        if (inflateInit(&z) != Z_OK)
            return false;
        z.next_in   = const_cast<Bytef *>(in.data());
        z.avail_in  = (uInt)in.size();
        z.next_out  = out.data();
        z.avail_out = (uInt)want;
        int rc      = want ? inflate(&z, Z_FINISH) : Z_STREAM_END;
        bool ok     = (rc == Z_STREAM_END || rc == Z_OK || rc == Z_BUF_ERROR) && z.avail_out == 0;
        inflateEnd(&z);
        return ok;
    }

    bool parse_chunked(const DD &x, Chunked &c, std::string &why)
    {
        std::vector<uint8_t> b = raw(x);
        if (b.size() < 2 + 4 + 1 + 4 + 4 + 4 + 4 + 8 + 4) {
            why = "chunk record too short";
            return false;
        }
        size_t p      = 2;
        c.head_len    = bi32(b, p);
        p += 4;
        p += 1; // version
        c.flag        = bi32(b, p);
        p += 4;
        c.total_elems = bi32(b, p);
        p += 4;
        c.chunk_elems = bi32(b, p);
        p += 4;
        c.nt_size     = bi32(b, p);
        p += 4;
        c.tbl_tag     = bu16(b, p);
        c.tbl_ref     = bu16(b, p + 2);
        p += 8; // table tag/ref, special-table tag/ref
        c.ndims = bi32(b, p);
        p += 4;
        if (c.ndims <= 0 || c.ndims > 64 || b.size() < p + (size_t)c.ndims * 12 + 4) {
            why = strf("chunk record with %d dimensions", c.ndims);
            return false;
        }
        int64_t ce = 1, te = 1;
        for (int d = 0; d < c.ndims; d++) {
            c.dim_len.push_back(bi32(b, p + 4));
            c.chunk_len.push_back(bi32(b, p + 8));
            if (c.dim_len.back() <= 0 || c.chunk_len.back() <= 0) {
                why = strf("chunk record dimension %d: length %d chunk length %d", d, c.dim_len.back(), c.chunk_len.back());
                return false;
            }
            ce *= c.chunk_len.back();
            te *= c.dim_len.back();
            p += 12;
        }
        int32_t fl = bi32(b, p);
        p += 4;
        if (fl < 0 || b.size() < p + (size_t)fl) {
            why = "chunk record fill value truncated";
            return false;
        }
        c.fill.assign(b.begin() + (long)p, b.begin() + (long)(p + (size_t)fl));
        p += (size_t)fl;
        c.compressed = (c.flag & 0xff) == 3;
        if (ce != c.chunk_elems || c.nt_size <= 0)
            why = strf("chunk record: chunk size %d but the chunk lengths multiply to %lld (element size %d)", c.chunk_elems, (long long)ce, c.nt_size);
        if (!why.empty())
            return false;
        (void)te;
        // the chunk table: a Vdata of records (ndims x int32 origin, uint16 tag, uint16 ref)
        const DD *vh = find(T_VH, c.tbl_ref), *vs = find(T_VS, c.tbl_ref);
        if (!vh || !has_data(*vh)) {
            why = strf("chunk table header 1962/%d missing", c.tbl_ref);
            return false;
        }
        Vdata       v;
        std::string w2;
        if (!parse_vh(*vh, v, w2)) {
            why = "chunk table: " + w2;
            return false;
        }
        if (v.recsize != c.ndims * 4 + 4) {
            why = strf("chunk table record size %d for %d dimensions", v.recsize, c.ndims);
            return false;
        }
        if (v.nrec > 0) {
            if (!vs) {
                why = strf("chunk table data 1963/%d missing", c.tbl_ref);
                return false;
            }
            std::vector<uint8_t> tb;
            if (!content(*vs, tb, w2)) {
                why = "chunk table data: " + w2;
                return false;
            }
            if ((int64_t)tb.size() < (int64_t)v.nrec * v.recsize) {
                why = strf("chunk table holds %zu bytes for %d records of %d", tb.size(), v.nrec, v.recsize);
                return false;
            }
            for (int r = 0; r < v.nrec; r++) {
                Chunked::Rec rec;
                size_t       o = (size_t)r * (size_t)v.recsize;
                for (int d = 0; d < c.ndims; d++)
                    rec.origin.push_back(bi32(tb, o + (size_t)d * 4));
                rec.tag = bu16(tb, o + (size_t)c.ndims * 4);
                rec.ref = bu16(tb, o + (size_t)c.ndims * 4 + 2);
                c.recs.push_back(rec);
            }
        }
        return true;
    }

    // ---- logical content of an element (what a reader of the format recovers)
    bool content(const DD &x, std::vector<uint8_t> &out, std::string &why, int depth = 0)
    {
        out.clear();
        if (depth > 4) {
            why = "special elements nested too deep";
            return false;
        }
        if (x.off == -1 && x.len == -1)
            return true;
        if (!has_data(x)) {
            why = "descriptor outside the file";
            return false;
        }
        if (!x.special()) {
            out = raw(x);
            return true;
        }
        if (x.len < 2) {
            why = "special element without a code";
            return false;
        }
        int code = u16(x.off);
        if (code == SP_LINKED) {
            Linked L;
            if (!parse_linked(x, L, why))
                return false;
            std::vector<Extent>  ext;
            std::vector<int64_t> at;
            if (!linked_layout(L, ext, at, why))
                return false;
            out.assign((size_t)L.total, 0);
            for (size_t k = 0; k < ext.size(); k++)
                memcpy(out.data() + at[k], f.data() + ext[k].off, (size_t)ext[k].len);
            return true;
        }
        if (code == SP_EXT) {
            if (x.len < 14) {
                why = "external record too short";
                return false;
            }
            int32_t length = i32(x.off + 2), offset = i32(x.off + 6), nl = i32(x.off + 10);
            if (length < 0 || offset < 0 || nl < 0 || x.len < 14 + nl) {
                why = strf("external record: length %d offset %d name length %d", length, offset, nl);
                return false;
            }
            std::string          name((const char *)f.data() + x.off + 14, (size_t)nl);
            std::vector<uint8_t> e;
            if (!external || !external(name, e)) {
                why = "external file " + name + " not found";
                return false;
            }
            out.assign((size_t)length, 0);
            if ((int64_t)e.size() > offset)
                memcpy(out.data(), e.data() + offset, (size_t)std::min<int64_t>(length, (int64_t)e.size() - offset));
            return true;
        }
        if (code == SP_COMP) {
            Comp c;
            if (!parse_comp_header(raw(x), 2, c, why))
                return false;
            if (c.length == 0)
                return true;
            const DD *cd = find(T_COMPRESSED, c.comp_ref);
            if (!cd) {
                why = strf("compressed data 40/%d missing", c.comp_ref);
                return false;
            }
            std::vector<uint8_t> z;
            if (!content(*cd, z, why, depth + 1))
                return false;
            if (c.coder == CODER_NONE) {
                if ((int64_t)z.size() < c.length) {
                    why = "stored (uncompressed) data shorter than its announced length";
                    return false;
                }
                out.assign(z.begin(), z.begin() + c.length);
                return true;
            }
            if (c.coder == CODER_RLE) {
                if (!unrle(z, (size_t)c.length, out)) {
                    why = "run-length stream ends before the announced length";
                    return false;
                }
                return true;
            }
            if (c.coder == CODER_DEFLATE) {
                if (!inflate_all(z, (size_t)c.length, out)) {
                    why = "deflate stream does not inflate to the announced length";
                    return false;
                }
                return true;
            }
            why = "undecoded:coder"; // skipping Huffman, n-bit: structural checks only
            return false;
        }
        if (code == SP_CHUNKED) {
            Chunked c;
            if (!parse_chunked(x, c, why))
                return false;
            int64_t total = 1;
            for (int d = 0; d < c.ndims; d++)
                total *= c.dim_len[(size_t)d];
            size_t es = (size_t)c.nt_size;
            out.resize((size_t)total * es);
            for (int64_t i = 0; i < total; i++)
                for (size_t b = 0; b < es; b++)
                    out[(size_t)i * es + b] = c.fill.empty() ? 0 : c.fill[b % c.fill.size()];
            for (auto &rec : c.recs) {
                const DD *cd = find(rec.tag, rec.ref);
                if (!cd) {
                    why = strf("chunk %d/%d named by the chunk table is missing", rec.tag, rec.ref);
                    return false;
                }
                std::vector<uint8_t> cb;
                if (!content(*cd, cb, why, depth + 1))
                    return false;
                if ((int64_t)cb.size() < (int64_t)c.chunk_elems * c.nt_size) {
                    why = strf("chunk %d/%d holds %zu bytes, a chunk has %d", rec.tag, rec.ref, cb.size(), c.chunk_elems * c.nt_size);
                    return false;
                }
                // scatter: chunk cell k (row-major over chunk_len) -> array cell
                std::vector<int32_t> k((size_t)c.ndims, 0);
                for (int64_t n = 0; n < c.chunk_elems; n++) {
                    int64_t rem = n, lin = 0;
                    bool    inside = true;
                    for (int d = c.ndims - 1; d >= 0; d--) {
                        k[(size_t)d] = (int32_t)(rem % c.chunk_len[(size_t)d]);
                        rem /= c.chunk_len[(size_t)d];
                    }
                    for (int d = 0; d < c.ndims; d++) {
                        int64_t ix = (int64_t)rec.origin[(size_t)d] * c.chunk_len[(size_t)d] + k[(size_t)d];
                        if (ix >= c.dim_len[(size_t)d])
                            inside = false;
                        lin = lin * c.dim_len[(size_t)d] + ix;
                    }
                    if (inside)
                        memcpy(out.data() + (size_t)lin * es, cb.data() + (size_t)n * es, es);
                }
            }
            return true;
        }
        why = strf("undecoded:special code %d", code);
        return false;
    }

    // ---- where the data bytes of an element are (what the *getdatainfo functions report)
    bool extents(const DD &x, std::vector<Extent> &ext, std::string &why, int depth = 0)
    {
        ext.clear();
        if (x.off == -1 && x.len == -1)
            return true;
        if (!has_data(x)) {
            why = "descriptor outside the file";
            return false;
        }
        if (!x.special()) {
            ext.push_back({x.off, x.len});
            return true;
        }
        int code = u16(x.off);
        if (code == SP_LINKED) {
            Linked L;
            if (!parse_linked(x, L, why))
                return false;
            std::vector<int64_t> at;
            return linked_layout(L, ext, at, why);
        }
        if (code == SP_COMP && depth == 0) {
            Comp c;
            if (!parse_comp_header(raw(x), 2, c, why))
                return false;
            if (c.length == 0)
                return true;
            const DD *cd = find(T_COMPRESSED, c.comp_ref);
            if (!cd) {
                why = strf("compressed data 40/%d missing", c.comp_ref);
                return false;
            }
            return extents(*cd, ext, why, depth + 1);
        }
        why = strf("undecoded:extents of special code %d", code);
        return false;
    }

    // ---- Vdata header and Vgroup records
    bool parse_vh(const DD &x, Vdata &v, std::string &why)
    {
        std::vector<uint8_t> b;
        std::string          w2;
        if (!content(x, b, w2)) {
            why = "Vdata header: " + w2;
            return false;
        }
        size_t p   = 0;
        auto   need = [&](size_t n) { return p + n <= b.size(); };
        if (!need(10)) {
            why = "Vdata header shorter than 10 bytes";
            return false;
        }
        v.ref       = x.ref;
        v.interlace = (int16_t)bu16(b, 0);
        v.nrec      = bi32(b, 2);
        v.recsize   = bu16(b, 6);
        int nf      = (int16_t)bu16(b, 8);
        p           = 10;
        if (nf < 0 || nf > 256 || !need((size_t)nf * 8)) {
            why = strf("Vdata header with %d fields", nf);
            return false;
        }
        v.fields.resize((size_t)nf);
        for (int i = 0; i < nf; i++)
            v.fields[(size_t)i].type = (int16_t)bu16(b, p + (size_t)i * 2);
        p += (size_t)nf * 2;
        for (int i = 0; i < nf; i++)
            v.fields[(size_t)i].isize = bu16(b, p + (size_t)i * 2);
        p += (size_t)nf * 2;
        for (int i = 0; i < nf; i++)
            v.fields[(size_t)i].offset = bu16(b, p + (size_t)i * 2);
        p += (size_t)nf * 2;
        for (int i = 0; i < nf; i++)
            v.fields[(size_t)i].order = bu16(b, p + (size_t)i * 2);
        p += (size_t)nf * 2;
        auto str = [&](std::string &s) {
            if (!need(2))
                return false;
            size_t n = bu16(b, p);
            p += 2;
            if (!need(n))
                return false;
            s.assign((const char *)b.data() + p, n);
            p += n;
            return true;
        };
        for (int i = 0; i < nf; i++)
            if (!str(v.fields[(size_t)i].name)) {
                why = "Vdata header: field name truncated";
                return false;
            }
        if (!str(v.name) || !str(v.cls)) {
            why = "Vdata header: name or class truncated";
            return false;
        }
        if (!need(8)) {
            why = "Vdata header: trailer truncated";
            return false;
        }
        p += 4; // extag, exref
        v.version = (int16_t)bu16(b, p);
        p += 4; // version, more
        if (v.version >= 4 && need(4)) {
            uint32_t flags = (uint32_t)bi32(b, p);
            p += 4;
            if ((flags & 1) && need(4)) {
                v.nattrs = bi32(b, p);
                p += 4 + (size_t)std::max(0, v.nattrs) * 8;
            }
        }
        int sum = 0;
        for (int i = 0; i < nf; i++) {
            if (v.fields[(size_t)i].offset != sum)
                why = strf("Vdata %d: field %d at offset %d, the fields before it take %d bytes", x.ref, i, v.fields[(size_t)i].offset, sum);
            sum += v.fields[(size_t)i].isize;
        }
        if (sum != v.recsize)
            why = strf("Vdata %d: fields take %d bytes, record size %d", x.ref, sum, v.recsize);
        if (v.nrec < 0)
            why = strf("Vdata %d: %d records", x.ref, v.nrec);
        return why.empty();
    }
    bool parse_vg(const DD &x, Vgroup &g, std::string &why)
    {
        std::vector<uint8_t> b;
        std::string          w2;
        if (!content(x, b, w2)) {
            why = "Vgroup: " + w2;
            return false;
        }
        if (b.size() < 2) {
            why = "Vgroup record shorter than 2 bytes";
            return false;
        }
        g.ref    = x.ref;
        size_t n = bu16(b, 0), p = 2;
        if (b.size() < 2 + n * 4 + 4) {
            why = strf("Vgroup %d announces %zu members in %zu bytes", x.ref, n, b.size());
            return false;
        }
        for (size_t i = 0; i < n; i++)
            g.members.push_back({bu16(b, p + i * 2), bu16(b, p + n * 2 + i * 2)});
        p += n * 4;
        auto str = [&](std::string &s) {
            if (p + 2 > b.size())
                return false;
            size_t l = bu16(b, p);
            p += 2;
            if (p + l > b.size())
                return false;
            s.assign((const char *)b.data() + p, l);
            p += l;
            return true;
        };
        if (!str(g.name) || !str(g.cls)) {
            why = strf("Vgroup %d: name or class truncated", x.ref);
            return false;
        }
        // extag, exref, [flags, attrs], version, more: the version sits 5 bytes before the end
        if (b.size() >= p + 4 + 4 + 1)
            g.version = bu16(b, b.size() - 5);
        return true;
    }

    // ---- every structural rule in one go; returns the list of violations
    const std::vector<std::string> &validate()
    {
        if (!parse())
            return errors;
        check_overlap();
        for (auto &x : dds) {
            std::string why;
            if (x.special() && has_data(x)) {
                // base and special variants are one name space (checked through the index); the record must decode
                std::vector<Extent> e;
                int                 code = x.len >= 2 ? u16(x.off) : -1;
                if (code == SP_LINKED) {
                    Linked L;
                    if (!parse_linked(x, L, why))
                        err(strf("element %d/%d: %s", x.base(), x.ref, why.c_str()));
                    else {
                        std::vector<int64_t> at;
                        if (!linked_layout(L, e, at, why))
                            err(strf("element %d/%d: %s", x.base(), x.ref, why.c_str()));
                        int64_t cap = 0;
                        for (size_t k = 0; k < L.blocks.size(); k++) {
                            const DD *b = L.blocks[k] ? find(T_LINKED, L.blocks[k]) : nullptr;
                            cap += (k == 0 && b) ? b->len : L.block_len;
                        }
                        if (cap < L.total)
                            err(strf("element %d/%d: linked-block record announces %d bytes, its %d table(s) reach %lld", x.base(), x.ref, L.total, L.ntables, (long long)cap));
                    }
                }
                else if (code == SP_COMP) {
                    Comp c;
                    if (!parse_comp_header(raw(x), 2, c, why))
                        err(strf("element %d/%d: %s", x.base(), x.ref, why.c_str()));
                    else if (c.length > 0 && !find(T_COMPRESSED, c.comp_ref))
                        err(strf("element %d/%d: compressed data 40/%d missing", x.base(), x.ref, c.comp_ref));
                }
                else if (code == SP_CHUNKED) {
                    Chunked c;
                    if (!parse_chunked(x, c, why))
                        err(strf("element %d/%d: %s", x.base(), x.ref, why.c_str()));
                    else {
                        std::set<std::vector<int32_t>> seen;
                        for (auto &r : c.recs) {
                            if (!seen.insert(r.origin).second)
                                err(strf("element %d/%d: chunk table lists one chunk twice", x.base(), x.ref));
                            for (int d = 0; d < c.ndims; d++)
                                if (r.origin[(size_t)d] < 0 || (int64_t)r.origin[(size_t)d] * c.chunk_len[(size_t)d] >= c.dim_len[(size_t)d])
                                    err(strf("element %d/%d: chunk origin %d outside dimension %d", x.base(), x.ref, r.origin[(size_t)d], d));
                            if (!find(r.tag, r.ref))
                                err(strf("element %d/%d: chunk %d/%d named by the chunk table is missing", x.base(), x.ref, r.tag, r.ref));
                        }
                    }
                }
                else if (code == SP_EXT) {
                    if (x.len < 14 || i32(x.off + 10) < 0 || x.len < 14 + i32(x.off + 10) || i32(x.off + 2) < 0 || i32(x.off + 6) < 0)
                        err(strf("element %d/%d: external record malformed", x.base(), x.ref));
                }
                else
                    err(strf("element %d/%d: unknown special code %d", x.base(), x.ref, code));
            }
            if (x.base() == T_VH && has_data(x)) {
                Vdata v;
                if (!parse_vh(x, v, why))
                    err(why);
                else if (v.nrec > 0) {
                    const DD *vs = find(T_VS, x.ref);
                    std::vector<uint8_t> d;
                    std::string          w2;
                    if (!vs)
                        err(strf("Vdata %d: %d records announced, no data element 1963/%d", x.ref, v.nrec, x.ref));
                    else if (content(*vs, d, w2) && (int64_t)d.size() < (int64_t)v.nrec * v.recsize)
                        err(strf("Vdata %d: %d records of %d bytes announced, data element holds %zu bytes", x.ref, v.nrec, v.recsize, d.size()));
                }
            }
            if (x.base() == T_VG && has_data(x)) {
                Vgroup g;
                if (!parse_vg(x, g, why))
                    err(why);
                else
                    for (auto &m : g.members)
                        if ((m.first == T_VG || m.first == T_VH) && !find(m.first, m.second))
                            err(strf("Vgroup %d (%s) lists %d/%d, which is not in the file", x.ref, g.name.c_str(), m.first, m.second));
            }
        }
        return errors;
    }
};

} // namespace spec
