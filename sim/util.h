// util.h -- PRNG, hashing, small helpers.  No HDF code, no clocks.
#pragma once
#include <cstdint>
#include <cstdarg>
#include <cstdio>
#include <cstring>
#include <string>
#include <vector>
#include <map>
#include <sstream>

namespace h4 {

static inline uint64_t splitmix64(uint64_t &x)
{
    uint64_t z = (x += 0x9e3779b97f4a7c15ULL);
    z = (z ^ (z >> 30)) * 0xbf58476d1ce4e5b9ULL;
    z = (z ^ (z >> 27)) * 0x94d049bb133111ebULL;
    return z ^ (z >> 31);
}

static inline uint64_t mix64(uint64_t a, uint64_t b)
{
    uint64_t x = a ^ (b * 0x9e3779b97f4a7c15ULL) ^ 0x2545F4914F6CDD1DULL;
    return splitmix64(x);
}

static inline uint64_t fnv64(const void *p, size_t n, uint64_t h = 1469598103934665603ULL)
{
    const unsigned char *c = (const unsigned char *)p;
    for (size_t i = 0; i < n; i++) {
        h ^= c[i];
        h *= 1099511628211ULL;
    }
    return h;
}
static inline uint64_t fnv64s(const std::string &s, uint64_t h = 1469598103934665603ULL)
{
    return fnv64(s.data(), s.size(), h);
}
static inline uint64_t fnv64i(uint64_t v, uint64_t h)
{
    return fnv64(&v, sizeof v, h);
}

// xoshiro256** seeded through splitmix64.  One integer decides everything.
struct Rng {
    uint64_t s[4];
    explicit Rng(uint64_t seed = 0) { reseed(seed); }
    void reseed(uint64_t seed)
    {
        uint64_t x = seed;
        for (int i = 0; i < 4; i++)
            s[i] = splitmix64(x);
    }
    // independent sub-stream: adding a draw in one place never shifts another
    Rng sub(uint64_t purpose) const { return Rng(mix64(s[0] ^ s[2], purpose)); }
    static inline uint64_t rotl(uint64_t x, int k) { return (x << k) | (x >> (64 - k)); }
    uint64_t next()
    {
        uint64_t r = rotl(s[1] * 5, 7) * 9, t = s[1] << 17;
        s[2] ^= s[0];
        s[3] ^= s[1];
        s[1] ^= s[2];
        s[0] ^= s[3];
        s[2] ^= t;
        s[3] = rotl(s[3], 45);
        return r;
    }
    // uniform in [0,n)
    uint64_t below(uint64_t n) { return n ? next() % n : 0; }
    // uniform in [lo,hi]
    int64_t range(int64_t lo, int64_t hi) { return hi <= lo ? lo : lo + (int64_t)below((uint64_t)(hi - lo + 1)); }
    bool chance(double p) { return (next() >> 11) * (1.0 / 9007199254740992.0) < p; }
    // pick an index by weights
    int weighted(const std::vector<int> &w)
    {
        long tot = 0;
        for (int x : w)
            tot += x;
        if (tot <= 0)
            return 0;
        long r = (long)below((uint64_t)tot);
        for (size_t i = 0; i < w.size(); i++) {
            if (r < w[i])
                return (int)i;
            r -= w[i];
        }
        return (int)w.size() - 1;
    }
    // small sizes most of the time, occasionally large: boundaries matter
    int64_t sizeish(int64_t maxv)
    {
        if (maxv <= 0)
            return 0;
        switch (below(6)) {
            case 0:
                return range(0, maxv < 4 ? maxv : 4);
            case 1:
                return range(0, maxv < 40 ? maxv : 40);
            case 2:
                return range(0, maxv < 300 ? maxv : 300);
            default:
                return range(0, maxv);
        }
    }
};

// deterministic data block: byte i of block `dseed`
static inline void fill_data(uint64_t dseed, uint8_t *buf, size_t n, uint64_t at = 0)
{
    // position dependent so that partial overwrites are attributable
    for (size_t i = 0; i < n; i++) {
        uint64_t k = (at + i) >> 3;
        uint64_t w = mix64(dseed, k);
        buf[i] = (uint8_t)(w >> (8 * ((at + i) & 7)));
    }
}

static inline std::string strf(const char *fmt, ...) __attribute__((format(printf, 1, 2)));
static inline std::string strf(const char *fmt, ...)
{
    char    buf[2048];
    va_list ap;
    va_start(ap, fmt);
    vsnprintf(buf, sizeof buf, fmt, ap);
    va_end(ap);
    return std::string(buf);
}

static inline std::string json_escape(const std::string &s)
{
    std::string o;
    for (unsigned char c : s) {
        if (c == '"' || c == '\\') {
            o += '\\';
            o += (char)c;
        }
        else if (c == '\n')
            o += "\\n";
        else if (c < 0x20 || c >= 0x7f)
            o += strf("\\u%04x", c);
        else
            o += (char)c;
    }
    return o;
}

} // namespace h4
