// prof_raster.cc -- C09: raster images and palettes round-trip for every region, interlace and type.
#include "hx.h"

namespace h4 {
namespace {

const int NIMG = 3;

// image names: each one is a proper prefix of the next, so a name lookup that compares a prefix only selects the wrong image
static std::string iname(int i) { return "img" + std::string("abcdefghijklmnop").substr(0, (size_t)(i % 16)); }

struct PT {
    int32 code;
    int   size;
    int   cls; // 0 integer, 1 char, 2 float32, 3 float64
};
const PT  PTS[] = {{DFNT_UINT8, 1, 0}, {DFNT_INT8, 1, 0},    {DFNT_UINT16, 2, 0},  {DFNT_INT16, 2, 0},
                   {DFNT_INT32, 4, 0}, {DFNT_UINT32, 4, 0},  {DFNT_FLOAT32, 4, 2}, {DFNT_FLOAT64, 8, 3}, {DFNT_CHAR8, 1, 1},
                   {DFNT_INT16 | DFNT_LITEND, 2, 0}, {DFNT_UINT32 | DFNT_LITEND, 4, 0}, {DFNT_FLOAT64 | DFNT_LITEND, 8, 3}};
const int NPT   = 12;

static void pvalue(const PT &t, uint64_t dseed, uint64_t n, uint8_t *out)
{
    uint64_t w = mix64(dseed, n);
    switch (t.cls) {
        case 2: {
            float f = (float)(int32)(w % 200001) - 100000.0f;
            memcpy(out, &f, 4);
            break;
        }
        case 3: {
            double f = (double)(int64_t)(w % 2000000001ULL) - 1000000000.0;
            memcpy(out, &f, 8);
            break;
        }
        case 1:
            out[0] = (uint8_t)('!' + w % 90);
            break;
        default:
            memcpy(out, &w, (size_t)t.size);
    }
}

// index of component c of pixel (x,y) in a cw x ch block held in interlace il  (written independently of mfgr.c)
static size_t ilidx(int il, int x, int y, int c, int cw, int ch, int nc)
{
    switch (il) {
        case MFGR_INTERLACE_LINE:
            return ((size_t)y * (size_t)nc + (size_t)c) * (size_t)cw + (size_t)x;
        case MFGR_INTERLACE_COMPONENT:
            return ((size_t)c * (size_t)ch + (size_t)y) * (size_t)cw + (size_t)x;
        default:
            return ((size_t)y * (size_t)cw + (size_t)x) * (size_t)nc + (size_t)c;
    }
}

struct MImg {
    bool  exists = false;
    int   w = 0, h = 0, nc = 0, nt = 0, il = 0, comp = 0;
    bool  chunked = false;
    int   cw = 0, chh = 0;
    bool  fill_set = false, late_fill = false, any_write = false;
    std::vector<uint8_t> fill; // nc elements
    std::vector<uint8_t> pix;  // [y][x][c]
    std::vector<uint8_t> wr;   // per pixel: written?
    int   chunk_read_il = 0; // interlace GRreadchunk delivers in: follows GRreqimageil on the handle
    bool  read_while_empty = false; // read through the slab interface before it had any data (this open of the file)
    bool  slab_touched = false, chunk_written = false; // per open of the file: which interface has been used on it
    bool  has_lut = false;
    int   lut_req = -1; // interlace asked for with GRreqlutil since the file was opened (-1: never, palette reads are pixel interlaced)
    std::vector<uint8_t> lut;  // 256 x 3, entry-major (pixel interlace)
    int32 ri = FAIL;
    int   esz() const { return PTS[nt].size; }
};

// an image written through the old single-file 8-bit raster interface (DFR8), i.e. an old-style raster group,
// optionally with the old run-length coding; found again through GR by its (unique) width
struct MLegacy {
    bool                 exists = false;
    int                  w = 0, h = 0, comp = 0;
    std::vector<uint8_t> pix;
};
const int NLEG = 2;

struct Raster : Profile {
    const char *name() const override { return "raster"; }
    const char *property() const override { return "C09"; }
    int         runs(bool thorough) const override { return thorough ? 200000 : 8000; }
    std::string rule() const override
    {
        return "each case = one generated plan: up to 3 images (dims 1..9 x 1..8, 1..5 components, 9 number types, stored "
               "interlace 0/1/2, fill value set/unset, RLE/skipping-Huffman/deflate, chunked with any chunk shape), "
               "15..60 region writes and region/strided reads in the three read interlaces, palettes, GRend/GRstart "
               "restarts; oracle = height x width x components array model with independently written interlace "
               "permutations; non-trivial = >= 2 ops and >= 1 comparison";
    }
    std::vector<std::string> assumptions() const override
    {
        return {"write/read rectangles stay inside the image (GRwriteimage does not range-check, as the property says)",
                "compressed (non-chunked) images are written as whole images only",
                "a fill value set after the first partial write makes unwritten pixels old-or-new"};
    }
    std::vector<std::string> required_probes() const override
    {
        return {"partial-first-write", "strided-read", "legacy-rle", "legacy-read", "chunk-write", "chunk-read", "read-il-line", "read-il-component", "write-il-line",
                "write-il-component", "fill-checked", "user-fill", "compressed", "chunked", "lut", "restart", "strided-write", "legacy-rle-rewrite", "legacy-region-read"};
    }

    Plan generate(Rng &rng, bool thorough, uint64_t) override
    {
        Plan p;
        p.seed          = rng.next();
        Rng kr          = rng.sub(1);
        p.knobs["ndds"] = kr.chance(0.5) ? kr.range(2, 8) : 16;
        p.knobs["stridedw"] = kr.chance(0.5) ? 1 : 0; // writes take the generated strides too (sub-sampled writes)
        Rng  r = rng.sub(2);
        int  nops = (int)r.range(15, thorough ? 90 : 60), nimg = (int)r.range(1, NIMG);
        auto mkcreate = [&](int i) {
            return mkop(0, "create", {i, r.range(1, 9), r.range(1, 8), r.range(1, 5), (int64_t)r.below(NPT), (int64_t)r.below(3),
                                      r.chance(0.4) ? 1 + (int64_t)r.below(1000) : 0, r.chance(0.25) ? 1 + (int64_t)r.below(3) : 0,
                                      r.chance(0.25) ? 1 : 0, r.range(1, 4), r.range(1, 4), r.chance(0.3) ? 1 : 0});
        };
        auto mkcreate0 = mkcreate;
        auto mkcreate2 = [&](int i) {
            Op o = mkcreate0(i);
            if (o.a[8] && r.chance(0.6)) { // square image with square chunks: whole-chunk I/O is exercised on these
                o.a[1] = o.a[2] = r.range(2, 8);
                o.a[9] = o.a[10] = r.range(1, 4);
                if (r.chance(0.4)) { // types that need no number conversion take a separate path in the chunk calls
                    o.a[4] = 8;
                    o.a[3] = r.range(2, 4);
                    o.a[5] = r.range(1, 2);
                }
            }
            return o;
        };
        p.ops.push_back(mkcreate2(0));
        static const std::vector<int> w     = {/*create*/ 4, /*write*/ 26, /*read*/ 30, /*info*/ 4, /*endaccess*/ 4, /*restart*/ 4,
                                               /*lutwrite*/ 3, /*lutread*/ 3, /*setfill*/ 2, /*readall*/ 5, /*writeall*/ 5,
                                               /*dfr8*/ 2,     /*legread*/ 3, /*legwrite*/ 1, /*chunkwrite*/ 4, /*chunkread*/ 4};
        static const char            *names[] = {"create", "write", "read", "info", "endaccess", "restart", "lutwrite", "lutread", "setfill",
                                                 "readall", "writeall", "dfr8", "legread", "legwrite", "chunkwrite", "chunkread"};
        for (int i = 0; i < nops; i++) {
            int     k = r.weighted(w);
            int64_t d = (int64_t)r.below((uint64_t)nimg);
            switch (k) {
                case 0:
                    p.ops.push_back(mkcreate2((int)d));
                    break;
                case 1:
                case 2: // rectangle by fractions; strides; data seed / read interlace
                    p.ops.push_back(mkop(0, names[k], {d, (int64_t)r.below(1000), (int64_t)r.below(1000), r.chance(0.6) ? 1 : r.range(1, 3),
                                                       r.chance(0.6) ? 1 : r.range(1, 3), (int64_t)r.below(1000), (int64_t)r.below(1000),
                                                       k == 1 ? (int64_t)(r.next() >> 16) : (int64_t)r.below(3), (int64_t)r.below(2)}));
                    break;
                case 3: // second argument 1: first ask for a chunked layout the image cannot get any more (refused; nothing may change)
                    p.ops.push_back(mkop(0, names[k], {d, r.chance(0.4) ? 1 : 0}));
                    break;
                case 4:
                    p.ops.push_back(mkop(0, names[k], {d}));
                    break;
                case 5:
                    p.ops.push_back(mkop(0, names[k], {}));
                    break;
                case 6:
                    p.ops.push_back(mkop(0, names[k], {d, (int64_t)(r.next() >> 16), (int64_t)r.below(3)}));
                    break;
                case 7: // palette read: interlace 0..2, or 3 = without asking for one (what was asked for last on this id, else pixel)
                    p.ops.push_back(mkop(0, names[k], {d, (int64_t)r.below(4)}));
                    break;
                case 9:
                    p.ops.push_back(mkop(0, names[k], {d, (int64_t)r.below(3)}));
                    break;
                case 8:
                    p.ops.push_back(mkop(0, names[k], {d, 1 + (int64_t)r.below(1000)}));
                    break;
                case 10:
                    p.ops.push_back(mkop(0, names[k], {d, (int64_t)(r.next() >> 16)}));
                    break;
                case 11: // legacy image: slot, height, run length of the pixel pattern, old RLE on/off, data seed
                    p.ops.push_back(mkop(0, names[k], {(int64_t)r.below(NLEG), r.range(1, 3), (int64_t)r.below(6), (int64_t)r.below(2),
                                                       (int64_t)(r.next() >> 16)}));
                    break;
                case 12:
                    p.ops.push_back(mkop(0, names[k], {(int64_t)r.below(NLEG)}));
                    break;
                case 13:
                    p.ops.push_back(mkop(0, names[k], {(int64_t)r.below(NLEG), (int64_t)r.below(6), (int64_t)(r.next() >> 16)}));
                    break;
                case 14:
                case 15:
                    p.ops.push_back(mkop(0, names[k], {d, (int64_t)r.below(8), (int64_t)r.below(8), (int64_t)(r.next() >> 16)}));
                    break;
            }
        }
        p.ops.push_back(mkop(0, "restart", {}));
        return p;
    }

    struct S {
        Ctx  &ctx;
        MImg  im[NIMG];
        MLegacy leg[NLEG];
        int   chunk_map = -1; // which of origin[0]/origin[1] is the chunk row: learnt from the first chunk write
        int32 fid = FAIL, gr = FAIL;
        bool  on_disk = false;
        explicit S(Ctx &c) : ctx(c) {}
    };
    const std::string path = "/sim/gr.hdf";

    void open_gr(S &s, int ndds, bool write)
    {
        s.fid = Hopen(path.c_str(), !s.on_disk ? DFACC_CREATE : write ? DFACC_RDWR : DFACC_READ, (int16)ndds);
        if (s.fid == FAIL)
            s.ctx.fail("open-failed", "open-failed", "Hopen failed");
        s.gr = GRstart(s.fid);
        if (s.gr == FAIL)
            s.ctx.fail("open-failed", "open-failed:grstart", "GRstart failed");
        s.on_disk = true;
        for (int i = 0; i < NIMG; i++) {
            s.im[i].ri            = FAIL;
            s.im[i].chunk_read_il = MFGR_INTERLACE_PIXEL; // the requested read interlace lives with the open file's image record
            s.im[i].lut_req       = -1;                   // and so does the one asked for for the palette
            s.im[i].read_while_empty = false;
            s.im[i].slab_touched = s.im[i].chunk_written = false;
        }
    }
    void close_gr(S &s)
    {
        if (s.gr == FAIL)
            return;
        for (int i = 0; i < NIMG; i++)
            if (s.im[i].ri != FAIL) {
                if (GRendaccess(s.im[i].ri) == FAIL)
                    s.ctx.fail("endaccess-failed", "endaccess-failed", strf("GRendaccess(img%d) failed", i));
                s.im[i].ri = FAIL;
            }
        if (GRend(s.gr) == FAIL || Hclose(s.fid) == FAIL)
            s.ctx.fail("close-failed", "close-failed", strf("GRend/Hclose failed: %s", HEstring((hdf_err_code_t)HEvalue(1))));
        s.gr = s.fid = FAIL;
    }
    int32 sel(S &s, int i)
    {
        MImg &m = s.im[i];
        if (m.ri != FAIL)
            return m.ri;
        int32 ix = GRnametoindex(s.gr, iname(i).c_str());
        if (ix == FAIL)
            s.ctx.fail("lookup-failed", "lookup-failed", strf("GRnametoindex(img%d) failed for an existing image", i));
        m.ri = GRselect(s.gr, ix);
        if (m.ri == FAIL)
            s.ctx.fail("lookup-failed", "lookup-failed:select", strf("GRselect(img%d) failed", i));
        return m.ri;
    }

    void check_info(S &s, int i, const char *when)
    {
        MImg &m = s.im[i];
        char  nm[256] = "";
        int32 nc = 0, nt = 0, il = 0, dims[2] = {0, 0}, na = 0;
        if (GRgetiminfo(sel(s, i), nm, &nc, &nt, &il, dims, &na) == FAIL)
            s.ctx.fail("info-failed", "info-failed", strf("GRgetiminfo(img%d) failed (%s)", i, when));
        s.ctx.st.checks++;
        // the interlace given to GRcreate describes the caller's buffers in that session; the file stores pixel
        // interlace, so after a reopen the image reports (and expects) whatever the library says
        if (std::string(when) == "after reopen")
            m.il = (int)il;
        if (nc != m.nc || (nt & 0x4fff) != (PTS[m.nt].code & 0x4fff) || il != m.il || dims[0] != m.w || dims[1] != m.h ||
            strcmp(nm, iname(i).c_str()) != 0)
            s.ctx.fail("info-mismatch", "info-mismatch",
                       strf("GRgetiminfo(img%d) (%s): name %s ncomp %d type %d il %d dims %dx%d; model ncomp %d type %d il %d dims %dx%d", i,
                            when, nm, (int)nc, (int)nt, (int)il, (int)dims[0], (int)dims[1], m.nc, (int)PTS[m.nt].code, m.il, m.w, m.h));
    }

    void read_region(S &s, int i, int x0, int y0, int sx, int sy, int cx, int cy, int il, const char *when)
    {
        MImg &m = s.im[i];
        int32 ri = sel(s, i);
        if (GRreqimageil(ri, il) == FAIL)
            s.ctx.fail("reqil-refused", "reqil-refused", strf("GRreqimageil(%d) failed", il));
        m.chunk_read_il = il;
        int32  start[2] = {x0, y0}, stride[2] = {sx, sy}, cnt[2] = {cx, cy};
        size_t n = (size_t)cx * (size_t)cy * (size_t)m.nc * (size_t)m.esz();
        std::vector<uint8_t> buf(n + 32, 0x5A);
        if (!m.any_write)
            m.read_while_empty = true;
        intn   r = GRreadimage(ri, start, (sx == 1 && sy == 1 && (x0 & 1)) ? NULL : stride, cnt, buf.data());
        s.ctx.tr((uint64_t)r);
        if (r == FAIL)
            s.ctx.fail("read-refused", strf("read-refused:%s", m.comp ? "compressed" : m.chunked ? "chunked" : "plain"),
                       strf("GRreadimage(img%d, start %d,%d stride %d,%d count %d,%d) inside the %dx%d image failed (%s): %s", i, x0, y0, sx,
                            sy, cx, cy, m.w, m.h, when, HEstring((hdf_err_code_t)HEvalue(1))));
        for (size_t j = n; j < buf.size(); j++)
            if (buf[j] != 0x5A)
                s.ctx.fail("buffer-overrun", "buffer-overrun:read", strf("GRreadimage(img%d) wrote beyond the requested region", i));
        s.ctx.st.checks++;
        s.ctx.trb(buf.data(), n);
        int esz = m.esz();
        for (int y = 0; y < cy; y++)
            for (int x = 0; x < cx; x++) {
                int            px = x0 + x * sx, py = y0 + y * sy;
                size_t         pi = (size_t)py * (size_t)m.w + (size_t)px;
                bool           written = m.wr[pi] != 0;
                if (!written && m.late_fill)
                    continue;
                for (int c = 0; c < m.nc; c++) {
                    const uint8_t *want = written ? m.pix.data() + (pi * (size_t)m.nc + (size_t)c) * (size_t)esz
                                                  : m.fill.data() + (size_t)c * (size_t)esz;
                    const uint8_t *got  = buf.data() + ilidx(il, x, y, c, cx, cy, m.nc) * (size_t)esz;
                    if (memcmp(got, want, (size_t)esz) != 0)
                        s.ctx.fail("value-mismatch", strf("value-mismatch:%s:il%d:%s", written ? "written" : "fill", il,
                                                          m.comp ? "compressed" : m.chunked ? "chunked" : "plain"),
                                   strf("GRreadimage(img%d %dx%dx%d type %d stored il %d, start %d,%d stride %d,%d count %d,%d, read il %d) (%s): "
                                        "pixel (%d,%d) component %d is %s, model has %s (%s)",
                                        i, m.w, m.h, m.nc, (int)PTS[m.nt].code, m.il, x0, y0, sx, sy, cx, cy, il, when, px, py, c,
                                        hexs(got, (size_t)esz).c_str(), hexs(want, (size_t)esz).c_str(), written ? "last written" : "fill value"));
                }
                if (!written)
                    s.ctx.probe("fill-checked");
            }
        if (il == MFGR_INTERLACE_LINE)
            s.ctx.probe("read-il-line");
        if (il == MFGR_INTERLACE_COMPONENT)
            s.ctx.probe("read-il-component");
        if (sx > 1 || sy > 1)
            s.ctx.probe("strided-read");
    }

    void write_region(S &s, int i, int x0, int y0, int sx, int sy, int cx, int cy, uint64_t ds)
    {
        MImg  &m = s.im[i];
        int32  ri = sel(s, i);
        int    esz = m.esz();
        size_t n = (size_t)cx * (size_t)cy * (size_t)m.nc * (size_t)esz;
        std::vector<uint8_t> buf(n);
        // values per (x,y,c), placed according to the image's own interlace
        for (int y = 0; y < cy; y++)
            for (int x = 0; x < cx; x++)
                for (int c = 0; c < m.nc; c++)
                    pvalue(PTS[m.nt], ds, (uint64_t)((y * 64 + x) * 8 + c), buf.data() + ilidx(m.il, x, y, c, cx, cy, m.nc) * (size_t)esz);
        int32 start[2] = {x0, y0}, stride[2] = {sx, sy}, cnt[2] = {cx, cy};
        bool  whole = x0 == 0 && y0 == 0 && sx == 1 && sy == 1 && cx == m.w && cy == m.h;
        if (!m.any_write && !whole)
            s.ctx.probe("partial-first-write");
        intn r = GRwriteimage(ri, start, (sx == 1 && sy == 1 && (y0 & 1)) ? NULL : stride, cnt, buf.data());
        s.ctx.tr((uint64_t)r);
        if (r == FAIL)
            s.ctx.fail("write-refused", strf("write-refused:%s", m.comp ? "compressed" : m.chunked ? "chunked" : "plain"),
                       strf("GRwriteimage(img%d, start %d,%d stride %d,%d count %d,%d) inside the %dx%d image failed: %s", i, x0, y0, sx, sy, cx,
                            cy, m.w, m.h, HEstring((hdf_err_code_t)HEvalue(1))));
        m.any_write = true;
        for (int y = 0; y < cy; y++)
            for (int x = 0; x < cx; x++) {
                size_t pi = (size_t)(y0 + y * sy) * (size_t)m.w + (size_t)(x0 + x * sx);
                for (int c = 0; c < m.nc; c++)
                    memcpy(m.pix.data() + (pi * (size_t)m.nc + (size_t)c) * (size_t)esz,
                           buf.data() + ilidx(m.il, x, y, c, cx, cy, m.nc) * (size_t)esz, (size_t)esz);
                m.wr[pi] = 1;
            }
        if (m.il == MFGR_INTERLACE_LINE)
            s.ctx.probe("write-il-line");
        if (m.il == MFGR_INTERLACE_COMPONENT)
            s.ctx.probe("write-il-component");
        if (sx > 1 || sy > 1)
            s.ctx.probe("strided-write");
    }

    void check_lut(S &s, int i, int il, const char *when)
    {
        MImg &m = s.im[i];
        int32 lut = GRgetlutid(sel(s, i), 0);
        if (lut == FAIL)
            s.ctx.fail("lut-failed", "lut-failed:id", strf("GRgetlutid(img%d) failed (%s)", i, when));
        int32 nc = 0, nt = 0, lil = 0, ne = 0;
        if (GRgetlutinfo(lut, &nc, &nt, &lil, &ne) == FAIL)
            s.ctx.fail("lut-failed", "lut-failed:info", strf("GRgetlutinfo(img%d) failed (%s)", i, when));
        s.ctx.st.checks++;
        if (!m.has_lut)
            return;
        if (nc != 3 || ((nt & 0xfff) != DFNT_UINT8 && (nt & 0xfff) != DFNT_UCHAR8) || ne != 256)
            s.ctx.fail("lut-mismatch", "lut-mismatch:info", strf("GRgetlutinfo(img%d): ncomp %d type %d entries %d, written 3/uint8/256 (%s)", i, (int)nc, (int)nt, (int)ne, when));
        if (il == 3) {
            // no request: the palette comes in the interlace asked for last in this open of the file, pixel interlace if none was
            (void)sel(s, i);
            il = m.lut_req < 0 ? MFGR_INTERLACE_PIXEL : m.lut_req;
            s.ctx.probe("lut-read-without-request");
        }
        else {
            if (GRreqlutil(sel(s, i), il) == FAIL)
                s.ctx.fail("lut-failed", "lut-failed:reqil", "GRreqlutil failed");
            m.lut_req = il;
        }
        std::vector<uint8_t> buf(768 + 16, 0x5A);
        if (GRreadlut(lut, buf.data()) == FAIL)
            s.ctx.fail("lut-failed", "lut-failed:read", strf("GRreadlut(img%d) failed (%s)", i, when));
        for (int e = 0; e < 256; e++)
            for (int c = 0; c < 3; c++)
                if (buf[ilidx(il, 0, e, c, 1, 256, 3)] != m.lut[(size_t)e * 3 + (size_t)c])
                    s.ctx.fail("lut-mismatch", strf("lut-mismatch:il%d", il),
                               strf("GRreadlut(img%d, il %d) entry %d component %d is %02x, written %02x (%s)", i, il, e, c,
                                    buf[ilidx(il, 0, e, c, 1, 256, 3)], m.lut[(size_t)e * 3 + (size_t)c], when));
        if (buf[768] != 0x5A)
            s.ctx.fail("buffer-overrun", "buffer-overrun:lut", "GRreadlut wrote beyond 768 bytes");
        s.ctx.probe("lut");
    }

    static std::vector<uint8_t> legacy_pixels(int w, int h, int runsel, uint64_t ds)
    {
        static const int     runs[] = {1, 3, 127, 128, 129, 200};
        int                  rl     = runs[modn(runsel, 6)];
        std::vector<uint8_t> v((size_t)w * (size_t)h);
        for (int y = 0; y < h; y++)
            for (int x = 0; x < w; x++)
                v[(size_t)y * (size_t)w + (size_t)x] = (uint8_t)mix64(ds, (uint64_t)(y * 1000 + x / rl));
        return v;
    }
    // old-style images have no GR name of ours; they are recognised by their unique width
    int32 find_legacy(S &s, const MLegacy &L)
    {
        int32 n = 0, na = 0;
        if (GRfileinfo(s.gr, &n, &na) == FAIL)
            s.ctx.fail("info-failed", "info-failed:fileinfo", "GRfileinfo failed");
        for (int32 ix = 0; ix < n; ix++) {
            int32 ri = GRselect(s.gr, ix);
            if (ri == FAIL)
                continue;
            char  nm[256] = "";
            int32 nc = 0, nt = 0, il = 0, dims[2] = {0, 0}, nat = 0;
            bool  hit = GRgetiminfo(ri, nm, &nc, &nt, &il, dims, &nat) != FAIL && dims[0] == L.w && dims[1] == L.h && nc == 1 &&
                       strncmp(nm, "img", 3) != 0;
            if (hit)
                return ri;
            GRendaccess(ri);
        }
        return FAIL;
    }
    void check_legacy(S &s, int li, const char *when)
    {
        MLegacy &L = s.leg[li];
        int32    ri = find_legacy(s, L);
        if (ri == FAIL)
            s.ctx.fail("legacy-lost", "legacy-lost", strf("the %dx%d image written with DFR8addimage is not among the GR images (%s)", L.w, L.h, when));
        int32                start[2] = {0, 0}, cnt[2] = {L.w, L.h};
        std::vector<uint8_t> buf(L.pix.size() + 16, 0x5A);
        if (GRreadimage(ri, start, NULL, cnt, buf.data()) == FAIL)
            s.ctx.fail("read-refused", strf("read-refused:legacy:%s", L.comp ? "rle" : "plain"),
                       strf("GRreadimage of the %dx%d DFR8 image failed (%s): %s", L.w, L.h, when, HEstring((hdf_err_code_t)HEvalue(1))));
        s.ctx.st.checks++;
        for (size_t j = 0; j < L.pix.size(); j++)
            if (buf[j] != L.pix[j])
                s.ctx.fail("value-mismatch", strf("value-mismatch:legacy:%s", L.comp ? "rle" : "plain"),
                           strf("DFR8 image %dx%d (%s) read through GR: pixel (%zu,%zu) is %02x, written %02x (%s)", L.w, L.h,
                                L.comp ? "old RLE" : "uncompressed", j % (size_t)L.w, j / (size_t)L.w, buf[j], L.pix[j], when));
        if (buf[L.pix.size()] != 0x5A)
            s.ctx.fail("buffer-overrun", "buffer-overrun:legacy", "GRreadimage of a DFR8 image wrote beyond the image");
        {
            // ... and a part of it, sub-sampled: an old-style compressed image is decoded as a whole, regions come out of a buffer
            int32 st[2] = {L.w / 3, L.h / 3}, sd[2] = {L.w > 4 ? 2 : 1, L.h > 4 ? 2 : 1};
            int32 ct[2] = {(L.w - 1 - st[0]) / sd[0] + 1, (L.h - 1 - st[1]) / sd[1] + 1};
            std::vector<uint8_t> part((size_t)ct[0] * (size_t)ct[1] + 8, 0x5A);
            if (GRreadimage(ri, st, sd, ct, part.data()) == FAIL)
                s.ctx.fail("read-refused", strf("read-refused:legacy-region:%s", L.comp ? "rle" : "plain"),
                           strf("GRreadimage of a region (start %d,%d stride %d,%d count %d,%d) of the %dx%d DFR8 image failed (%s): %s", (int)st[0], (int)st[1], (int)sd[0], (int)sd[1],
                                (int)ct[0], (int)ct[1], L.w, L.h, when, herr().c_str()));
            for (int32 y = 0; y < ct[1]; y++)
                for (int32 x = 0; x < ct[0]; x++)
                    if (part[(size_t)y * (size_t)ct[0] + (size_t)x] != L.pix[(size_t)(st[1] + y * sd[1]) * (size_t)L.w + (size_t)(st[0] + x * sd[0])])
                        s.ctx.fail("value-mismatch", strf("value-mismatch:legacy-region:%s", L.comp ? "rle" : "plain"),
                                   strf("DFR8 image %dx%d read through GR, region: pixel (%d,%d) differs from the image (%s)", L.w, L.h, (int)(st[0] + x * sd[0]), (int)(st[1] + y * sd[1]), when));
            s.ctx.probe("legacy-region-read");
        }
        GRendaccess(ri);
        s.ctx.probe("legacy-read");
    }

    void execute(Ctx &ctx) override
    {
        S           s(ctx);
        const Plan &p    = ctx.plan;
        int         ndds = (int)p.knob("ndds", 16);
        apply_hook_knobs(p);
        for (size_t i = 0; i < p.ops.size(); i++) {
            const Op &o = p.ops[i];
            ctx.begin_op((int)i);
            const std::string &k = o.kind;
            bool               done = true;
            if (s.gr == FAIL && k != "restart")
                open_gr(s, ndds, true);
            int   di = k == "restart" ? 0 : modn(o.arg(0), NIMG);
            MImg &m  = s.im[di];
            if (k == "create") {
                if (m.exists)
                    done = false;
                else {
                    m        = MImg();
                    m.w      = (int)std::max<int64_t>(1, o.arg(1));
                    m.h      = (int)std::max<int64_t>(1, o.arg(2));
                    m.nc     = (int)std::max<int64_t>(1, std::min<int64_t>(5, o.arg(3)));
                    m.nt     = modn(o.arg(4), NPT);
                    m.il     = modn(o.arg(5), 3);
                    int32 dims[2] = {m.w, m.h};
                    int32 ri = GRcreate(s.gr, iname(di).c_str(), m.nc, PTS[m.nt].code, m.il, dims);
                    if (ri == FAIL)
                        ctx.fail("create-refused", "create-refused",
                                 strf("GRcreate(%dx%d, %d comps, type %d, il %d) failed: %s", m.w, m.h, m.nc, (int)PTS[m.nt].code, m.il,
                                      HEstring((hdf_err_code_t)HEvalue(1))));
                    m.exists = true;
                    m.ri     = ri;
                    m.lut_req = -1;
                    m.pix.assign((size_t)m.w * (size_t)m.h * (size_t)m.nc * (size_t)m.esz(), 0);
                    m.wr.assign((size_t)m.w * (size_t)m.h, 0);
                    m.fill.assign((size_t)m.nc * (size_t)m.esz(), 0);
                    if (o.arg(6) > 0) {
                        for (int c = 0; c < m.nc; c++)
                            pvalue(PTS[m.nt], (uint64_t)o.arg(6), (uint64_t)c, m.fill.data() + (size_t)c * (size_t)m.esz());
                        if (GRsetattr(ri, FILL_ATTR, PTS[m.nt].code, m.nc, m.fill.data()) == FAIL)
                            ctx.fail("setfill-refused", "setfill-refused", "GRsetattr(FILL_ATTR) on a new image failed");
                        m.fill_set = true;
                        ctx.probe("user-fill");
                    }
                    if (o.arg(8) != 0) { // chunked, optionally compressed
                        HDF_CHUNK_DEF cd;
                        memset(&cd, 0, sizeof cd);
                        m.cw  = (int)std::max<int64_t>(1, std::min<int64_t>(m.w, o.arg(9)));
                        m.chh = (int)std::max<int64_t>(1, std::min<int64_t>(m.h, o.arg(10)));
                        int32 flags = HDF_CHUNK;
                        // chunk_lengths are given as (y, x) for GR
                        if (o.arg(11) != 0) {
                            cd.comp.chunk_lengths[0]   = m.chh;
                            cd.comp.chunk_lengths[1]   = m.cw;
                            cd.comp.comp_type          = COMP_CODE_DEFLATE;
                            cd.comp.cinfo.deflate.level = 6;
                            flags                      = HDF_CHUNK | HDF_COMP;
                        }
                        else {
                            cd.chunk_lengths[0] = m.chh;
                            cd.chunk_lengths[1] = m.cw;
                        }
                        if (GRsetchunk(ri, cd, flags) == FAIL)
                            ctx.fail("setchunk-refused", "setchunk-refused", strf("GRsetchunk(%dx%d) on a new %dx%d image failed", m.cw, m.chh, m.w, m.h));
                        m.chunked = true;
                        ctx.probe("chunked");
                    }
                    else if (o.arg(7) > 0) {
                        comp_info    ci;
                        comp_coder_t ct;
                        memset(&ci, 0, sizeof ci);
                        switch ((int)o.arg(7)) {
                            case 1:
                                ct = COMP_CODE_RLE;
                                break;
                            case 2:
                                ct                = COMP_CODE_SKPHUFF;
                                ci.skphuff.skp_size = m.esz();
                                break;
                            default:
                                ct               = COMP_CODE_DEFLATE;
                                ci.deflate.level = 5;
                                break;
                        }
                        if (GRsetcompress(ri, ct, &ci) == FAIL)
                            ctx.fail("setcompress-refused", "setcompress-refused", strf("GRsetcompress(%d) on a new image failed", (int)ct));
                        m.comp = (int)o.arg(7);
                        ctx.probe("compressed");
                    }
                }
            }
            else if (k == "write" || k == "read" || k == "readall" || k == "writeall") {
                if (!m.exists)
                    done = false;
                else if (m.chunk_written && p.knob("unguard_chunk_mixed", 0) == 0)
                    done = false; // same known finding
                else {
                    m.slab_touched = true;
                    int x0 = (int)(o.arg(1) % m.w), y0 = (int)(o.arg(2) % m.h);
                    int sx = (int)std::max<int64_t>(1, o.arg(3)), sy = (int)std::max<int64_t>(1, o.arg(4));
                    int maxcx = (m.w - 1 - x0) / sx + 1, maxcy = (m.h - 1 - y0) / sy + 1;
                    int cx = 1 + (int)(o.arg(5) % maxcx), cy = 1 + (int)(o.arg(6) % maxcy);
                    if (k == "readall")
                        read_region(s, di, 0, 0, 1, 1, m.w, m.h, modn(o.arg(1), 3), "whole image in session");
                    else if (k == "writeall") {
                        write_region(s, di, 0, 0, 1, 1, m.w, m.h, (uint64_t)o.arg(1));
                    }
                    else if (k == "read")
                        read_region(s, di, x0, y0, sx, sy, cx, cy, modn(o.arg(7), 3), "region in session");
                    else {
                        // the property speaks of region writes (and region/strided reads): in half of the cases writes use
                        // stride 1 only, in the other half (knob stridedw) the generated strides as well
                        if (p.knob("stridedw", 0) && (sx > 1 || sy > 1)) {
                            ctx.probe("strided-write");
                            write_region(s, di, x0, y0, sx, sy, cx, cy, (uint64_t)o.arg(7));
                        }
                        else {
                            cx = 1 + (int)(o.arg(5) % (m.w - x0));
                            cy = 1 + (int)(o.arg(6) % (m.h - y0));
                            write_region(s, di, x0, y0, 1, 1, cx, cy, (uint64_t)o.arg(7));
                        }
                    }
                }
            }
            else if (k == "info") {
                if (!m.exists)
                    done = false;
                else {
                    if (o.arg(1) == 1 && (m.comp != 0 || m.chunked) && m.any_write && !(m.chunk_written && p.knob("unguard_chunk_mixed", 0) == 0)) {
                        // the image is compressed or chunked already and holds data: it cannot be given (another) chunked layout.
                        // Whatever the call answers, the id goes on working and the pixels stay (read right here and by all that follows)
                        HDF_CHUNK_DEF cd;
                        memset(&cd, 0, sizeof cd);
                        cd.chunk_lengths[0] = cd.chunk_lengths[1] = 1;
                        intn rc = GRsetchunk(sel(s, di), cd, HDF_CHUNK);
                        ctx.tr((uint64_t)(int64_t)rc);
                        ctx.probe(rc == FAIL ? "late-chunking-refused" : "late-chunking-accepted");
                        m.slab_touched = true;
                        read_region(s, di, 0, 0, 1, 1, m.w, m.h, MFGR_INTERLACE_PIXEL, "whole image after a refused layout call");
                    }
                    check_info(s, di, "in session");
                }
            }
            else if (k == "endaccess") {
                if (!m.exists || m.ri == FAIL)
                    done = false;
                else {
                    if (GRendaccess(m.ri) == FAIL)
                        ctx.fail("endaccess-failed", "endaccess-failed", strf("GRendaccess(img%d) failed", di));
                    m.ri = FAIL;
                }
            }
            else if (k == "setfill") {
                if (!m.exists)
                    done = false;
                else {
                    std::vector<uint8_t> fv((size_t)m.nc * (size_t)m.esz());
                    for (int c = 0; c < m.nc; c++)
                        pvalue(PTS[m.nt], (uint64_t)o.arg(1), (uint64_t)c, fv.data() + (size_t)c * (size_t)m.esz());
                    if (GRsetattr(sel(s, di), FILL_ATTR, PTS[m.nt].code, m.nc, fv.data()) == FAIL)
                        ctx.fail("setfill-refused", "setfill-refused:late", "GRsetattr(FILL_ATTR) failed");
                    if (m.any_write || m.chunked) // a chunked image fixes its fill value when GRsetchunk is called
                        m.late_fill = true;
                    else {
                        m.fill     = fv;
                        m.fill_set = true;
                    }
                }
            }
            else if (k == "lutwrite") {
                if (!m.exists)
                    done = false;
                else {
                    int32 lut = GRgetlutid(sel(s, di), 0);
                    if (lut == FAIL)
                        ctx.fail("lut-failed", "lut-failed:id", "GRgetlutid failed");
                    int il = MFGR_INTERLACE_PIXEL; // GRwritelut supports pixel interlace only ("not currently supported")
                    m.lut.resize(768);
                    fill_data((uint64_t)o.arg(1), m.lut.data(), 768);
                    std::vector<uint8_t> buf(768);
                    for (int e = 0; e < 256; e++)
                        for (int c = 0; c < 3; c++)
                            buf[ilidx(il, 0, e, c, 1, 256, 3)] = m.lut[(size_t)e * 3 + (size_t)c];
                    if (GRwritelut(lut, 3, DFNT_UINT8, il, 256, buf.data()) == FAIL)
                        ctx.fail("lut-failed", "lut-failed:write", strf("GRwritelut(il %d) failed: %s", il, HEstring((hdf_err_code_t)HEvalue(1))));
                    m.has_lut = true;
                }
            }
            else if (k == "lutread") {
                if (!m.exists || !m.has_lut)
                    done = false;
                else
                    check_lut(s, di, o.arg(1) == 3 ? 3 : modn(o.arg(1), 3), "in session");
            }
            else if (k == "dfr8") {
                MLegacy &L = s.leg[modn(o.arg(0), NLEG)];
                if (L.exists)
                    done = false;
                else {
                    close_gr(s); // the single-file interface opens the file itself
                    L.w    = modn(o.arg(0), NLEG) == 0 ? 131 : 150;
                    L.h    = (int)std::max<int64_t>(1, o.arg(1));
                    L.comp = o.arg(3) ? 1 : 0;
                    L.pix  = legacy_pixels(L.w, L.h, (int)o.arg(2), (uint64_t)o.arg(4));
                    if (DFR8addimage(path.c_str(), L.pix.data(), L.w, L.h, (uint16)(L.comp ? COMP_RLE : 0)) == FAIL)
                        ctx.fail("create-refused", "create-refused:dfr8", strf("DFR8addimage(%dx%d, compress %d) failed: %s", L.w, L.h, L.comp, HEstring((hdf_err_code_t)HEvalue(1))));
                    L.exists  = true;
                    s.on_disk = true;
                    ctx.probe(L.comp ? "legacy-rle" : "legacy-plain");
                    // this was a close and reopen for the GR images: they report the stored (pixel) interlace now
                    open_gr(s, ndds, true);
                    for (int q = 0; q < NIMG; q++)
                        if (s.im[q].exists)
                            check_info(s, q, "after reopen");
                }
            }
            else if (k == "legread" || k == "legwrite") {
                int      li = modn(o.arg(0), NLEG);
                MLegacy &L  = s.leg[li];
                if (!L.exists)
                    done = false;
                else if (k == "legread")
                    check_legacy(s, li, "in session");
                else {
                    int32 ri = find_legacy(s, L);
                    if (ri == FAIL)
                        ctx.fail("legacy-lost", "legacy-lost:write", "the DFR8 image is not among the GR images");
                    std::vector<uint8_t> d = legacy_pixels(L.w, L.h, (int)o.arg(1), (uint64_t)o.arg(2));
                    // known finding C09-legacy-rle-rewrite-refused: an old-style RLE image cannot be rewritten with pixels
                    // whose compressed stream is longer than the stored one (the element cannot grow).  Guard: such images
                    // are rewritten with one colour, which gives the shortest stream there is for the size.
                    if (L.comp && p.knob("unguard_legacy_rle_rewrite", 0) == 0) {
                        std::fill(d.begin(), d.end(), (uint8_t)(o.arg(2) & 0xff));
                        ctx.probe("legacy-rle-rewrite");
                    }
                    int32 start[2] = {0, 0}, cnt[2] = {L.w, L.h};
                    if (GRwriteimage(ri, start, NULL, cnt, d.data()) == FAIL)
                        ctx.fail("write-refused", strf("write-refused:legacy:%s", L.comp ? "rle" : "plain"),
                                 strf("GRwriteimage (whole image) on the DFR8 image failed: %s", herr().c_str()));
                    L.pix = d;
                    if (GRendaccess(ri) == FAIL)
                        ctx.fail("write-refused", strf("write-refused:legacy:%s:endaccess", L.comp ? "rle" : "plain"),
                                 strf("GRendaccess after GRwriteimage (whole image) on the DFR8 image failed: %s", herr().c_str()));
                    ctx.probe("legacy-rewrite");
                }
            }
            else if (k == "chunkwrite" || k == "chunkread") {
                // whole-chunk access on square images with square chunks, diagonal chunks only: no doubt which
                // origin index is the row
                if (!m.exists || !m.chunked || m.w != m.h || m.cw != m.chh)
                    done = false;
                else {
                    int   nch = (m.w + m.cw - 1) / m.cw, a = modn(o.arg(1), nch);
                    int32 origin[2] = {a, a};
                    int   esz = m.esz(), cs = m.cw;
                    std::vector<uint8_t> buf((size_t)cs * (size_t)cs * (size_t)m.nc * (size_t)esz + 16, 0x5A);
                    if (k == "chunkwrite") {
                        for (int y = 0; y < cs; y++)
                            for (int x = 0; x < cs; x++)
                                for (int c = 0; c < m.nc; c++)
                                    pvalue(PTS[m.nt], (uint64_t)o.arg(3), (uint64_t)((y * 64 + x) * 8 + c),
                                           buf.data() + ilidx(m.il, x, y, c, cs, cs, m.nc) * (size_t)esz);
                        if (GRwritechunk(sel(s, di), origin, buf.data()) == FAIL)
                            ctx.fail("write-refused", "write-refused:chunk", strf("GRwritechunk(%d,%d) failed: %s", a, a, HEstring((hdf_err_code_t)HEvalue(1))));
                        m.any_write = true;
                        if (s.chunk_map < 0) {
                            // Which axis of the chunk buffer is the image row?  The library's convention is learnt once
                            // from what the slab interface shows for this chunk and must then hold for the whole run.
                            int32 st[2] = {a * cs, a * cs}, cn[2] = {std::min(cs, m.w - a * cs), std::min(cs, m.h - a * cs)};
                            std::vector<uint8_t> rb((size_t)cn[0] * (size_t)cn[1] * (size_t)m.nc * (size_t)esz);
                            GRreqimageil(sel(s, di), MFGR_INTERLACE_PIXEL);
                            m.chunk_read_il = MFGR_INTERLACE_PIXEL;
                            if (GRreadimage(sel(s, di), st, NULL, cn, rb.data()) == FAIL)
                                ctx.fail("read-refused", "read-refused:chunked", "GRreadimage of a chunk just written with GRwritechunk failed");
                            bool normal = true, transposed = true;
                            for (int y = 0; y < cn[1]; y++)
                                for (int x = 0; x < cn[0]; x++)
                                    for (int c = 0; c < m.nc; c++) {
                                        const uint8_t *g = rb.data() + (((size_t)y * (size_t)cn[0] + (size_t)x) * (size_t)m.nc + (size_t)c) * (size_t)esz;
                                        normal &= memcmp(g, buf.data() + ilidx(m.il, x, y, c, cs, cs, m.nc) * (size_t)esz, (size_t)esz) == 0;
                                        transposed &= memcmp(g, buf.data() + ilidx(m.il, y, x, c, cs, cs, m.nc) * (size_t)esz, (size_t)esz) == 0;
                                    }
                            if (!normal && !transposed)
                                ctx.fail("value-mismatch", strf("value-mismatch:chunk-vs-slab:il%d", m.il),
                                         strf("GRwritechunk(%d,%d) on img%d (%dx%dx%d type %d il %d, chunks %dx%d): GRreadimage of the same region shows "
                                              "neither the chunk buffer nor its transpose",
                                              a, a, di, m.w, m.h, m.nc, (int)PTS[m.nt].code, m.il, cs, cs));
                            s.chunk_map = normal ? 0 : 1;
                            ctx.probe(normal ? "chunk-buffer-row-major" : "chunk-buffer-transposed");
                        }
                        for (int y = 0; y < cs; y++)
                            for (int x = 0; x < cs; x++) {
                                int px = a * cs + x, py = a * cs + y;
                                if (px >= m.w || py >= m.h)
                                    continue; // ghost cells of an edge chunk
                                size_t pi = (size_t)py * (size_t)m.w + (size_t)px;
                                int    bx = s.chunk_map ? y : x, by = s.chunk_map ? x : y;
                                for (int c = 0; c < m.nc; c++)
                                    memcpy(m.pix.data() + (pi * (size_t)m.nc + (size_t)c) * (size_t)esz,
                                           buf.data() + ilidx(m.il, bx, by, c, cs, cs, m.nc) * (size_t)esz, (size_t)esz);
                                m.wr[pi] = 1;
                            }
                        m.chunk_written = true;
                        ctx.probe("chunk-write");
                    }
                    else if (s.chunk_map < 0)
                        done = false; // the buffer convention is learnt from the first GRwritechunk
                    else {
                        // a chunk that was never written need not exist
                        bool any = false;
                        for (int y = 0; y < cs; y++)
                            for (int x = 0; x < cs; x++)
                                if (a * cs + x < m.w && a * cs + y < m.h)
                                    any |= m.wr[(size_t)(a * cs + y) * (size_t)m.w + (size_t)(a * cs + x)] != 0;
                        intn r = GRreadchunk(sel(s, di), origin, buf.data());
                        if (r == FAIL) {
                            if (any)
                                ctx.fail("read-refused", "read-refused:chunk", strf("GRreadchunk(%d,%d) of a written chunk failed", a, a));
                        }
                        else {
                            ctx.st.checks++;
                            // GRreadchunk delivers in the read interlace requested on this handle (pixel unless asked)
                            for (int y = 0; y < cs; y++)
                                for (int x = 0; x < cs; x++) {
                                    int px = a * cs + x, py = a * cs + y;
                                    if (px >= m.w || py >= m.h)
                                        continue;
                                    size_t pi = (size_t)py * (size_t)m.w + (size_t)px;
                                    if (!m.wr[pi])
                                        continue;
                                    for (int c = 0; c < m.nc; c++) {
                                        const uint8_t *want = m.pix.data() + (pi * (size_t)m.nc + (size_t)c) * (size_t)esz;
                                        int            bx = s.chunk_map ? y : x, by = s.chunk_map ? x : y;
                                        const uint8_t *got  = buf.data() + ilidx(m.chunk_read_il, bx, by, c, cs, cs, m.nc) * (size_t)esz;
                                        if (memcmp(got, want, (size_t)esz) != 0)
                                            ctx.fail("value-mismatch", strf("value-mismatch:chunk:il%d", m.il),
                                                     strf("GRreadchunk(%d,%d) of img%d (%dx%dx%d type %d, stored il %d, chunks %dx%d): pixel (%d,%d) comp "
                                                          "%d is %s, model has %s",
                                                          a, a, di, m.w, m.h, m.nc, (int)PTS[m.nt].code, m.il, cs, cs, px, py, c,
                                                          hexs(got, (size_t)esz).c_str(), hexs(want, (size_t)esz).c_str()));
                                    }
                                }
                            ctx.probe("chunk-read");
                        }
                    }
                }
            }
            else if (k == "restart") {
                close_gr(s);
                ctx.probe("restart");
                if (s.on_disk) {
                    open_gr(s, ndds, false);
                    for (int q = 0; q < NIMG; q++)
                        if (s.im[q].exists) {
                            check_info(s, q, "after reopen");
                            read_region(s, q, 0, 0, 1, 1, s.im[q].w, s.im[q].h, (int)(i + (size_t)q) % 3, "whole image after reopen");
                            if (s.im[q].has_lut)
                                check_lut(s, q, (int)(i + (size_t)q + 1) % 3, "after reopen");
                        }
                    for (int q = 0; q < NLEG; q++)
                        if (s.leg[q].exists)
                            check_legacy(s, q, "after reopen");
                    close_gr(s);
                }
            }
            else
                done = false;
            if (done) {
                ctx.st.ops_done++;
                uint64_t h = 1469598103934665603ULL;
                for (int q = 0; q < NIMG; q++)
                    if (s.im[q].exists) {
                        size_t wn = 0;
                        for (auto x : s.im[q].wr)
                            wn += x;
                        h = fnv64i(((uint64_t)q << 48) | ((uint64_t)s.im[q].w << 40) | ((uint64_t)s.im[q].h << 32) | ((uint64_t)s.im[q].nc << 24) | wn, h);
                    }
                ctx.state(h);
            }
            else
                ctx.st.ops_skipped++;
        }
    }
};

Registrar reg(new Raster);

} // namespace
} // namespace h4
