// prof_ddmap.cc -- C12: the tag/ref directory is a faithful persistent map; new refs are never in use.
#include "hx.h"
#include <map>
#include <memory>
#include <set>

namespace h4 {
namespace {

const int    MAXCLIENT = 2;
const uint16 TAGS[]    = {8100, 8101, 8102, 40000, 40001, 8103};
const int    NTAGS     = 6;
const uint16 REFS[]    = {1, 2, 3, 4, 5, 100, 101, 65533, 65534, 65535};
const int    NREFS     = 10;

struct Obj {
    // descriptors made by Hdupdd deliberately share one stored byte range: writing through one name is seen
    // through the other, so the model shares the storage too
    std::shared_ptr<std::vector<uint8_t>> store = std::make_shared<std::vector<uint8_t>>();
    std::vector<uint8_t>                 &data() { return *store; }
    const std::vector<uint8_t>           &data() const { return *store; }
    bool                                  special = false; // stored as linked blocks
};
typedef std::pair<uint16, uint16> Key; // (base tag, ref)

struct DDMap : Profile {
    const char *name() const override { return "ddmap"; }
    const char *property() const override { return "C12"; }
    int         runs(bool thorough) const override { return thorough ? 200000 : 12000; }
    std::string rule() const override
    {
        return "each case = one generated plan (descriptor-block size 1..40, cache on/off and toggled, 20..120 "
               "create/delete/duplicate/reuse/search/count/new-ref ops over 6 tags x boundary refs by 1..2 clients, "
               "restarts) executed against a map (tag,ref)->bytes; non-trivial = >= 2 ops and >= 1 comparison; distinct "
               "= distinct plan text hash";
    }
    std::vector<std::string> assumptions() const override
    {
        return {"descriptors the library creates for itself (DFTAG_VERSION, DFTAG_LINKED pieces) are excluded from the "
                "set equality and included in the wildcard count through the library's own per-tag counts",
                "Hputelement on an existing object only with a length that fits (growth goes through HDreuse_tagref)"};
    }
    std::vector<std::string> required_probes() const override
    {
        return {"dd-blocks>1", "newref-after-wrap", "find-forward", "find-backward", "cache-toggle", "restart", "dup",
                "delete", "reuse", "special", "dup-onto-existing-refused", "dense-references-one-hole"};
    }

    Plan generate(Rng &rng, bool thorough, uint64_t) override
    {
        Plan p;
        p.seed             = rng.next();
        Rng kr             = rng.sub(1);
        p.knobs["ndds"]    = kr.chance(0.6) ? kr.range(1, 8) : kr.range(9, 40);
        p.knobs["cache"]   = (int64_t)kr.below(2);
        int nclients       = (int)kr.range(1, MAXCLIENT);
        p.knobs["clients"] = nclients;
        int   nops = (int)kr.range(20, thorough ? 160 : 100);
        Rng   r    = rng.sub(2);
        Sched sc(r, nclients);
        for (int c = 0; c < nclients; c++)
            p.ops.push_back(mkop(c, "open", {c == 0 ? 0 : 1}));
        static const std::vector<int> w     = {/*put*/ 30, /*del*/ 8, /*dup*/ 5, /*reuse*/ 4, /*newref*/ 6, /*tagnewref*/ 6,
                                               /*find*/ 8,  /*exist*/ 6, /*number*/ 5, /*length*/ 5, /*cache*/ 3,
                                               /*sync*/ 2,  /*restart*/ 3, /*special*/ 3, /*putnew*/ 8, /*read*/ 5, /*dense*/ 2};
        static const char            *names[] = {"put", "del", "dup", "reuse", "newref", "tagnewref", "find", "exist",
                                                 "number", "length", "cache", "sync", "restart", "special", "putnew", "read", "dense"};
        int ntags = (int)r.range(1, NTAGS), nrefs = (int)r.range(2, NREFS);
        for (int i = 0; i < nops; i++) {
            int         c = sc.next(r);
            int         k = r.weighted(w);
            int64_t     t = (int64_t)r.below((uint64_t)ntags), rf = (int64_t)r.below((uint64_t)nrefs);
            const char *n = names[k];
            switch (k) {
                case 0:
                    p.ops.push_back(mkop(c, n, {t, rf, 1 + r.sizeish(60), (int64_t)(r.next() >> 16)}));
                    break;
                case 1:
                case 7:
                case 9:
                case 15:
                    p.ops.push_back(mkop(c, n, {t, rf}));
                    break;
                case 2:
                    p.ops.push_back(mkop(c, n, {t, rf, (int64_t)r.below((uint64_t)ntags), (int64_t)r.below((uint64_t)nrefs)}));
                    break;
                case 3:
                    p.ops.push_back(mkop(c, n, {t, rf, 1 + r.sizeish(90), (int64_t)(r.next() >> 16)}));
                    break;
                case 4: // second argument odd: ask twice before using the number
                    p.ops.push_back(mkop(c, n, {0, (int64_t)r.below(2)}));
                    break;
                case 5:
                case 8:
                    p.ops.push_back(mkop(c, n, {r.chance(0.15) ? -1 : t}));
                    break;
                case 6:
                    p.ops.push_back(mkop(c, n, {r.chance(0.5) ? -1 : t, r.chance(0.7) ? -1 : rf, (int64_t)r.below(2)}));
                    break;
                case 10:
                    p.ops.push_back(mkop(c, n, {(int64_t)r.below(2)}));
                    break;
                case 11:
                    p.ops.push_back(mkop(c, n, {}));
                    break;
                case 12:
                    p.ops.push_back(mkop(c, n, {}));
                    for (int cc = 0; cc < nclients; cc++)
                        p.ops.push_back(mkop(cc, "open", {1}));
                    break;
                case 16: // tag, which block of eight references gets a single hole at its start
                    p.ops.push_back(mkop(c, n, {t, (int64_t)r.below(3)}));
                    break;
                case 13:
                    p.ops.push_back(mkop(c, n, {t % 3, rf, r.range(1, 8), r.range(1, 3), 1 + r.sizeish(40), (int64_t)(r.next() >> 16)}));
                    break;
                case 14: // create with a ref the library just handed out: 0 = Hnewref, 1 = Htagnewref
                    p.ops.push_back(mkop(c, n, {t, (int64_t)r.below(2), 1 + r.sizeish(30), (int64_t)(r.next() >> 16)}));
                    break;
            }
        }
        p.ops.push_back(mkop(0, "restart", {}));
        return p;
    }

    struct S {
        Ctx               &ctx;
        std::map<Key, Obj> m;
        int32              fid[MAXCLIENT];
        bool               open[MAXCLIENT];
        bool               on_disk = false;
        int                nclients, ndds;
        explicit S(Ctx &c) : ctx(c) {}
    };
    static bool lib_tag(uint16 t)
    {
        uint16 b = (t & 0x8000) ? t : (uint16)(t & ~0x4000);
        return b == DFTAG_VERSION || b == DFTAG_LINKED || b == DFTAG_NULL || b == DFTAG_FREE;
    }
    static uint16 base(uint16 t) { return (t & 0x8000) ? t : (uint16)(t & ~0x4000); }

    // enumerate with Hfind in one direction; every live entry exactly once
    void enumerate(S &s, int32 fid, int64_t tsel, int64_t rsel, int dir, const char *when)
    {
        uint16 st = tsel < 0 ? DFTAG_WILDCARD : TAGS[modn(tsel, NTAGS)];
        uint16 sr = rsel < 0 ? DFREF_WILDCARD : REFS[modn(rsel, NREFS)];
        std::set<Key> seen;
        uint16        ft = 0, fr = 0;
        int32         off, len;
        int           guard = 0;
        if (st != DFTAG_WILDCARD && sr != DFREF_WILDCARD) {
            // exact lookup, not an enumeration: one call, found iff live
            intn r = Hfind(fid, st, sr, &ft, &fr, &off, &len, dir == 0 ? DF_FORWARD : DF_BACKWARD);
            s.ctx.st.checks++;
            bool live = s.m.count(Key(st, sr)) != 0;
            if ((r != FAIL) != live)
                s.ctx.fail("exist-mismatch", "exist-mismatch:find", strf("exact Hfind(%u/%u) = %d, model says %s", st, sr, (int)r, live ? "live" : "absent"));
            if (r != FAIL && (base(ft) != st || fr != sr))
                s.ctx.fail("find-wrong", "find-wrong:exact", strf("exact Hfind(%u/%u) returned %u/%u", st, sr, ft, fr));
            return;
        }
        while (Hfind(fid, st, sr, &ft, &fr, &off, &len, dir == 0 ? DF_FORWARD : DF_BACKWARD) != FAIL) {
            if (++guard > 300000)
                s.ctx.fail("find-loop", "find-loop", "Hfind enumeration does not terminate");
            s.ctx.tr(((uint64_t)ft << 16) | fr);
            if (lib_tag(ft))
                continue;
            Key k(base(ft), fr);
            if (!seen.insert(k).second)
                s.ctx.fail("find-duplicate", strf("find-duplicate:dir%d", dir),
                           strf("Hfind (%s, tag %d ref %d, %s) returned %u/%u twice", when, (int)tsel, (int)rsel,
                                dir ? "backward" : "forward", k.first, k.second));
            auto it = s.m.find(k);
            if (it == s.m.end())
                s.ctx.fail("find-ghost", strf("find-ghost:dir%d", dir),
                           strf("Hfind (%s, %s) returned %u/%u which is not a live object", when,
                                dir ? "backward" : "forward", k.first, k.second));
            if (st != DFTAG_WILDCARD && base(ft) != st)
                s.ctx.fail("find-wrong", "find-wrong:tag", strf("Hfind for tag %u returned tag %u", st, ft));
            if (sr != DFREF_WILDCARD && fr != sr)
                s.ctx.fail("find-wrong", "find-wrong:ref", strf("Hfind for ref %u returned ref %u", sr, fr));
            if (!it->second.special && len != (int32)it->second.data().size())
                s.ctx.fail("length-mismatch", "length-mismatch:find",
                           strf("Hfind reports length %d for %u/%u, model %zu", (int)len, k.first, k.second,
                                it->second.data().size()));
        }
        size_t expect = 0;
        for (auto &kv : s.m)
            if ((st == DFTAG_WILDCARD || kv.first.first == st) && (sr == DFREF_WILDCARD || kv.first.second == sr)) {
                expect++;
                if (!seen.count(kv.first))
                    s.ctx.fail("find-missed", strf("find-missed:dir%d", dir),
                               strf("Hfind (%s, tag sel %d, ref sel %d, %s) never returned the live object %u/%u (%zu live)",
                                    when, (int)tsel, (int)rsel, dir ? "backward" : "forward", kv.first.first,
                                    kv.first.second, s.m.size()));
            }
        s.ctx.st.checks++;
        s.ctx.probe(dir ? "find-backward" : "find-forward");
        (void)expect;
    }

    void counts(S &s, int32 fid, const char *when)
    {
        std::map<uint16, int> per;
        for (auto &kv : s.m)
            per[kv.first.first]++;
        for (int i = 0; i < NTAGS; i++) {
            int32 n = Hnumber(fid, TAGS[i]);
            s.ctx.tr((uint64_t)n);
            s.ctx.st.checks++;
            if (n != per[TAGS[i]])
                s.ctx.fail("count-mismatch", "count-mismatch:number",
                           strf("Hnumber(tag %u) = %d, model %d (%s)", TAGS[i], (int)n, per[TAGS[i]], when));
        }
        int32 all = Hnumber(fid, DFTAG_WILDCARD);
        int32 lib = Hnumber(fid, DFTAG_VERSION) + Hnumber(fid, DFTAG_LINKED);
        if (all != (int32)s.m.size() + lib)
            s.ctx.fail("count-mismatch", "count-mismatch:wildcard",
                       strf("Hnumber(wildcard) = %d, model %zu + %d library descriptors (%s)", (int)all, s.m.size(),
                            (int)lib, when));
    }

    void check_obj(S &s, int32 fid, const Key &k, const Obj &o, const char *when)
    {
        s.ctx.st.checks++;
        if (Hexist(fid, k.first, k.second) == FAIL)
            s.ctx.fail("lost-object", "lost-object", strf("%u/%u is live in the model but Hexist fails (%s)", k.first, k.second, when));
        int32 len = Hlength(fid, k.first, k.second);
        if (len != (int32)o.data().size())
            s.ctx.fail("length-mismatch", "length-mismatch:Hlength",
                       strf("Hlength(%u/%u) = %d, model %zu (%s)", k.first, k.second, (int)len, o.data().size(), when));
        std::vector<uint8_t> buf(o.data().size() + 16, 0xA5);
        int32                n = Hgetelement(fid, k.first, k.second, buf.data());
        s.ctx.tr((uint64_t)n);
        if (n != (int32)o.data().size() || memcmp(buf.data(), o.data().data(), o.data().size()) != 0)
            s.ctx.fail("data-mismatch", "data-mismatch",
                       strf("Hgetelement(%u/%u) returned %d bytes %s, model %zu bytes %s (%s)", k.first, k.second, (int)n,
                            hexs(buf.data(), n > 0 ? (size_t)n : 0).c_str(), o.data().size(),
                            hexs(o.data().data(), o.data().size()).c_str(), when));
    }

    void verify_all(S &s, int32 fid, const char *when)
    {
        for (auto &kv : s.m)
            check_obj(s, fid, kv.first, kv.second, when);
        counts(s, fid, when);
        enumerate(s, fid, -1, -1, 0, when);
        enumerate(s, fid, -1, -1, 1, when);
        // absent combinations are absent
        for (int i = 0; i < NTAGS; i++)
            for (int j = 0; j < NREFS; j++)
                if (!s.m.count(Key(TAGS[i], REFS[j])) && Hexist(fid, TAGS[i], REFS[j]) != FAIL)
                    s.ctx.fail("ghost-object", "ghost-object",
                               strf("%u/%u exists in the file but not in the model (%s)", TAGS[i], REFS[j], when));
    }

    void state_hash(S &s)
    {
        uint64_t h = 1469598103934665603ULL;
        for (auto &kv : s.m)
            h = fnv64i(((uint64_t)kv.first.first << 32) | ((uint64_t)kv.first.second << 8) | kv.second.special, h);
        s.ctx.state(h);
    }

    bool ref_used_anywhere(S &s, uint16 r)
    {
        for (auto &kv : s.m)
            if (kv.first.second == r)
                return true;
        return false;
    }

    void execute(Ctx &ctx) override
    {
        S           s(ctx);
        const Plan &p = ctx.plan;
        s.nclients    = (int)std::min<int64_t>(MAXCLIENT, std::max<int64_t>(1, p.knob("clients", 1)));
        s.ndds        = (int)p.knob("ndds", 16);
        for (int c = 0; c < MAXCLIENT; c++)
            s.open[c] = false;
        const std::string path = "/sim/dd.hdf";
        bool              cache0 = p.knob("cache", 1) != 0;
        uint16            last_newref = 0;

        for (size_t i = 0; i < p.ops.size(); i++) {
            const Op &o = p.ops[i];
            ctx.begin_op((int)i);
            int                c    = modn(o.client, s.nclients);
            const std::string &k    = o.kind;
            bool               done = true;
            int32              fid  = s.open[c] ? s.fid[c] : FAIL;
            if (k == "open" || k == "restart")
                last_newref = 0; // the file record may be a new one
            if (k == "open") {
                if (s.open[c])
                    done = false;
                else {
                    int acc  = !s.on_disk ? DFACC_CREATE : DFACC_RDWR;
                    s.fid[c] = Hopen(path.c_str(), acc, (int16)s.ndds);
                    if (s.fid[c] == FAIL)
                        ctx.fail("open-failed", "open-failed", strf("Hopen(%d) failed: %s", acc, HEstring((hdf_err_code_t)HEvalue(1))));
                    if (!s.on_disk && !cache0)
                        Hcache(s.fid[c], 0);
                    s.on_disk = true;
                    s.open[c] = true;
                }
            }
            else if (k == "restart") {
                for (int cc = 0; cc < MAXCLIENT; cc++)
                    if (s.open[cc]) {
                        if (Hclose(s.fid[cc]) == FAIL)
                            ctx.fail("close-failed", "close-failed", "Hclose failed with no access ids open");
                        s.open[cc] = false;
                    }
                ctx.probe("restart");
                if (s.on_disk) {
                    int32 f = Hopen(path.c_str(), DFACC_READ, 0);
                    if (f == FAIL)
                        ctx.fail("reopen-failed", "reopen-failed", strf("Hopen(READ) after clean close failed: %s", HEstring((hdf_err_code_t)HEvalue(1))));
                    verify_all(s, f, "after reopen");
                    Hclose(f);
                }
            }
            else if (fid == FAIL)
                done = false;
            else if (k == "put") {
                Key  key(TAGS[modn(o.arg(0), NTAGS)], REFS[modn(o.arg(1), NREFS)]);
                auto it  = s.m.find(key);
                int64_t len = std::max<int64_t>(1, o.arg(2));
                if (it != s.m.end() && (it->second.special || len > (int64_t)it->second.data().size()))
                    done = false;
                else {
                    std::vector<uint8_t> d = data_block((uint64_t)o.arg(3), (size_t)len);
                    int32                n = Hputelement(fid, key.first, key.second, d.data(), (int32)len);
                    ctx.tr((uint64_t)n);
                    if (n != (int32)len)
                        ctx.fail("put-refused", "put-refused",
                                 strf("Hputelement(%u/%u, %lld) returned %d: %s", key.first, key.second, (long long)len, (int)n,
                                      HEstring((hdf_err_code_t)HEvalue(1))));
                    Obj &ob = s.m[key];
                    if (ob.data().size() < (size_t)len)
                        ob.data().resize((size_t)len);
                    memcpy(ob.data().data(), d.data(), (size_t)len);
                }
            }
            else if (k == "putnew") {
                uint16 tag = TAGS[modn(o.arg(0), NTAGS)];
                uint16 r   = modn(o.arg(1), 2) == 0 ? Hnewref(fid) : Htagnewref(fid, tag);
                ctx.tr(r);
                if (r == 0)
                    ctx.fail("ref-exhausted", "ref-exhausted", "a new reference number was refused although free ones exist");
                if (modn(o.arg(1), 2) == 0)
                    last_newref = r; // (the number handed out last by the general allocator)
                Key key(tag, r);
                if (s.m.count(key))
                    ctx.fail("ref-in-use", "ref-in-use:putnew", strf("new ref %u for tag %u is already in use", r, tag));
                int64_t              len = std::max<int64_t>(1, o.arg(2));
                std::vector<uint8_t> d   = data_block((uint64_t)o.arg(3), (size_t)len);
                if (Hputelement(fid, tag, r, d.data(), (int32)len) != (int32)len)
                    ctx.fail("put-refused", "put-refused:new", strf("Hputelement(%u/%u) with a fresh ref failed", tag, r));
                s.m[key].data() = d;
            }
            else if (k == "dense") {
                // every reference of one tag up to 8k+7 in use except 8k itself: the one free number is the first of its
                // group of eight, all lower numbers are taken -- Htagnewref has to find exactly that kind of hole
                uint16 tag = TAGS[modn(o.arg(0), NTAGS)];
                int    kk  = 1 + modn(o.arg(1), 3), hole = 8 * kk, top = hole + 7;
                auto   hit = s.m.find(Key(tag, (uint16)hole));
                if (hit != s.m.end() && hit->second.special)
                    done = false;
                else {
                    uint8_t three[3] = {7, 7, 7};
                    for (int rr = 1; rr <= top; rr++) {
                        Key key(tag, (uint16)rr);
                        if (rr == hole || s.m.count(key))
                            continue;
                        three[0] = (uint8_t)rr;
                        if (Hputelement(fid, tag, (uint16)rr, three, 3) != 3)
                            ctx.fail("put-refused", "put-refused:dense", strf("Hputelement(%u/%d) failed: %s", tag, rr, herr().c_str()));
                        Obj &ob = s.m[key];
                        ob.data().assign(three, three + 3);
                    }
                    if (hit != s.m.end()) {
                        if (Hdeldd(fid, tag, (uint16)hole) == FAIL)
                            ctx.fail("delete-refused", "delete-refused:dense", strf("Hdeldd(%u/%d) failed", tag, hole));
                        s.m.erase(Key(tag, (uint16)hole));
                    }
                    uint16 got = Htagnewref(fid, tag);
                    ctx.tr(got);
                    ctx.st.checks++;
                    if (got == 0 || s.m.count(Key(tag, got)) || Hexist(fid, tag, got) != FAIL)
                        ctx.fail("ref-in-use", "ref-in-use:tagnewref-dense",
                                 strf("references 1..%d of tag %u are in use except %d: Htagnewref returned %u, which is %s", top, tag, hole, got, got ? "in use" : "no reference at all"));
                    ctx.probe("dense-references-one-hole");
                }
            }
            else if (k == "del") {
                Key key(TAGS[modn(o.arg(0), NTAGS)], REFS[modn(o.arg(1), NREFS)]);
                intn r = Hdeldd(fid, key.first, key.second);
                ctx.tr((uint64_t)r);
                if (s.m.count(key)) {
                    if (r == FAIL)
                        ctx.fail("delete-refused", "delete-refused", strf("Hdeldd(%u/%u) of a live object failed", key.first, key.second));
                    s.m.erase(key);
                    ctx.probe("delete");
                }
                else if (r != FAIL)
                    ctx.fail("delete-ghost", "delete-ghost", strf("Hdeldd(%u/%u) succeeded but there is no such object", key.first, key.second));
            }
            else if (k == "dup") {
                Key src(TAGS[modn(o.arg(0), NTAGS)], REFS[modn(o.arg(1), NREFS)]);
                Key dst(TAGS[modn(o.arg(2), NTAGS)], REFS[modn(o.arg(3), NREFS)]);
                auto it = s.m.find(src);
                if (it != s.m.end() && !it->second.special && s.m.count(dst) && !(dst == src)) {
                    // the new name is taken: refused, and neither entry (nor anything else of that tag) is affected -- the
                    // map checks that follow every step see to that
                    if (Hdupdd(fid, dst.first, dst.second, src.first, src.second) != FAIL)
                        ctx.fail("dup-accepted", "dup-accepted:name-in-use", strf("Hdupdd(%u/%u <- %u/%u) succeeds although %u/%u exists", dst.first, dst.second, src.first, src.second, dst.first, dst.second));
                    ctx.probe("dup-onto-existing-refused");
                }
                else if (it == s.m.end() && !s.m.count(dst) && !lib_tag(src.first)) {
                    // there is nothing to duplicate: refused, and the new name does not appear (the map checks that follow
                    // every step would see a descriptor left behind)
                    if (Hdupdd(fid, dst.first, dst.second, src.first, src.second) != FAIL)
                        ctx.fail("dup-accepted", "dup-accepted:no-source", strf("Hdupdd(%u/%u <- %u/%u) succeeds although %u/%u does not exist", dst.first, dst.second, src.first, src.second, src.first, src.second));
                    if (Hexist(fid, dst.first, dst.second) != FAIL)
                        ctx.fail("exist-mismatch", "exist-mismatch:after-refused-dup", strf("the refused Hdupdd(%u/%u <- %u/%u) left %u/%u in the directory", dst.first, dst.second, src.first, src.second, dst.first, dst.second));
                    ctx.probe("dup-without-source-refused");
                }
                else if (it == s.m.end() || it->second.special || s.m.count(dst))
                    done = false;
                else {
                    intn r = Hdupdd(fid, dst.first, dst.second, src.first, src.second);
                    ctx.tr((uint64_t)r);
                    if (r == FAIL)
                        ctx.fail("dup-refused", "dup-refused", strf("Hdupdd(%u/%u <- %u/%u) failed", dst.first, dst.second, src.first, src.second));
                    s.m[dst] = it->second;
                    ctx.probe("dup");
                }
            }
            else if (k == "reuse") {
                Key  key(TAGS[modn(o.arg(0), NTAGS)], REFS[modn(o.arg(1), NREFS)]);
                auto it = s.m.find(key);
                if (it == s.m.end() || it->second.special)
                    done = false;
                else {
                    int64_t len = std::max<int64_t>(1, o.arg(2));
                    if (HDreuse_tagref(fid, key.first, key.second) == FAIL)
                        ctx.fail("reuse-refused", "reuse-refused", strf("HDreuse_tagref(%u/%u) failed", key.first, key.second));
                    std::vector<uint8_t> d = data_block((uint64_t)o.arg(3), (size_t)len);
                    if (Hputelement(fid, key.first, key.second, d.data(), (int32)len) != (int32)len)
                        ctx.fail("put-refused", "put-refused:reuse", strf("Hputelement after HDreuse_tagref(%u/%u) failed", key.first, key.second));
                    it->second.store = std::make_shared<std::vector<uint8_t>>(d); // new storage, no longer shared
                    ctx.probe("reuse");
                }
            }
            else if (k == "special") {
                Key key(TAGS[modn(o.arg(0), 3)], REFS[modn(o.arg(1), NREFS)]);
                if (s.m.count(key))
                    done = false;
                else {
                    int32 aid = HLcreate(fid, key.first, key.second, (int32)std::max<int64_t>(1, o.arg(2)), (int32)std::max<int64_t>(1, o.arg(3)));
                    if (aid == FAIL)
                        ctx.fail("put-refused", "put-refused:special", strf("HLcreate(%u/%u) failed", key.first, key.second));
                    int64_t              len = std::max<int64_t>(1, o.arg(4));
                    std::vector<uint8_t> d   = data_block((uint64_t)o.arg(5), (size_t)len);
                    if (Hwrite(aid, (int32)len, d.data()) != (int32)len || Hendaccess(aid) == FAIL)
                        ctx.fail("put-refused", "put-refused:special-write", "writing a new linked-block element failed");
                    Obj &ob    = s.m[key];
                    ob.data()  = d;
                    ob.special = true;
                    ctx.probe("special");
                }
            }
            else if (k == "newref" || k == "tagnewref") {
                bool   general = k == "newref";
                uint16 tag     = o.arg(0) < 0 ? DFTAG_WILDCARD : TAGS[modn(o.arg(0), NTAGS)];
                if (!general && tag == DFTAG_WILDCARD)
                    tag = TAGS[0];
                uint16 r = general ? Hnewref(fid) : Htagnewref(fid, tag);
                ctx.tr(r);
                ctx.st.checks++;
                // the number the general allocator handed out last has not been used by anybody: it is not handed out again
                if (general && r != 0 && r == last_newref && !ref_used_anywhere(s, r) && s.m.size() < 60000)
                    ctx.fail("ref-in-use", "ref-in-use:issued-twice",
                             strf("Hnewref returned %u again: whoever got it the time before has not stored its object yet", r));
                if (general)
                    last_newref = r;
                if (r == 0)
                    ctx.fail("ref-exhausted", "ref-exhausted:" + k, "0 returned although free reference numbers exist");
                if (general) {
                    // file-wide: no object of any tag may carry it
                    if (ref_used_anywhere(s, r) || Hexist(fid, DFTAG_WILDCARD, r) != FAIL)
                        ctx.fail("ref-in-use", "ref-in-use:newref", strf("Hnewref returned %u which is in use", r));
                    bool wrapped = false;
                    for (auto &kv : s.m)
                        wrapped |= kv.first.second == 65535;
                    if (wrapped)
                        ctx.probe("newref-after-wrap");
                    // A caller may hold the number for a while before it stores its object (the SD interface reserves the
                    // reference of a dataset at SDcreate and stores it at SDend): asked again meanwhile, the allocator has to
                    // hand out another number as long as there is one.
                    if (o.arg(1) % 2 == 1) {
                        uint16 r2 = Hnewref(fid);
                        ctx.tr(r2);
                        ctx.st.checks++;
                        if (r2 == 0)
                            ctx.fail("ref-exhausted", "ref-exhausted:" + k, "0 returned although free reference numbers exist");
                        if (ref_used_anywhere(s, r2) || Hexist(fid, DFTAG_WILDCARD, r2) != FAIL)
                            ctx.fail("ref-in-use", "ref-in-use:newref", strf("Hnewref returned %u which is in use", r2));
                        if (r2 == r && s.m.size() < 60000) // (with one free number left there is nothing else to hand out)
                            ctx.fail("ref-in-use", "ref-in-use:issued-twice",
                                     strf("two successive calls of Hnewref both returned %u: whoever got it first has not stored its object yet", r));
                        last_newref = r2;
                        if (wrapped)
                            ctx.probe("newref-twice-after-wrap");
                    }
                }
                else if (s.m.count(Key(tag, r)) || Hexist(fid, tag, r) != FAIL)
                    ctx.fail("ref-in-use", "ref-in-use:tagnewref", strf("Htagnewref(%u) returned %u which is in use", tag, r));
            }
            else if (k == "find")
                enumerate(s, fid, o.arg(0), o.arg(1), modn(o.arg(2), 2), "in session");
            else if (k == "exist") {
                Key  key(TAGS[modn(o.arg(0), NTAGS)], REFS[modn(o.arg(1), NREFS)]);
                intn r = Hexist(fid, key.first, key.second);
                ctx.tr((uint64_t)r);
                ctx.st.checks++;
                if ((r != FAIL) != (s.m.count(key) != 0))
                    ctx.fail("exist-mismatch", "exist-mismatch",
                             strf("Hexist(%u/%u) = %d, model says %s", key.first, key.second, (int)r, s.m.count(key) ? "live" : "absent"));
            }
            else if (k == "number")
                counts(s, fid, "in session");
            else if (k == "length" || k == "read") {
                Key  key(TAGS[modn(o.arg(0), NTAGS)], REFS[modn(o.arg(1), NREFS)]);
                auto it = s.m.find(key);
                if (it == s.m.end()) {
                    ctx.st.checks++;
                    if (Hlength(fid, key.first, key.second) != FAIL)
                        ctx.fail("ghost-object", "ghost-object:length", strf("Hlength(%u/%u) succeeds for an absent object", key.first, key.second));
                }
                else
                    check_obj(s, fid, key, it->second, "in session");
            }
            else if (k == "cache") {
                if (Hcache(fid, (intn)modn(o.arg(0), 2)) == FAIL)
                    ctx.fail("sync-failed", "sync-failed:cache", "Hcache failed");
                ctx.probe("cache-toggle");
            }
            else if (k == "sync") {
                if (Hsync(fid) == FAIL)
                    ctx.fail("sync-failed", "sync-failed:sync", "Hsync failed");
            }
            else
                done = false;
            if (done) {
                ctx.st.ops_done++;
                state_hash(s);
                if ((int)s.m.size() + 1 > s.ndds)
                    ctx.probe("dd-blocks>1");
            }
            else
                ctx.st.ops_skipped++;
        }
        (void)last_newref;
    }
};

Registrar reg(new DDMap);

} // namespace
} // namespace h4
