// prof_attrs.cc -- C10: attributes and descriptive metadata are returned exactly as last set.
#include "hx.h"

namespace h4 {
namespace {

struct AT {
    int32 code;
    int   size;
    int   cls;
};
const AT  ATS[] = {{DFNT_INT8, 1, 0},   {DFNT_UINT8, 1, 0},   {DFNT_INT16, 2, 0},   {DFNT_UINT16, 2, 0}, {DFNT_INT32, 4, 0},
                   {DFNT_UINT32, 4, 0}, {DFNT_FLOAT32, 4, 2}, {DFNT_FLOAT64, 8, 3}, {DFNT_CHAR8, 1, 1}, {DFNT_UCHAR8, 1, 1}};
const int NAT   = 10; // the two character types come last: datasets and scales take the first NAT - 2
// names with common prefixes on purpose
const char *NAMES[] = {"att", "att_x", "a", "units_si", "valid_range_src", "scale_factor_err_x", "Zeta", "long_name_2"};
const int   NNAMES  = 8;

static void avalue(const AT &t, uint64_t ds, uint64_t n, uint8_t *out)
{
    uint64_t w = mix64(ds, n);
    switch (t.cls) {
        case 2: {
            float f = (float)(int32)(w % 200001) - 100000.0f;
            memcpy(out, &f, 4);
            break;
        }
        case 3: {
            double f = (double)(int64_t)(w % 2000000001ULL) - 1000000000.0;
            memcpy(out, &f, 8);
            break;
        }
        case 1:
            out[0] = (uint8_t)('!' + w % 90);
            break;
        default:
            memcpy(out, &w, (size_t)t.size);
    }
}

struct MAttr {
    std::string          name;
    int32                type  = 0;
    int32                count = 0;
    std::vector<uint8_t> val;
    bool                 opaque = false; // value checked through its dedicated getter only
};
struct MObj {
    std::vector<MAttr> at;
    int                find(const std::string &n) const
    {
        for (size_t i = 0; i < at.size(); i++)
            if (at[i].name == n)
                return (int)i;
        return -1;
    }
    void put(const std::string &n, int32 type, int32 count, const void *v, bool opaque = false)
    {
        int   i = find(n);
        MAttr a;
        a.name   = n;
        a.type   = type;
        a.count  = count;
        a.opaque = opaque;
        a.val.assign((const uint8_t *)v, (const uint8_t *)v + (size_t)count * (size_t)DFKNTsize(type | DFNT_NATIVE));
        if (i >= 0)
            at[(size_t)i] = a; // index kept
        else
            at.push_back(a);
    }
};

// object kinds
enum { K_SDFILE = 0, K_SDS, K_DIM, K_GRFILE, K_IMG, K_VS, K_VSFIELD, K_VG, NKINDS };
const int NSDS = 2;

struct MSds {
    bool        exists = false;
    int         rank = 1, nt = 4;
    int32       dims[2] = {3, 2};
    std::string dimname[2];
    bool        scale[2] = {false, false};
    int         scale_nt[2] = {4, 4};
    std::vector<uint8_t> scale_val[2];
    MObj        attrs, dimattrs[2];
    int32       ref = 0;
};

struct Attrs : Profile {
    const char *name() const override { return "attrs"; }
    const char *property() const override { return "C10"; }
    int         runs(bool thorough) const override { return thorough ? 150000 : 8000; }
    std::string rule() const override
    {
        return "each case = one generated plan of 20..80 ops: set/re-set attributes (9 number types, counts 1..3000, names "
               "with common prefixes) on SD file/dataset/dimension, GR file/image, Vdata/field and Vgroup, the predefined "
               "SD metadata (data strings, calibration, range, fill value, dimension names/scales/strings), creation of "
               "further objects in between, name/index/ref lookups, reopen in read and in write mode; oracle = ordered "
               "attribute-map model (replace keeps the index; a refused re-set leaves the old value); non-trivial = >= 2 "
               "ops and >= 1 comparison";
    }
    std::vector<std::string> assumptions() const override
    {
        return {"dimensions keep distinct names (sharing a dimension between datasets by name is not exercised)",
                "a re-set that changes type or count may be refused; with the same type and count it must succeed"};
    }
    std::vector<std::string> required_probes() const override
    {
        return {"replace", "replace-type-change", "large-attr", "prefix-names", "dim-attr", "dimscale", "cal", "range", "datastrs",
                "gr-attr", "vs-attr", "vsfield-attr", "vg-attr", "restart", "restart-write", "dim-renamed-with-metadata", "dimscale-retype-refused",
                "dimscale-retype-accepted", "dimname-prefix-family", "dimname-word-permutation-pair", "shared-dimension", "shared-dimension-first", "unnamed-dimension-in-later-session", "dimname-conflict-refused", "dimscale-wrong-count-refused"};
    }

    Plan generate(Rng &rng, bool thorough, uint64_t) override
    {
        Plan p;
        p.seed = rng.next();
        Rng r  = rng.sub(2);
        int nops = (int)r.range(20, thorough ? 120 : 80);
        auto cnt = [&]() -> int64_t { return r.chance(0.06) ? r.range(500, 3000) : r.chance(0.3) ? 1 : r.range(2, 20); };
        static const std::vector<int> w     = {/*set*/ 40, /*check*/ 16, /*sdsnew*/ 4, /*datastrs*/ 4, /*cal*/ 3, /*range*/ 3, /*fill*/ 3,
                                               /*dimname*/ 3, /*dimscale*/ 3, /*dimstrs*/ 3, /*lookup*/ 5, /*restart*/ 5, /*other*/ 3};
        static const char            *names[] = {"set", "check", "sdsnew", "datastrs", "cal", "range", "fill", "dimname", "dimscale", "dimstrs",
                                                 "lookup", "restart", "other"};
        p.ops.push_back(mkop(0, "sdsnew", {0, 2, 4, 3, 2}));
        for (int i = 0; i < nops; i++) {
            int k = r.weighted(w);
            int64_t kind = (int64_t)r.below(NKINDS), obj = (int64_t)r.below(2), sub = (int64_t)r.below(2);
            switch (k) {
                case 0:
                    p.ops.push_back(mkop(0, names[k], {kind, obj, sub, (int64_t)r.below(NNAMES), (int64_t)r.below(NAT), cnt(), (int64_t)(r.next() >> 16), r.chance(0.2) ? 1 : 0})); // last: stored low byte first (Vdata/Vgroup attributes)
                    break;
                case 1:
                    p.ops.push_back(mkop(0, names[k], {kind, obj, sub}));
                    break;
                case 2:
                    p.ops.push_back(mkop(0, names[k], {obj, r.range(1, 2), (int64_t)r.below(NAT - 2), r.range(1, 4), r.range(1, 3)}));
                    break;
                case 3:
                    p.ops.push_back(mkop(0, names[k], {obj, (int64_t)r.below(16), (int64_t)(r.next() >> 16)}));
                    break;
                case 4:
                case 5:
                case 6:
                    p.ops.push_back(mkop(0, names[k], {obj, (int64_t)(r.next() >> 16)}));
                    break;
                case 7:
                    p.ops.push_back(mkop(0, names[k], {obj, sub, (int64_t)r.below(4)}));
                    break;
                case 8:
                    p.ops.push_back(mkop(0, names[k], {obj, sub, (int64_t)r.below(NAT - 2), (int64_t)(r.next() >> 16)}));
                    break;
                case 9:
                    p.ops.push_back(mkop(0, names[k], {obj, sub, (int64_t)r.below(8), (int64_t)(r.next() >> 16)}));
                    break;
                case 10:
                    p.ops.push_back(mkop(0, names[k], {}));
                    break;
                case 11:
                    p.ops.push_back(mkop(0, names[k], {(int64_t)r.below(2)}));
                    break;
                case 12:
                    p.ops.push_back(mkop(0, names[k], {(int64_t)r.below(1000)}));
                    break;
            }
        }
        p.ops.push_back(mkop(0, "restart", {0}));
        return p;
    }

    struct S {
        Ctx  &ctx;
        // SD file
        int32 sd = FAIL;
        bool  sd_on_disk = false, sd_write = true;
        MObj  sdfile;
        MSds  sds[NSDS];
        // H/V/GR file
        int32 fid = FAIL, gr = FAIL, ri = FAIL, vs = FAIL, vg = FAIL;
        bool  hv_on_disk = false, hv_write = true;
        MObj  grfile, img, vsobj, vsfield[2], vgobj;
        int32 vsref = 0, vgref = 0;
        int   uniq = 0;
        int   us_stage = 0; // the unlimited-dimension-with-a-scale scenario (see unlimscale)
        int   fk_stage = 0, fk_sessions = 0; // the unnamed-dimension scenario (see fakedims) and the sessions since it began
        explicit S(Ctx &c) : ctx(c) {}
    };
    const std::string sdpath = "/sim/at_sd.hdf", hvpath = "/sim/at_hv.hdf";

    // ---------------------------------------------------------------- sessions
    void open_sd(S &s)
    {
        if (s.sd != FAIL)
            return;
        s.sd = SDstart(sdpath.c_str(), !s.sd_on_disk ? DFACC_CREATE : s.sd_write ? DFACC_RDWR : DFACC_READ);
        if (s.sd == FAIL)
            s.ctx.fail("open-failed", "open-failed:sd", "SDstart failed");
        s.sd_on_disk = true;
    }
    void open_hv(S &s)
    {
        if (s.fid != FAIL)
            return;
        bool creating = !s.hv_on_disk;
        s.fid = Hopen(hvpath.c_str(), creating ? DFACC_CREATE : s.hv_write ? DFACC_RDWR : DFACC_READ, 0);
        if (s.fid == FAIL || Vstart(s.fid) == FAIL || (s.gr = GRstart(s.fid)) == FAIL)
            s.ctx.fail("open-failed", "open-failed:hv", "Hopen/Vstart/GRstart failed");
        s.hv_on_disk = true;
        if (creating) {
            int32 dims[2] = {3, 2};
            uint8 px[6]   = {1, 2, 3, 4, 5, 6};
            int32 start[2] = {0, 0};
            s.ri = GRcreate(s.gr, "attimg", 1, DFNT_UINT8, MFGR_INTERLACE_PIXEL, dims);
            if (s.ri == FAIL || GRwriteimage(s.ri, start, NULL, dims, px) == FAIL)
                s.ctx.fail("create-refused", "create-refused:img", "GRcreate/GRwriteimage failed");
            s.vs = VSattach(s.fid, -1, "w");
            int32 rec[4] = {1, 2, 3, 4};
            if (s.vs == FAIL || VSfdefine(s.vs, "fa", DFNT_INT32, 1) == FAIL || VSfdefine(s.vs, "fb", DFNT_INT32, 1) == FAIL ||
                VSsetname(s.vs, "attvs") == FAIL || VSsetfields(s.vs, "fa,fb") == FAIL || VSwrite(s.vs, (uint8 *)rec, 2, FULL_INTERLACE) != 2)
                s.ctx.fail("create-refused", "create-refused:vs", "creating the Vdata failed");
            s.vsref = VSQueryref(s.vs);
            s.vg    = Vattach(s.fid, -1, "w");
            if (s.vg == FAIL || Vsetname(s.vg, "attvg") == FAIL)
                s.ctx.fail("create-refused", "create-refused:vg", "creating the Vgroup failed");
            s.vgref = VQueryref(s.vg);
        }
        else {
            int32 ix = GRnametoindex(s.gr, "attimg");
            s.ri     = ix == FAIL ? FAIL : GRselect(s.gr, ix);
            s.vs     = VSattach(s.fid, s.vsref, s.hv_write ? "w" : "r");
            s.vg     = Vattach(s.fid, s.vgref, s.hv_write ? "w" : "r");
            if (s.ri == FAIL || s.vs == FAIL || s.vg == FAIL)
                s.ctx.fail("lookup-failed", "lookup-failed:hv", "re-attaching the image/Vdata/Vgroup after reopen failed");
        }
    }
    void close_all(S &s)
    {
        if (s.sd != FAIL) {
            if (SDend(s.sd) == FAIL)
                s.ctx.fail("close-failed", "close-failed:sd", strf("SDend failed: %s", HEstring((hdf_err_code_t)HEvalue(1))));
            s.sd = FAIL;
        }
        if (s.fid != FAIL) {
            if (GRendaccess(s.ri) == FAIL || VSdetach(s.vs) == FAIL || Vdetach(s.vg) == FAIL || GRend(s.gr) == FAIL || Vend(s.fid) == FAIL ||
                Hclose(s.fid) == FAIL)
                s.ctx.fail("close-failed", "close-failed:hv", strf("closing the GR/V file failed: %s", HEstring((hdf_err_code_t)HEvalue(1))));
            s.fid = s.gr = s.ri = s.vs = s.vg = FAIL;
        }
    }

    int32 sds_id(S &s, int i)
    {
        int32 ix = SDnametoindex(s.sd, strf("var%d", i).c_str());
        if (ix == FAIL)
            s.ctx.fail("lookup-failed", "lookup-failed:nametoindex", strf("SDnametoindex(var%d) failed for an existing dataset", i));
        int32 id = SDselect(s.sd, ix);
        if (id == FAIL)
            s.ctx.fail("lookup-failed", "lookup-failed:select", "SDselect failed");
        return id;
    }

    // ---------------------------------------------------------------- generic attribute access per kind
    struct Ref {
        int   kind;
        int32 id;     // object id
        int32 findex; // VS field
        MObj *m;
        std::string what;
    };
    bool resolve(S &s, int kind, int obj, int sub, Ref &r)
    {
        r.kind   = kind;
        r.findex = 0;
        switch (kind) {
            case K_SDFILE:
                open_sd(s);
                r.id = s.sd;
                r.m  = &s.sdfile;
                r.what = "SD file";
                return true;
            case K_SDS:
            case K_DIM: {
                open_sd(s);
                MSds &d = s.sds[obj % NSDS];
                if (!d.exists)
                    return false;
                int32 id = sds_id(s, obj % NSDS);
                if (kind == K_SDS) {
                    r.id = id;
                    r.m  = &d.attrs;
                    r.what = strf("dataset var%d", obj % NSDS);
                }
                else {
                    int dn = sub % d.rank;
                    r.id   = SDgetdimid(id, dn);
                    if (r.id == FAIL)
                        s.ctx.fail("lookup-failed", "lookup-failed:dimid", "SDgetdimid failed");
                    r.m    = &d.dimattrs[dn];
                    r.what = strf("dimension %d of var%d", dn, obj % NSDS);
                }
                return true;
            }
            case K_GRFILE:
                open_hv(s);
                r.id = s.gr;
                r.m  = &s.grfile;
                r.what = "GR file";
                return true;
            case K_IMG:
                open_hv(s);
                r.id = s.ri;
                r.m  = &s.img;
                r.what = "raster image";
                return true;
            case K_VS:
                open_hv(s);
                r.id     = s.vs;
                r.findex = _HDF_VDATA;
                r.m      = &s.vsobj;
                r.what   = "Vdata";
                return true;
            case K_VSFIELD:
                open_hv(s);
                r.id     = s.vs;
                r.findex = sub % 2;
                r.m      = &s.vsfield[sub % 2];
                r.what   = strf("Vdata field %d", sub % 2);
                return true;
            case K_VG:
                open_hv(s);
                r.id = s.vg;
                r.m  = &s.vgobj;
                r.what = "Vgroup";
                return true;
        }
        return false;
    }
    intn a_set(const Ref &r, const char *n, int32 nt, int32 cnt, const void *v)
    {
        switch (r.kind) {
            case K_SDFILE:
            case K_SDS:
            case K_DIM:
                return SDsetattr(r.id, n, nt, cnt, v);
            case K_GRFILE:
            case K_IMG:
                return GRsetattr(r.id, n, nt, cnt, v);
            case K_VS:
            case K_VSFIELD:
                return VSsetattr(r.id, r.findex, n, nt, cnt, v);
            default:
                return Vsetattr(r.id, n, nt, cnt, v);
        }
    }
    int32 a_count(S &s, const Ref &r)
    {
        int32 a = 0, b = 0, dims[H4_MAX_VAR_DIMS], nt = 0, n = 0, rank = 0, il = 0;
        char  nm[256];
        switch (r.kind) {
            case K_SDFILE:
                return SDfileinfo(r.id, &a, &n) == FAIL ? FAIL : n;
            case K_SDS:
                return SDgetinfo(r.id, nm, &rank, dims, &nt, &n) == FAIL ? FAIL : n;
            case K_DIM:
                return SDdiminfo(r.id, nm, &a, &nt, &n) == FAIL ? FAIL : n;
            case K_GRFILE:
                return GRfileinfo(r.id, &a, &n) == FAIL ? FAIL : n;
            case K_IMG:
                return GRgetiminfo(r.id, nm, &a, &nt, &il, dims, &n) == FAIL ? FAIL : n;
            case K_VS:
            case K_VSFIELD:
                return VSfnattrs(r.id, r.findex);
            default:
                return Vnattrs(r.id);
        }
        (void)b;
        (void)s;
    }
    intn a_info(const Ref &r, int32 ix, char *n, int32 *nt, int32 *cnt)
    {
        int32 sz = 0;
        switch (r.kind) {
            case K_SDFILE:
            case K_SDS:
            case K_DIM:
                return SDattrinfo(r.id, ix, n, nt, cnt);
            case K_GRFILE:
            case K_IMG:
                return GRattrinfo(r.id, ix, n, nt, cnt);
            case K_VS:
            case K_VSFIELD:
                return VSattrinfo(r.id, r.findex, ix, n, nt, cnt, &sz);
            default:
                return Vattrinfo(r.id, ix, n, nt, cnt, &sz);
        }
    }
    intn a_read(const Ref &r, int32 ix, void *buf)
    {
        switch (r.kind) {
            case K_SDFILE:
            case K_SDS:
            case K_DIM:
                return SDreadattr(r.id, ix, buf);
            case K_GRFILE:
            case K_IMG:
                return GRgetattr(r.id, ix, buf);
            case K_VS:
            case K_VSFIELD:
                return VSgetattr(r.id, r.findex, ix, buf);
            default:
                return Vgetattr(r.id, ix, buf);
        }
    }
    int32 a_find(const Ref &r, const char *n)
    {
        switch (r.kind) {
            case K_SDFILE:
            case K_SDS:
            case K_DIM:
                return SDfindattr(r.id, n);
            case K_GRFILE:
            case K_IMG:
                return GRfindattr(r.id, n);
            case K_VS:
            case K_VSFIELD:
                return VSfindattr(r.id, r.findex, n);
            default:
                return Vfindattr(r.id, n);
        }
    }

    void check_obj(S &s, const Ref &r, const char *when)
    {
        Ctx  &ctx = s.ctx;
        MObj &m   = *r.m;
        ctx.st.checks++;
        int32 n = a_count(s, r);
        if (n != (int32)m.at.size())
            ctx.fail("attr-count", strf("attr-count:kind%d", r.kind),
                     strf("%s has %d attributes, model %zu (%s)", r.what.c_str(), (int)n, m.at.size(), when));
        for (size_t i = 0; i < m.at.size(); i++) {
            const MAttr &a = m.at[i];
            char         nm[H4_MAX_NC_NAME + 64] = "";
            int32        nt = 0, cnt = 0;
            if (a_info(r, (int32)i, nm, &nt, &cnt) == FAIL)
                ctx.fail("attr-info", strf("attr-info:kind%d", r.kind), strf("attribute %zu of %s: info call failed (%s)", i, r.what.c_str(), when));
            if (a.name != nm || (nt & 0x4fff) != (a.type & 0x4fff) || cnt != a.count)
                ctx.fail("attr-mismatch", strf("attr-mismatch:info:kind%d", r.kind),
                         strf("attribute %zu of %s is '%s' type %d count %d; model '%s' type %d count %d (%s)", i, r.what.c_str(), nm, (int)nt,
                              (int)cnt, a.name.c_str(), (int)a.type, (int)a.count, when));
            int32 fi = a_find(r, a.name.c_str());
            if (fi != (int32)i)
                ctx.fail("attr-mismatch", strf("attr-mismatch:find:kind%d", r.kind),
                         strf("lookup of attribute '%s' on %s gives index %d, it is attribute %zu (%s)", a.name.c_str(), r.what.c_str(), (int)fi, i, when));
            std::vector<uint8_t> buf(a.val.size() + 32, 0x5A);
            if (a_read(r, (int32)i, buf.data()) == FAIL)
                ctx.fail("attr-read", strf("attr-read:kind%d", r.kind), strf("reading attribute '%s' of %s failed (%s)", a.name.c_str(), r.what.c_str(), when));
            if (!a.opaque && memcmp(buf.data(), a.val.data(), a.val.size()) != 0)
                ctx.fail("attr-mismatch", strf("attr-mismatch:value:kind%d", r.kind),
                         strf("attribute '%s' of %s (type %d, count %d) reads back differently (%s)", a.name.c_str(), r.what.c_str(), (int)a.type,
                              (int)a.count, when));
            for (size_t j = a.val.size(); j < buf.size(); j++)
                if (buf[j] != 0x5A)
                    ctx.fail("buffer-overrun", strf("buffer-overrun:attr:kind%d", r.kind), strf("reading attribute '%s' wrote beyond its %zu bytes", a.name.c_str(), a.val.size()));
            ctx.trb(buf.data(), a.val.size());
        }
        if (a_find(r, "no_such_attribute") != FAIL)
            ctx.fail("attr-mismatch", strf("attr-mismatch:find-ghost:kind%d", r.kind), strf("a name that was never set is found on %s", r.what.c_str()));
    }

    void check_sds_meta(S &s, int i, const char *when)
    {
        MSds &d  = s.sds[i];
        int32 id = sds_id(s, i);
        s.ctx.st.checks++;
        // lookups are mutually inverse
        int32 ref = SDidtoref(id);
        if (d.ref == 0)
            d.ref = ref;
        if (ref != d.ref || SDreftoindex(s.sd, ref) != SDnametoindex(s.sd, strf("var%d", i).c_str()))
            s.ctx.fail("lookup-mismatch", "lookup-mismatch:ref",
                       strf("var%d: SDidtoref %d (was %d), SDreftoindex %d, SDnametoindex %d (%s)", i, (int)ref, (int)d.ref, (int)SDreftoindex(s.sd, ref),
                            (int)SDnametoindex(s.sd, strf("var%d", i).c_str()), when));
        for (int dn = 0; dn < d.rank; dn++) {
            int32 dim = SDgetdimid(id, dn), size = 0, nt = 0, na = 0;
            char  nm[256] = "";
            if (dim == FAIL || SDdiminfo(dim, nm, &size, &nt, &na) == FAIL)
                s.ctx.fail("lookup-failed", "lookup-failed:diminfo", "SDgetdimid/SDdiminfo failed");
            if (!d.dimname[dn].empty() && d.dimname[dn] != nm)
                s.ctx.fail("dim-mismatch", "dim-mismatch:name", strf("dimension %d of var%d is named '%s', set to '%s' (%s)", dn, i, nm, d.dimname[dn].c_str(), when));
            if (size != d.dims[dn])
                s.ctx.fail("dim-mismatch", "dim-mismatch:size", strf("dimension %d of var%d has size %d, model %d (%s)", dn, i, (int)size, (int)d.dims[dn], when));
            if (d.scale[dn]) {
                if ((nt & 0xfff) != ATS[d.scale_nt[dn]].code)
                    s.ctx.fail("dim-mismatch", "dim-mismatch:scale-type", strf("dimension %d of var%d: scale type %d, set %d (%s)", dn, i, (int)nt, (int)ATS[d.scale_nt[dn]].code, when));
                std::vector<uint8_t> buf(d.scale_val[dn].size() + 16, 0x5A);
                if (SDgetdimscale(dim, buf.data()) == FAIL || memcmp(buf.data(), d.scale_val[dn].data(), d.scale_val[dn].size()) != 0)
                    s.ctx.fail("dim-mismatch", "dim-mismatch:scale", strf("dimension %d of var%d: SDgetdimscale does not return the values set (%s)", dn, i, when));
            }
            else if (nt != 0)
                s.ctx.fail("dim-mismatch", "dim-mismatch:scale-ghost", strf("dimension %d of var%d reports a scale of type %d, none was set (%s)", dn, i, (int)nt, when));
        }
        SDendaccess(id);
    }

    void check_everything(S &s, const char *when)
    {
        for (int kind = 0; kind < NKINDS; kind++)
            for (int obj = 0; obj < 2; obj++)
                for (int sub = 0; sub < 2; sub++) {
                    if ((kind != K_SDS && kind != K_DIM) && obj > 0)
                        continue;
                    if ((kind != K_DIM && kind != K_VSFIELD) && sub > 0)
                        continue;
                    if (kind >= K_GRFILE && !s.hv_on_disk)
                        continue;
                    if (kind < K_GRFILE && !s.sd_on_disk)
                        continue;
                    Ref r;
                    if (!resolve(s, kind, obj, sub, r))
                        continue;
                    if (kind == K_DIM && sub >= s.sds[obj].rank)
                        continue;
                    check_obj(s, r, when);
                    if (kind == K_SDS || kind == K_DIM)
                        SDendaccess(kind == K_SDS ? r.id : sds_id(s, obj));
                }
        if (s.sd_on_disk) {
            open_sd(s);
            for (int i = 0; i < NSDS; i++)
                if (s.sds[i].exists)
                    check_sds_meta(s, i, when);
            check_fakedims(s, when);
            check_unlimscale(s, when);
        }
    }

    // A scale on an unlimited dimension: three records, a scale of three values, then the dataset goes on growing and the
    // scale is left alone.  The scale stays what was set: three values of its type, whatever the dataset holds by now.
    void check_unlimscale(S &s, const char *when)
    {
        if (s.us_stage == 0)
            return;
        Ctx  &ctx = s.ctx;
        int32 ix  = SDnametoindex(s.sd, "us_series");
        int32 id  = ix < 0 ? FAIL : SDselect(s.sd, ix);
        if (id == FAIL)
            ctx.fail("lookup-mismatch", "lookup-mismatch:unlimscale", strf("the dataset with the unlimited dimension is not found (%s)", when));
        int32   dim = SDgetdimid(id, 0), size = -1, nt = 0, na = 0;
        char    nm[256] = "";
        float64 buf[8];
        for (auto &x : buf)
            x = -777.0;
        ctx.st.checks++;
        if (dim == FAIL || SDdiminfo(dim, nm, &size, &nt, &na) == FAIL || strcmp(nm, "us_time") != 0 || (nt & 0xfff) != DFNT_FLOAT64)
            ctx.fail("dim-mismatch", "dim-mismatch:unlimscale-info", strf("SDdiminfo of the unlimited dimension: name '%s' type %d (%s)", nm, (int)nt, when));
        if (SDgetdimscale(dim, buf) == FAIL)
            ctx.fail("dim-mismatch", "dim-mismatch:unlimscale-read", strf("SDgetdimscale of the unlimited dimension fails with %d records stored (%s): %s", s.us_stage == 1 ? 3 : 5, when, herr().c_str()));
        for (int q = 0; q < 8; q++)
            if (buf[q] != (q < 3 ? 0.25 * (q + 1) : -777.0))
                ctx.fail("dim-mismatch", "dim-mismatch:unlimscale-values", strf("value %d of the scale of the unlimited dimension reads %g (%s)", q, buf[q], when));
        SDendaccess(id);
    }
    void unlimscale(S &s)
    {
        Ctx &ctx = s.ctx;
        open_sd(s);
        int16 rec[5][2];
        for (int q = 0; q < 5; q++)
            rec[q][0] = (int16)(100 * q), rec[q][1] = (int16)(100 * q + 1);
        if (s.us_stage == 0) {
            int32   dm[2] = {SD_UNLIMITED, 2}, st[2] = {0, 0}, ed[2] = {3, 2};
            float64 sc[3] = {0.25, 0.5, 0.75};
            int32   id    = SDcreate(s.sd, "us_series", DFNT_INT16, 2, dm);
            if (id == FAIL || SDsetdimname(SDgetdimid(id, 0), "us_time") == FAIL || SDwritedata(id, st, NULL, ed, rec) == FAIL ||
                SDsetdimscale(SDgetdimid(id, 0), 3, DFNT_FLOAT64, sc) == FAIL || SDendaccess(id) == FAIL)
                ctx.fail("meta-refused", "meta-refused:unlimscale", strf("setting up the unlimited dimension with a scale failed: %s", herr().c_str()));
            s.us_stage = 1;
            ctx.probe("scale-on-unlimited-dimension");
        }
        else if (s.us_stage == 1) {
            int32 ix = SDnametoindex(s.sd, "us_series"), st[2] = {3, 0}, ed[2] = {2, 2};
            int32 id = ix < 0 ? FAIL : SDselect(s.sd, ix);
            if (id == FAIL || SDwritedata(id, st, NULL, ed, rec[3]) == FAIL || SDendaccess(id) == FAIL)
                ctx.fail("meta-refused", "meta-refused:unlimscale", strf("appending records to the dataset with the unlimited dimension failed: %s", herr().c_str()));
            s.us_stage = 2;
            ctx.probe("records-appended-behind-the-scale");
        }
        check_unlimscale(s, "right after the unlimited-dimension step");
    }

    // Unnamed dimensions next to a dimension that two datasets share by name.  Stage 1: dataset fkA (3 x 4) and fkB (3)
    // share "fk_shared"; the second dimension of fkA keeps its default name and gets one attribute.  Stage 2, in a later
    // session: dataset fkC (4) with an unnamed dimension of its own, which gets an attribute and a scale.  The two unnamed
    // dimensions are different dimensions: each keeps exactly what was set on it, in every later session.
    void one_dim_attr(S &s, const char *ds, int dn, const char *aname, int32 want, bool want_scale, const char *when)
    {
        int32 ix = SDnametoindex(s.sd, ds);
        int32 id = ix < 0 ? FAIL : SDselect(s.sd, ix);
        int32 dim = id == FAIL ? FAIL : SDgetdimid(id, dn), size = 0, nt = 0, na = 0;
        char  nm[256] = "";
        if (dim == FAIL || SDdiminfo(dim, nm, &size, &nt, &na) == FAIL)
            s.ctx.fail("lookup-failed", "lookup-failed:fakedim", strf("dataset %s / its dimension %d cannot be found (%s)", ds, dn, when));
        int32 v = 0, at = 0, cnt = 0;
        char  an[256] = "";
        s.ctx.st.checks++;
        if (na != 1 || SDattrinfo(dim, 0, an, &at, &cnt) == FAIL || strcmp(an, aname) != 0 || cnt != 1 || SDreadattr(dim, 0, &v) == FAIL || v != want)
            s.ctx.fail("attr-mismatch", "attr-mismatch:unnamed-dimension",
                       strf("unnamed dimension %d of %s ('%s'): %d attributes, first '%s' = %d; set: one attribute '%s' = %d (%s)", dn, ds, nm, (int)na, an, (int)v, aname, (int)want, when));
        if (want_scale ? (nt & 0xfff) != DFNT_INT16 : nt != 0)
            s.ctx.fail("dim-mismatch", "dim-mismatch:unnamed-dimension-scale", strf("unnamed dimension %d of %s ('%s') reports scale type %d, %s (%s)", dn, ds, nm, (int)nt, want_scale ? "an int16 scale was set" : "none was set", when));
        if (want_scale) {
            int16 sc[4] = {0, 0, 0, 0};
            if (SDgetdimscale(dim, sc) == FAIL || sc[0] != 11 || sc[3] != 44)
                s.ctx.fail("dim-mismatch", "dim-mismatch:unnamed-dimension-scale", strf("the scale of the unnamed dimension of %s does not read back (%s)", ds, when));
        }
        SDendaccess(id);
    }
    void check_fakedims(S &s, const char *when)
    {
        if (s.fk_stage >= 1)
            one_dim_attr(s, "fkA", 1, "fkA_attr", 1234, false, when);
        if (s.fk_stage >= 2)
            one_dim_attr(s, "fkC", 0, "fkC_attr", 5678, true, when);
    }
    void fakedims(S &s)
    {
        Ctx &ctx = s.ctx;
        open_sd(s);
        if (s.fk_stage == 0) {
            int32 da[2] = {3, 4}, db[1] = {3};
            // (either dataset may come first: the unnamed dimension then sits before or behind the shared one in the file's table)
            int32 a = FAIL, b = FAIL;
            if (s.uniq % 2) {
                b = SDcreate(s.sd, "fkB", DFNT_INT16, 1, db);
                a = SDcreate(s.sd, "fkA", DFNT_INT16, 2, da);
                ctx.probe("shared-dimension-first");
            }
            else {
                a = SDcreate(s.sd, "fkA", DFNT_INT16, 2, da);
                b = SDcreate(s.sd, "fkB", DFNT_INT16, 1, db);
            }
            int32 v = 1234;
            if (a == FAIL || b == FAIL || SDsetdimname(SDgetdimid(a, 0), "fk_shared") == FAIL || SDsetdimname(SDgetdimid(b, 0), "fk_shared") == FAIL ||
                SDsetattr(SDgetdimid(a, 1), "fkA_attr", DFNT_INT32, 1, &v) == FAIL || SDendaccess(a) == FAIL || SDendaccess(b) == FAIL)
                ctx.fail("meta-refused", "meta-refused:fakedims", strf("setting up the shared/unnamed dimensions failed: %s", herr().c_str()));
            s.fk_stage    = 1;
            s.fk_sessions = 0;
            ctx.probe("shared-dimension");
        }
        else if (s.fk_stage == 1 && s.fk_sessions > 0) {
            int32 dc[1] = {4};
            int32 c = SDcreate(s.sd, "fkC", DFNT_INT16, 1, dc);
            int32 v = 5678;
            int16 sc[4] = {11, 22, 33, 44};
            if (c == FAIL || SDsetattr(SDgetdimid(c, 0), "fkC_attr", DFNT_INT32, 1, &v) == FAIL || SDsetdimscale(SDgetdimid(c, 0), 4, DFNT_INT16, sc) == FAIL ||
                SDendaccess(c) == FAIL)
                ctx.fail("meta-refused", "meta-refused:fakedims", strf("creating the second unnamed dimension failed: %s", herr().c_str()));
            s.fk_stage = 2;
            ctx.probe("unnamed-dimension-in-later-session");
        }
        check_fakedims(s, "right after the unnamed-dimension step");
    }

    // A name for a dimension that no other dimension has.  Half of the names come from a family in which every name is
    // a proper prefix of the next ("nest", "nesta", "nestab", ...): a lookup that compares a prefix only, or the shorter
    // length only, takes one dimension for another.  Equal names are never produced (an equal name and an equal size
    // mean "share the dimension", which is another operation).
    std::string fresh_dimname(S &s, const std::string &unique, int64_t sel0)
    {
        // the selector arguments are small numbers: spread them (deterministically) before taking them apart
        uint64_t sel = fnv64i((uint64_t)sel0 + 977u * (uint64_t)s.uniq, 1469598103934665603ULL) >> 8;
        if (sel % 2 == 0)
            return unique;
        std::string nm = "nest" + std::string("abcdefghijkl").substr(0, (size_t)((sel / 2) % 12));
        // a second family: names of one length made of the same 4-byte words in another order -- equal under any
        // checksum that adds words up, equal in length, different as strings
        bool perm_family = (sel / 32) % 3 == 0;
        if (perm_family) {
            static const char *w[3] = {"lat_", "lon_", "alt_"};
            static const int   perm[6][3] = {{0, 1, 2}, {0, 2, 1}, {1, 0, 2}, {1, 2, 0}, {2, 0, 1}, {2, 1, 0}};
            const int         *q = perm[(sel / 128) % 6];
            nm = std::string(w[q[0]]) + w[q[1]] + w[q[2]];
        }
        for (auto &d : s.sds)
            for (int dn = 0; dn < 2; dn++)
                if (d.dimname[dn] == nm)
                    return unique;
        if (perm_family)
            for (auto &d : s.sds)
                for (int dn = 0; dn < 2; dn++)
                    if (d.dimname[dn].size() == 12 && d.dimname[dn].compare(3, 1, "_") == 0 && d.dimname[dn].compare(0, 4, "dim_") != 0)
                        s.ctx.probe("dimname-word-permutation-pair");
        s.ctx.probe("dimname-prefix-family");
        return nm;
    }

    void execute(Ctx &ctx) override
    {
        S           s(ctx);
        const Plan &p = ctx.plan;
        for (size_t i = 0; i < p.ops.size(); i++) {
            const Op &o = p.ops[i];
            ctx.begin_op((int)i);
            const std::string &k = o.kind;
            bool               done = true;
            bool               sd_ro = !s.sd_write && s.sd_on_disk, hv_ro = !s.hv_write && s.hv_on_disk;
            if (k == "set") {
                int kind = modn(o.arg(0), NKINDS);
                Ref r;
                if ((kind < K_GRFILE ? sd_ro : hv_ro) || !resolve(s, kind, (int)o.arg(1), (int)o.arg(2), r))
                    done = false;
                else {
                    const char *nm = NAMES[modn(o.arg(3), NNAMES)];
                    AT          t  = ATS[modn(o.arg(4), NAT)];
                    // Vdata and Vgroup attributes also with the little-endian variant of the type: for a re-set that is
                    // another type (refused, the old value stays), for a new attribute it is the type reported afterwards
                    if (o.arg(7) == 1 && kind >= K_VS && t.size > 1) {
                        t.code |= DFNT_LITEND;
                        ctx.probe("little-endian-attr");
                    }
                    int32       cnt = (int32)std::max<int64_t>(1, o.arg(5));
                    if (o.arg(7) == 1 && kind >= K_VS && r.m->find(nm) >= 0) {
                        // directed: the attribute exists -- same count, same type but for the byte order
                        const auto &oa = r.m->at[(size_t)r.m->find(nm)];
                        for (int q = 0; q < NAT; q++)
                            if (ATS[q].code == (oa.type & 0xfff) && ATS[q].size > 1) {
                                t      = ATS[q];
                                t.code = (oa.type & 0x4fff) ^ DFNT_LITEND;
                                cnt    = oa.count;
                                ctx.probe("reset-other-byte-order");
                            }
                    }
                    std::vector<uint8_t> v((size_t)cnt * (size_t)t.size);
                    for (int32 q = 0; q < cnt; q++)
                        avalue(t, (uint64_t)o.arg(6), (uint64_t)q, v.data() + (size_t)q * (size_t)t.size);
                    int  old = r.m->find(nm);
                    if ((kind == K_GRFILE || kind == K_IMG) && old >= 0 && cnt < r.m->at[(size_t)old].count &&
                        (r.m->at[(size_t)old].type & 0xfff) == t.code && p.knob("unguard_gr_shrink", 0) == 0) {
                        ctx.st.ops_skipped++; // known finding C10-gr-attr-shrink
                        continue;
                    }
                    intn rc  = a_set(r, nm, t.code, cnt, v.data());
                    ctx.tr((uint64_t)rc);
                    bool same_shape = old >= 0 && (r.m->at[(size_t)old].type & 0x4fff) == t.code && r.m->at[(size_t)old].count == cnt;
                    if (rc == FAIL) {
                        if (old < 0 || same_shape)
                            ctx.fail("set-refused", strf("set-refused:kind%d:%s", kind, old < 0 ? "new" : "same-shape"),
                                     strf("setting attribute '%s' (type %d, count %d) on %s failed (%s): %s", nm, (int)t.code, (int)cnt, r.what.c_str(),
                                          old < 0 ? "new name" : "same type and count as before", HEstring((hdf_err_code_t)HEvalue(1))));
                        ctx.st.api_fail++; // a change of type/count may be refused; the old value must survive (checked below)
                    }
                    else {
                        if (old >= 0)
                            ctx.probe(same_shape ? "replace" : "replace-type-change");
                        r.m->put(nm, t.code, cnt, v.data());
                        if (cnt >= 500)
                            ctx.probe("large-attr");
                    }
                    static const char *pn[] = {"dummy", "dummy", "dim-attr", "gr-attr", "gr-attr", "vs-attr", "vsfield-attr", "vg-attr"};
                    ctx.probe(pn[kind]);
                    for (auto &a : r.m->at)
                        for (auto &b : r.m->at)
                            if (a.name != b.name && b.name.compare(0, a.name.size(), a.name) == 0)
                                ctx.probe("prefix-names");
                    check_obj(s, r, "right after a set");
                    if (kind == K_SDS || kind == K_DIM)
                        SDendaccess(kind == K_SDS ? r.id : sds_id(s, (int)o.arg(1) % NSDS));
                }
            }
            else if (k == "check") {
                int kind = modn(o.arg(0), NKINDS);
                Ref r;
                if ((kind >= K_GRFILE ? !s.hv_on_disk && false : false) || !resolve(s, kind, (int)o.arg(1), (int)o.arg(2), r))
                    done = false;
                else {
                    check_obj(s, r, "in session");
                    if (kind == K_SDS || kind == K_DIM)
                        SDendaccess(kind == K_SDS ? r.id : sds_id(s, (int)o.arg(1) % NSDS));
                }
            }
            else if (k == "sdsnew") {
                int   di = modn(o.arg(0), NSDS);
                MSds &d  = s.sds[di];
                if (d.exists || sd_ro)
                    done = false;
                else {
                    open_sd(s);
                    d         = MSds();
                    d.rank    = (int)std::max<int64_t>(1, std::min<int64_t>(2, o.arg(1)));
                    d.nt      = modn(o.arg(2), NAT - 2);
                    d.dims[0] = (int32)std::max<int64_t>(1, o.arg(3));
                    d.dims[1] = (int32)std::max<int64_t>(1, o.arg(4));
                    int32 id  = SDcreate(s.sd, strf("var%d", di).c_str(), ATS[d.nt].code, d.rank, d.dims);
                    if (id == FAIL)
                        ctx.fail("create-refused", "create-refused:sds", "SDcreate failed");
                    // distinct dimension names: no sharing between datasets (some names are prefixes of others)
                    for (int dn = 0; dn < d.rank; dn++) {
                        d.dimname[dn] = fresh_dimname(s, strf("dim_%d_%d_%d", di, dn, s.uniq++), o.arg(2) * 7 + o.arg(3) + dn * 5);
                        if (SDsetdimname(SDgetdimid(id, dn), d.dimname[dn].c_str()) == FAIL)
                            ctx.fail("dimname-refused", "dimname-refused:new", "SDsetdimname on a new dataset failed");
                    }
                    d.exists = true;
                    d.ref    = SDidtoref(id);
                    SDendaccess(id);
                }
            }
            else if (k == "datastrs" || k == "cal" || k == "range" || k == "fill" || k == "dimname" || k == "dimscale" || k == "dimstrs") {
                int   di = modn(o.arg(0), NSDS);
                MSds &d  = s.sds[di];
                if (!d.exists || sd_ro)
                    done = false;
                else {
                    open_sd(s);
                    int32 id = sds_id(s, di);
                    if (k == "datastrs") {
                        static const char *strs[] = {"", "label one", "m/s", "F7.2", "cartesian", "a much longer descriptive label for this dataset"};
                        int         mask = (int)o.arg(1);
                        const char *l = (mask & 1) ? strs[1 + modn(o.arg(2), 5)] : NULL, *u = (mask & 2) ? strs[1 + modn(o.arg(2) >> 3, 5)] : NULL,
                                   *f = (mask & 4) ? strs[1 + modn(o.arg(2) >> 6, 5)] : NULL, *c = (mask & 8) ? strs[1 + modn(o.arg(2) >> 9, 5)] : NULL;
                        if (SDsetdatastrs(id, l, u, f, c) == FAIL)
                            ctx.fail("meta-refused", "meta-refused:datastrs", "SDsetdatastrs failed");
                        if (l)
                            d.attrs.put("long_name", DFNT_CHAR8, (int32)strlen(l), l);
                        if (u)
                            d.attrs.put("units", DFNT_CHAR8, (int32)strlen(u), u);
                        if (f)
                            d.attrs.put("format", DFNT_CHAR8, (int32)strlen(f), f);
                        if (c)
                            d.attrs.put("coordsys", DFNT_CHAR8, (int32)strlen(c), c);
                        char lb[256] = "", ub[256] = "", fb[256] = "", cb[256] = "";
                        if (SDgetdatastrs(id, lb, ub, fb, cb, 255) == FAIL)
                            ctx.fail("meta-mismatch", "meta-mismatch:datastrs-get", "SDgetdatastrs failed");
                        auto chk = [&](const char *an, const char *got) {
                            int ix = d.attrs.find(an);
                            std::string want = ix < 0 ? "" : std::string((const char *)d.attrs.at[(size_t)ix].val.data(), d.attrs.at[(size_t)ix].val.size());
                            if (want != got)
                                ctx.fail("meta-mismatch", "meta-mismatch:datastrs", strf("SDgetdatastrs: %s is '%s', set to '%s'", an, got, want.c_str()));
                        };
                        chk("long_name", lb);
                        chk("units", ub);
                        chk("format", fb);
                        chk("coordsys", cb);
                        ctx.probe("datastrs");
                    }
                    else if (k == "cal") {
                        float64 v[4];
                        for (int q = 0; q < 4; q++)
                            v[q] = (float64)(int64_t)(mix64((uint64_t)o.arg(1), (uint64_t)q) % 100000) / 8.0;
                        int32 cnt = DFNT_INT16;
                        if (SDsetcal(id, v[0], v[1], v[2], v[3], cnt) == FAIL)
                            ctx.fail("meta-refused", "meta-refused:cal", "SDsetcal failed");
                        d.attrs.put("scale_factor", DFNT_FLOAT64, 1, &v[0]);
                        d.attrs.put("scale_factor_err", DFNT_FLOAT64, 1, &v[1]);
                        d.attrs.put("add_offset", DFNT_FLOAT64, 1, &v[2]);
                        d.attrs.put("add_offset_err", DFNT_FLOAT64, 1, &v[3]);
                        d.attrs.put("calibrated_nt", DFNT_INT32, 1, &cnt);
                        float64 g[4];
                        int32   gnt = 0;
                        if (SDgetcal(id, &g[0], &g[1], &g[2], &g[3], &gnt) == FAIL || memcmp(g, v, sizeof g) != 0 || gnt != cnt)
                            ctx.fail("meta-mismatch", "meta-mismatch:cal", "SDgetcal does not return the calibration just set");
                        ctx.probe("cal");
                    }
                    else if (k == "range") {
                        uint8_t mx[8], mn[8], both[16];
                        avalue(ATS[d.nt], (uint64_t)o.arg(1), 0, mx);
                        avalue(ATS[d.nt], (uint64_t)o.arg(1), 1, mn);
                        if (SDsetrange(id, mx, mn) == FAIL)
                            ctx.fail("meta-refused", "meta-refused:range", "SDsetrange failed");
                        memcpy(both, mn, (size_t)ATS[d.nt].size);
                        memcpy(both + ATS[d.nt].size, mx, (size_t)ATS[d.nt].size);
                        d.attrs.put("valid_range", ATS[d.nt].code, 2, both);
                        uint8_t gx[8], gn[8];
                        if (SDgetrange(id, gx, gn) == FAIL || memcmp(gx, mx, (size_t)ATS[d.nt].size) != 0 || memcmp(gn, mn, (size_t)ATS[d.nt].size) != 0)
                            ctx.fail("meta-mismatch", "meta-mismatch:range", "SDgetrange does not return the range just set");
                        ctx.probe("range");
                    }
                    else if (k == "fill") {
                        uint8_t fv[8], gv[8];
                        avalue(ATS[d.nt], (uint64_t)o.arg(1), 0, fv);
                        if (SDsetfillvalue(id, fv) == FAIL)
                            ctx.fail("meta-refused", "meta-refused:fill", "SDsetfillvalue failed");
                        d.attrs.put("_FillValue", ATS[d.nt].code, 1, fv);
                        if (SDgetfillvalue(id, gv) == FAIL || memcmp(gv, fv, (size_t)ATS[d.nt].size) != 0)
                            ctx.fail("meta-mismatch", "meta-mismatch:fill", "SDgetfillvalue does not return the value just set");
                    }
                    else {
                        int   dn  = modn(o.arg(1), d.rank);
                        int32 dim = SDgetdimid(id, dn);
                        if (dim == FAIL)
                            ctx.fail("lookup-failed", "lookup-failed:dimid", "SDgetdimid failed");
                        if (k == "dimname" && modn(o.arg(2), 4) == 3) {
                            // the name of another dimension that has another size: refused (a name stands for one dimension),
                            // and nothing changes
                            std::string other;
                            for (auto &e : s.sds)
                                for (int q = 0; q < e.rank && e.exists; q++)
                                    if (!e.dimname[q].empty() && e.dims[q] != d.dims[dn] && e.dimname[q] != d.dimname[dn])
                                        other = e.dimname[q];
                            if (other.empty())
                                done = false;
                            else {
                                if (SDsetdimname(dim, other.c_str()) != FAIL)
                                    ctx.fail("dimname-accepted", "dimname-accepted:size-conflict",
                                             strf("SDsetdimname gives a dimension of size %d the name '%s' of a dimension of another size", (int)d.dims[dn], other.c_str()));
                                ctx.probe("dimname-conflict-refused");
                            }
                        }
                        else if (k == "dimname") {
                            if (d.scale[dn] || !d.dimattrs[dn].at.empty())
                                ctx.probe("dim-renamed-with-metadata"); // used to be guarded: repaired (findings/fixed)
                            std::string nn = fresh_dimname(s, strf("dim_%d_%d_%d_r%d", di, dn, s.uniq++, (int)o.arg(2)), o.arg(2) + o.arg(3));
                            if (SDsetdimname(dim, nn.c_str()) == FAIL)
                                ctx.fail("dimname-refused", "dimname-refused", "SDsetdimname failed");
                            d.dimname[dn] = nn;
                        }
                        else if (k == "dimscale") {
                            int snt = modn(o.arg(2), NAT - 2);
                            std::vector<uint8_t> v((size_t)d.dims[dn] * (size_t)ATS[snt].size);
                            for (int32 q = 0; q < d.dims[dn]; q++)
                                avalue(ATS[snt], (uint64_t)o.arg(3), (uint64_t)q, v.data() + (size_t)q * (size_t)ATS[snt].size);
                            if (modn(o.arg(3), 5) == 0) {
                                // a scale with one value too many: refused, and the dimension keeps the scale (or the lack of
                                // one), its type and its values -- the checks after this call see to that
                                std::vector<uint8_t> w((size_t)(d.dims[dn] + 1) * (size_t)ATS[snt].size, 3);
                                if (SDsetdimscale(dim, d.dims[dn] + 1, ATS[snt].code, w.data()) != FAIL)
                                    ctx.fail("meta-accepted", "meta-accepted:dimscale-count", strf("SDsetdimscale with %d values for a dimension of size %d succeeds", (int)d.dims[dn] + 1, (int)d.dims[dn]));
                                ctx.probe("dimscale-wrong-count-refused");
                                SDendaccess(id);
                                check_sds_meta(s, di, "right after a refused SDsetdimscale");
                                ctx.st.ops_done++;
                                continue;
                            }
                            bool retype = d.scale[dn] && d.scale_nt[dn] != snt; // used to be guarded: repaired (findings/fixed)
                            intn rc = SDsetdimscale(dim, d.dims[dn], ATS[snt].code, v.data());
                            if (rc == FAIL && !(d.scale[dn] && d.scale_nt[dn] != snt))
                                ctx.fail("meta-refused", "meta-refused:dimscale", strf("SDsetdimscale(type %d) failed", (int)ATS[snt].code));
                            if (retype)
                                ctx.probe(rc == FAIL ? "dimscale-retype-refused" : "dimscale-retype-accepted");
                            if (rc != FAIL) { // changing the type of an existing scale may be refused: the old scale stays
                                d.scale[dn]     = true;
                                d.scale_nt[dn]  = snt;
                                d.scale_val[dn] = v;
                            }
                            ctx.probe("dimscale");
                        }
                        else {
                            static const char *strs[] = {"", "x axis", "km", "I4"};
                            int         mask = (int)o.arg(2);
                            const char *l = (mask & 1) ? strs[1] : NULL, *u = (mask & 2) ? strs[2] : NULL, *f = (mask & 4) ? strs[3] : NULL;
                            if (SDsetdimstrs(dim, l, u, f) == FAIL)
                                ctx.fail("meta-refused", "meta-refused:dimstrs", "SDsetdimstrs failed");
                            if (l)
                                d.dimattrs[dn].put("long_name", DFNT_CHAR8, (int32)strlen(l), l);
                            if (u)
                                d.dimattrs[dn].put("units", DFNT_CHAR8, (int32)strlen(u), u);
                            if (f)
                                d.dimattrs[dn].put("format", DFNT_CHAR8, (int32)strlen(f), f);
                        }
                    }
                    SDendaccess(id);
                    check_sds_meta(s, di, "right after a metadata call");
                }
            }
            else if (k == "lookup") {
                if (!s.sd_on_disk)
                    done = false;
                else {
                    open_sd(s);
                    for (int q = 0; q < NSDS; q++)
                        if (s.sds[q].exists)
                            check_sds_meta(s, q, "in session");
                    if (SDnametoindex(s.sd, "no_such_dataset") != FAIL)
                        ctx.fail("lookup-mismatch", "lookup-mismatch:ghost", "SDnametoindex finds a dataset that does not exist");
                }
            }
            else if (k == "other") {
                // further objects in between: another dataset / vdata that nothing else refers to
                if (!sd_ro && modn(o.arg(0), 2) == 0)
                    fakedims(s);
                if (!sd_ro && modn(o.arg(0), 4) == 1)
                    unlimscale(s);
                if (!sd_ro) {
                    open_sd(s);
                    int32 dm[1] = {2};
                    int32 id    = SDcreate(s.sd, strf("extra%d", s.uniq++).c_str(), DFNT_INT16, 1, dm);
                    if (id == FAIL)
                        ctx.fail("create-refused", "create-refused:extra", "SDcreate of an unrelated dataset failed");
                    SDendaccess(id);
                }
                if (!hv_ro) {
                    open_hv(s);
                    int32 v = (int32)o.arg(0);
                    if (VHstoredata(s.fid, "x", (const uint8 *)&v, 1, DFNT_INT32, strf("extravs%d", s.uniq++).c_str(), "c") == FAIL)
                        ctx.fail("create-refused", "create-refused:extravs", "VHstoredata failed");
                }
            }
            else if (k == "restart") {
                s.fk_sessions++;
                close_all(s);
                // verify from disk read-only, then continue in read or write mode
                s.sd_write = s.hv_write = false;
                check_everything(s, "after reopen");
                close_all(s);
                bool wr    = o.arg(0) != 0;
                s.sd_write = s.hv_write = wr;
                ctx.probe(wr ? "restart-write" : "restart");
                if (!wr) { // a read-only session in which only queries happen; the next restart reopens for writing
                    s.sd_write = s.hv_write = true;
                }
            }
            else
                done = false;
            if (done) {
                ctx.st.ops_done++;
                uint64_t h = 1469598103934665603ULL;
                MObj    *all[] = {&s.sdfile, &s.sds[0].attrs, &s.sds[1].attrs, &s.sds[0].dimattrs[0], &s.grfile, &s.img, &s.vsobj, &s.vsfield[0], &s.vgobj};
                for (auto m : all) {
                    h = fnv64i(m->at.size(), h);
                    for (auto &a : m->at)
                        h = fnv64i((uint64_t)a.type * 100000 + (uint64_t)a.count, fnv64s(a.name, h));
                }
                ctx.state(h);
            }
            else
                ctx.st.ops_skipped++;
        }
    }
};

Registrar reg(new Attrs);

} // namespace
} // namespace h4
