// engine.cc -- plan text format, child execution, worker pool, minimiser, known findings, evidence.
#include "engine.h"
#include <algorithm>
#include <cerrno>
#include <chrono>
#include <csignal>
#include <cstdarg>
#include <cstdio>
#include <cstdlib>
#include <cstring>
#include <fcntl.h>
#include <fstream>
#include <sys/mman.h>
#include <sys/resource.h>
#include <dirent.h>
#include <sys/stat.h>
#include <sys/wait.h>
#include <unistd.h>

namespace h4 {

// ------------------------------------------------------------------------------------ plan text
std::string Plan::to_text() const
{
    std::string s = "h4sim-plan 1\n";
    s += "profile " + profile + "\n";
    s += strf("seed %llu\n", (unsigned long long)seed);
    for (auto &kv : knobs)
        s += strf("knob %s %lld\n", kv.first.c_str(), (long long)kv.second);
    for (auto &o : ops) {
        s += strf("op %d %s", o.client, o.kind.c_str());
        for (auto v : o.a)
            s += strf(" %lld", (long long)v);
        s += "\n";
    }
    for (auto &f : faults)
        s += strf("fault %d %d %s %lld\n", f.op, f.ord, simfs::fault_name(f.kind), (long long)f.param);
    if (!expect_class.empty())
        s += "expect " + expect_class + " | " + expect_key + "\n";
    if (!note.empty()) {
        std::string n = note;
        for (auto &c : n)
            if (c == '\n')
                c = ' ';
        s += "note " + n + "\n";
    }
    return s;
}

bool Plan::from_text(const std::string &s, Plan &p)
{
    p = Plan();
    std::istringstream in(s);
    std::string        line;
    bool               hdr = false;
    while (std::getline(in, line)) {
        if (line.empty() || line[0] == '#')
            continue;
        std::istringstream ls(line);
        std::string        w;
        ls >> w;
        if (w == "h4sim-plan")
            hdr = true;
        else if (w == "profile")
            ls >> p.profile;
        else if (w == "seed") {
            unsigned long long v;
            ls >> v;
            p.seed = v;
        }
        else if (w == "knob") {
            std::string k;
            long long   v;
            ls >> k >> v;
            p.knobs[k] = v;
        }
        else if (w == "op") {
            Op o;
            ls >> o.client >> o.kind;
            long long v;
            while (ls >> v)
                o.a.push_back(v);
            p.ops.push_back(o);
        }
        else if (w == "fault") {
            simfs::Fault f;
            std::string  k;
            long long    prm = 0;
            ls >> f.op >> f.ord >> k >> prm;
            f.param = prm;
            f.kind  = simfs::F_NONE;
            for (int i = 0; i < simfs::F_NKINDS; i++)
                if (k == simfs::fault_name(i))
                    f.kind = i;
            p.faults.push_back(f);
        }
        else if (w == "expect") {
            std::string rest;
            std::getline(ls, rest);
            size_t bar = rest.find(" | ");
            if (bar != std::string::npos) {
                p.expect_class = rest.substr(1, bar - 1);
                p.expect_key   = rest.substr(bar + 3);
            }
        }
        else if (w == "note") {
            std::getline(ls, p.note);
            if (!p.note.empty() && p.note[0] == ' ')
                p.note.erase(0, 1);
        }
    }
    return hdr && !p.profile.empty();
}

uint64_t Plan::hash() const
{
    Plan q = *this;
    q.expect_class.clear();
    q.expect_key.clear();
    q.note.clear();
    return fnv64s(q.to_text());
}

const char *status_name(int s)
{
    static const char *n[] = {"ok", "violation", "memory-error", "crash", "hang", "engine-error"};
    return (s >= 0 && s <= ST_ENGINE) ? n[s] : "?";
}

extern "C" void HEprint(FILE *stream, int32_t print_level);

void Ctx::fail(const std::string &cls, const std::string &key, const std::string &msg)
{
    // the library's error stack at the moment of the violation goes to the child's stderr (shown by --verbose)
    fprintf(stderr, "violation %s at op %d: %s\nHDF error stack:\n", cls.c_str(), cur_op, msg.c_str());
    HEprint(stderr, 0);
    ViolationEx e;
    e.v.cls = cls;
    e.v.key = key;
    e.v.msg = msg;
    e.v.op  = cur_op;
    throw e;
}

// ------------------------------------------------------------------------------------ registry
std::vector<Profile *> &all_profiles()
{
    static std::vector<Profile *> v;
    return v;
}
void     register_profile(Profile *p) { all_profiles().push_back(p); }
Profile *find_profile(const std::string &n)
{
    for (auto p : all_profiles())
        if (n == p->name() || n == p->property())
            return p;
    return nullptr;
}

// ------------------------------------------------------------------------------------ (de)serialisation
struct Buf {
    std::string s;
    size_t      p = 0;
    void        u64(uint64_t v) { s.append((const char *)&v, 8); }
    void        str(const std::string &x)
    {
        u64(x.size());
        s += x;
    }
    uint64_t g64()
    {
        uint64_t v = 0;
        if (p + 8 <= s.size())
            memcpy(&v, s.data() + p, 8);
        p += 8;
        return v;
    }
    std::string gstr()
    {
        uint64_t n = g64();
        if (p + n > s.size()) {
            p = s.size();
            return "";
        }
        std::string r = s.substr(p, (size_t)n);
        p += (size_t)n;
        return r;
    }
    bool ok() const { return p <= s.size(); }
};

static void put_stats(Buf &b, const RunStats &st)
{
    b.u64(st.probes.size());
    for (auto &kv : st.probes) {
        b.str(kv.first);
        b.u64(kv.second);
    }
    b.u64(st.states.size());
    for (auto h : st.states)
        b.u64(h);
    b.u64(st.evhash);
    b.u64(st.transcript);
    b.u64(st.diskhash);
    b.u64(st.nevents);
    b.u64((uint64_t)st.ops_done);
    b.u64((uint64_t)st.ops_skipped);
    b.u64((uint64_t)st.checks);
    b.u64((uint64_t)st.api_fail);
    for (int i = 0; i < simfs::EV_NKINDS; i++)
        b.u64(st.evkinds[i]);
    for (int i = 0; i < simfs::F_NKINDS; i++)
        b.u64(st.faults[i]);
}
static void get_stats(Buf &b, RunStats &st)
{
    uint64_t n = b.g64();
    for (uint64_t i = 0; i < n && b.ok(); i++) {
        std::string k = b.gstr();
        st.probes[k]  = b.g64();
    }
    n = b.g64();
    for (uint64_t i = 0; i < n && b.ok(); i++)
        st.states.push_back(b.g64());
    st.evhash      = b.g64();
    st.transcript  = b.g64();
    st.diskhash    = b.g64();
    st.nevents     = (uint32_t)b.g64();
    st.ops_done    = (int)b.g64();
    st.ops_skipped = (int)b.g64();
    st.checks      = (int)b.g64();
    st.api_fail    = (int)b.g64();
    for (int i = 0; i < simfs::EV_NKINDS; i++)
        st.evkinds[i] = b.g64();
    for (int i = 0; i < simfs::F_NKINDS; i++)
        st.faults[i] = b.g64();
}
static void add_stats(RunStats &a, const RunStats &o);
void        accumulate(RunStats &into, const RunStats &from) { add_stats(into, from); }
static void add_stats(RunStats &a, const RunStats &o)
{
    for (auto &kv : o.probes)
        a.probes[kv.first] += kv.second;
    a.nevents += o.nevents;
    a.ops_done += o.ops_done;
    a.ops_skipped += o.ops_skipped;
    a.checks += o.checks;
    a.api_fail += o.api_fail;
    for (int i = 0; i < simfs::EV_NKINDS; i++)
        a.evkinds[i] += o.evkinds[i];
    for (int i = 0; i < simfs::F_NKINDS; i++)
        a.faults[i] += o.faults[i];
}

static bool write_all(int fd, const void *p, size_t n)
{
    const char *c = (const char *)p;
    while (n) {
        ssize_t w = write(fd, c, n);
        if (w < 0) {
            if (errno == EINTR)
                continue;
            return false;
        }
        c += w;
        n -= (size_t)w;
    }
    return true;
}
static std::string read_all(int fd)
{
    std::string s;
    char        buf[65536];
    for (;;) {
        ssize_t r = read(fd, buf, sizeof buf);
        if (r < 0) {
            if (errno == EINTR)
                continue;
            break;
        }
        if (r == 0)
            break;
        s.append(buf, (size_t)r);
    }
    return s;
}

// ------------------------------------------------------------------------------------ child execution
static int g_cpu_limit_s = 20;

// first repo-looking frame of an ASan report, for the finding key
static std::string asan_key(const std::string &err)
{
    std::string kind = "unknown";
    size_t      p    = err.find("ERROR: AddressSanitizer: ");
    if (p != std::string::npos) {
        size_t e = err.find_first_of(" \n", p + 25);
        kind     = err.substr(p + 25, e - (p + 25));
    }
    std::string fn;
    size_t      q = p == std::string::npos ? 0 : p;
    while ((q = err.find(" in ", q)) != std::string::npos) {
        size_t      e    = err.find_first_of(" \n", q + 4);
        std::string name = err.substr(q + 4, e - (q + 4));
        size_t      eol  = err.find('\n', q);
        std::string line = err.substr(q, eol - q);
        q += 4;
        if (line.find("/repo/") != std::string::npos || line.find("hdf/src") != std::string::npos ||
            line.find("mfhdf/") != std::string::npos) {
            fn = name;
            break;
        }
    }
    return kind + "@" + (fn.empty() ? "?" : fn);
}

Outcome Exec::run(const Plan &plan, int mode, const std::string *in)
{
    Outcome out;
    children++;
    int pfd[2];
    if (pipe(pfd) != 0) {
        out.status = ST_ENGINE;
        out.v.msg  = "pipe failed";
        return out;
    }
    int efd = memfd_create("h4sim-stderr", 0);
    fflush(stdout);
    fflush(stderr);
    pid_t pid = fork();
    if (pid < 0) {
        out.status = ST_ENGINE;
        out.v.msg  = "fork failed";
        close(pfd[0]);
        close(pfd[1]);
        if (efd >= 0)
            close(efd);
        return out;
    }
    if (pid == 0) {
        close(pfd[0]);
        if (efd >= 0)
            dup2(efd, 2);
        struct rlimit rl;
        rl.rlim_cur = (rlim_t)g_cpu_limit_s;
        rl.rlim_max = (rlim_t)g_cpu_limit_s + 2;
        setrlimit(RLIMIT_CPU, &rl);
        rl.rlim_cur = rl.rlim_max = 0;
        setrlimit(RLIMIT_CORE, &rl);
        simfs::reset_all();
        Ctx ctx(plan);
        ctx.mode = mode;
        ctx.in   = in;
        Buf b;
        int status = ST_OK;
        Violation v;
        try {
            prof->execute(ctx);
        }
        catch (ViolationEx &e) {
            status = ST_VIOL;
            v      = e.v;
        }
        if (status == ST_OK && !simfs::misuse().empty()) {
            status = ST_VIOL;
            v.cls  = "stdio-misuse";
            v.key  = "stdio-misuse";
            v.msg  = simfs::misuse()[0];
            v.op   = ctx.cur_op;
        }
        if (const char *dd = getenv("H4SIM_DUMP_DIR")) {
            // debugging aid: materialise the simulated disk as real files
            for (auto &kv : simfs::disk()) {
                std::string name = kv.first.substr(5);
                for (auto &ch : name)
                    if (ch == '/')
                        ch = '_';
                FILE *df = fopen((std::string(dd) + "/" + name).c_str(), "wb");
                if (df) {
                    std::vector<uint8_t> bytes = simfs::file_bytes(simfs::disk(), kv.first);
                    fwrite(bytes.data(), 1, bytes.size(), df);
                    fclose(df);
                }
            }
        }
        ctx.st.evhash  = simfs::event_hash();
        ctx.st.nevents = simfs::nevents();
        if (ctx.st.diskhash == 0)
            ctx.st.diskhash = simfs::disk_hash(simfs::disk());
        for (int i = 0; i < simfs::EV_NKINDS; i++)
            ctx.st.evkinds[i] = simfs::kind_counts()[i];
        for (int i = 0; i < simfs::F_NKINDS; i++)
            ctx.st.faults[i] = simfs::fault_counts()[i];
        b.u64((uint64_t)status);
        b.str(v.cls);
        b.str(v.key);
        b.str(v.msg);
        b.u64((uint64_t)(int64_t)v.op);
        put_stats(b, ctx.st);
        b.str(ctx.out);
        b.u64(0x600DC0DEULL);
        write_all(pfd[1], b.s.data(), b.s.size());
        close(pfd[1]);
        _exit(0);
    }
    close(pfd[1]);
    Buf b;
    b.s = read_all(pfd[0]);
    close(pfd[0]);
    int wst = 0;
    while (waitpid(pid, &wst, 0) < 0 && errno == EINTR) {
    }
    if (efd >= 0) {
        lseek(efd, 0, SEEK_SET);
        out.stderr_text = read_all(efd);
        if (out.stderr_text.size() > 20000)
            out.stderr_text.resize(20000);
        close(efd);
    }
    bool complete = false;
    if (b.s.size() >= 8) {
        uint64_t tail;
        memcpy(&tail, b.s.data() + b.s.size() - 8, 8);
        complete = tail == 0x600DC0DEULL;
    }
    if (WIFEXITED(wst) && WEXITSTATUS(wst) == 0 && complete) {
        out.status = (int)b.g64();
        out.v.cls  = b.gstr();
        out.v.key  = b.gstr();
        out.v.msg  = b.gstr();
        out.v.op   = (int)(int64_t)b.g64();
        get_stats(b, out.st);
        out.blob = b.gstr();
        return out;
    }
    if (WIFEXITED(wst) && WEXITSTATUS(wst) == 77) {
        out.status = ST_ASAN;
        out.v.cls  = "memory-error";
        out.v.key  = "asan:" + asan_key(out.stderr_text);
        size_t p   = out.stderr_text.find("ERROR: AddressSanitizer");
        out.v.msg  = p == std::string::npos ? "sanitizer exit" : out.stderr_text.substr(p, 300);
        return out;
    }
    if (WIFSIGNALED(wst) && (WTERMSIG(wst) == SIGXCPU || WTERMSIG(wst) == SIGKILL)) {
        out.status = ST_HANG;
        out.v.cls  = "hang";
        out.v.key  = "hang";
        out.v.msg  = strf("child exceeded %d s of CPU time", g_cpu_limit_s);
        return out;
    }
    out.status = ST_CRASH;
    out.v.cls  = "crash";
    out.v.key  = WIFSIGNALED(wst) ? strf("signal-%d", WTERMSIG(wst)) : strf("exit-%d", WEXITSTATUS(wst));
    out.v.msg  = "child died: " + out.v.key + " " + out.stderr_text.substr(0, 300);
    return out;
}

Outcome Profile::judge(const Plan &plan, Exec &ex) { return ex.run(plan); }

// ------------------------------------------------------------------------------------ minimiser
static bool same_failure(const Outcome &o, int status, const Violation &v)
{
    if (o.status == ST_OK || o.status == ST_ENGINE)
        return false;
    // a memory error stays a memory error of the same kind; otherwise class and key must persist
    return o.status == status && o.v.cls == v.cls && o.v.key == v.key;
}

Plan minimise(Profile *prof, const Plan &plan0, const Violation &v, Exec &ex, int *evals_out)
{
    Plan best   = plan0;
    int  evals  = 0;
    int  budget = prof->minimise_budget();
    if (v.cls == "hang")
        budget = std::min(budget, 12); // every evaluation of a hang costs the whole CPU limit
    Outcome first = prof->judge(best, ex);
    evals++;
    int status = first.status;
    if (!same_failure(first, status, v)) {
        if (evals_out)
            *evals_out = evals;
        return best; // does not reproduce here; the gate will tell
    }
    auto test = [&](const Plan &p) {
        if (evals >= budget)
            return false;
        evals++;
        Outcome o = prof->judge(p, ex);
        return same_failure(o, status, v);
    };
    // faults refer to op indices: removing ops must renumber them
    // drop the removable ops in [from,to); structural ops and ops that carry a fault stay
    auto without_ops = [&](const Plan &p, size_t from, size_t to, Plan &q) {
        std::vector<int> newidx(p.ops.size(), -1);
        q = p;
        q.ops.clear();
        q.faults.clear();
        size_t dropped = 0;
        for (size_t i = 0; i < p.ops.size(); i++) {
            bool drop = i >= from && i < to && prof->removable(p, i);
            if (drop)
                for (auto &f : p.faults)
                    if ((size_t)f.op == i)
                        drop = false;
            if (drop) {
                dropped++;
                continue;
            }
            newidx[i] = (int)q.ops.size();
            q.ops.push_back(p.ops[i]);
        }
        if (!dropped)
            return false;
        for (auto f : p.faults) {
            if (f.op >= 0 && (size_t)f.op < newidx.size() && newidx[(size_t)f.op] >= 0)
                f.op = newidx[(size_t)f.op];
            q.faults.push_back(f);
        }
        return true;
    };
    // ddmin over ops
    size_t n = 2;
    while (best.ops.size() >= 2 && evals < budget) {
        size_t len     = best.ops.size();
        size_t chunk   = (len + n - 1) / n;
        bool   reduced = false;
        for (size_t start = 0; start < len; start += chunk) {
            size_t end = std::min(len, start + chunk);
            Plan   q;
            if (!without_ops(best, start, end, q))
                continue;
            if (test(q)) {
                best    = q;
                n       = n > 2 ? n - 1 : 2;
                reduced = true;
                break;
            }
        }
        if (!reduced) {
            if (chunk <= 1)
                break;
            n = std::min(n * 2, len);
        }
    }
    // single-op removal to a fixpoint
    for (bool again = true; again && evals < budget;) {
        again = false;
        for (size_t i = best.ops.size(); i-- > 0 && evals < budget;) {
            Plan q;
            if (!without_ops(best, i, i + 1, q))
                continue;
            if (test(q)) {
                best  = q;
                again = true;
            }
        }
    }
    // faults
    for (size_t i = best.faults.size(); prof->faults_removable() && i-- > 0 && evals < budget;) {
        Plan q = best;
        q.faults.erase(q.faults.begin() + (long)i);
        if (test(q))
            best = q;
    }
    // knobs back to defaults
    {
        std::vector<std::string> names;
        for (auto &kv : best.knobs)
            names.push_back(kv.first);
        for (auto &k : names) {
            if (evals >= budget)
                break;
            Plan q = best;
            q.knobs.erase(k);
            if (test(q))
                best = q;
        }
    }
    // arguments towards small
    for (int pass = 0; pass < 2 && evals < budget; pass++) {
        for (size_t i = 0; i < best.ops.size() && evals < budget; i++) {
            for (size_t j = 0; j < best.ops[i].a.size() && evals < budget; j++) {
                if (!prof->shrinkable(best.ops[i], j))
                    continue;
                int64_t cur = best.ops[i].a[j];
                if (cur <= 1)
                    continue;
                int64_t cands[3] = {1, cur / 2, cur - 1};
                for (int64_t c : cands) {
                    if (c >= best.ops[i].a[j] || c < 0)
                        continue;
                    Plan q        = best;
                    q.ops[i].a[j] = c;
                    if (test(q)) {
                        best = q;
                        break;
                    }
                }
            }
        }
    }
    if (evals_out)
        *evals_out = evals;
    return best;
}

// ------------------------------------------------------------------------------------ known findings
struct Known {
    std::string property, key, replay, text;
    bool        mask = false; // mask=yes: the key is a precise call-site key and also matched in the search;
                              // mask=no: the precondition is kept out of the search by a generator/executor guard
                              // and only the stored replay demonstrates the finding
};
static std::vector<Known> load_known(const std::string &dir, const std::string &prop)
{
    std::vector<Known> v;
    std::ifstream      in(dir + "/known_findings.txt");
    std::string        line;
    while (std::getline(in, line)) {
        if (line.compare(0, 8, "finding:") != 0)
            continue;
        Known  k;
        size_t p = line.find("property=");
        if (p == std::string::npos)
            continue;
        k.property = line.substr(p + 9, line.find(' ', p) - (p + 9));
        if (k.property != prop)
            continue;
        // key may contain spaces: it runs up to " replay="
        size_t kp = line.find(" key="), rp = line.find(" replay=");
        if (kp == std::string::npos || rp == std::string::npos)
            continue;
        k.key     = line.substr(kp + 5, rp - (kp + 5));
        size_t re = line.find(' ', rp + 8);
        k.replay  = line.substr(rp + 8, re == std::string::npos ? std::string::npos : re - (rp + 8));
        size_t dp = line.find(" -- ");
        k.text    = dp == std::string::npos ? "" : line.substr(dp + 4);
        k.mask    = line.find(" mask=yes") != std::string::npos && line.find(" mask=yes") < dp;
        v.push_back(k);
    }
    return v;
}

static std::string slurp(const std::string &path)
{
    std::ifstream     in(path, std::ios::binary);
    std::stringstream ss;
    ss << in.rdbuf();
    return ss.str();
}

// ------------------------------------------------------------------------------------ aggregation
struct Found {
    std::string plan_text;
    Violation   v;
    int         status;
    uint64_t    run;
};
struct Agg {
    uint64_t runs = 0, nontrivial_runs = 0, children = 0, truncated = 0;
    std::unordered_set<uint64_t> plans_nt, states, inter;
    RunStats                     st;
    uint64_t                     status_counts[ST_ENGINE + 1] = {0};
    std::vector<Found>           found;
    std::map<std::string, uint64_t> known_hits, viol_keys;
    std::vector<std::string>     samples;
};

static void put_agg(Buf &b, const Agg &a)
{
    b.u64(a.runs);
    b.u64(a.nontrivial_runs);
    b.u64(a.children);
    b.u64(a.truncated);
    b.u64(a.plans_nt.size());
    for (auto h : a.plans_nt)
        b.u64(h);
    b.u64(a.states.size());
    for (auto h : a.states)
        b.u64(h);
    b.u64(a.inter.size());
    for (auto h : a.inter)
        b.u64(h);
    put_stats(b, a.st);
    for (int i = 0; i <= ST_ENGINE; i++)
        b.u64(a.status_counts[i]);
    b.u64(a.found.size());
    for (auto &f : a.found) {
        b.str(f.plan_text);
        b.str(f.v.cls);
        b.str(f.v.key);
        b.str(f.v.msg);
        b.u64((uint64_t)(int64_t)f.v.op);
        b.u64((uint64_t)f.status);
        b.u64(f.run);
    }
    b.u64(a.known_hits.size());
    for (auto &kv : a.known_hits) {
        b.str(kv.first);
        b.u64(kv.second);
    }
    b.u64(a.samples.size());
    for (auto &s : a.samples)
        b.str(s);
    b.u64(a.viol_keys.size());
    for (auto &kv : a.viol_keys) {
        b.str(kv.first);
        b.u64(kv.second);
    }
}
static void merge_agg(Buf &b, Agg &a)
{
    a.runs += b.g64();
    a.nontrivial_runs += b.g64();
    a.children += b.g64();
    a.truncated += b.g64();
    uint64_t n = b.g64();
    for (uint64_t i = 0; i < n && b.ok(); i++)
        a.plans_nt.insert(b.g64());
    n = b.g64();
    for (uint64_t i = 0; i < n && b.ok(); i++)
        a.states.insert(b.g64());
    n = b.g64();
    for (uint64_t i = 0; i < n && b.ok(); i++)
        a.inter.insert(b.g64());
    RunStats st;
    get_stats(b, st);
    add_stats(a.st, st);
    for (int i = 0; i <= ST_ENGINE; i++)
        a.status_counts[i] += b.g64();
    n = b.g64();
    for (uint64_t i = 0; i < n && b.ok(); i++) {
        Found f;
        f.plan_text = b.gstr();
        f.v.cls     = b.gstr();
        f.v.key     = b.gstr();
        f.v.msg     = b.gstr();
        f.v.op      = (int)(int64_t)b.g64();
        f.status    = (int)b.g64();
        f.run       = b.g64();
        a.found.push_back(f);
    }
    n = b.g64();
    for (uint64_t i = 0; i < n && b.ok(); i++) {
        std::string k = b.gstr();
        a.known_hits[k] += b.g64();
    }
    n = b.g64();
    for (uint64_t i = 0; i < n && b.ok(); i++) {
        std::string s = b.gstr();
        if (a.samples.size() < 3)
            a.samples.push_back(s);
    }
    n = b.g64();
    for (uint64_t i = 0; i < n && b.ok(); i++) {
        std::string k = b.gstr();
        a.viol_keys[k] += b.g64();
    }
}

// distinct-interleaving measure: windows of (client, op kind) around every change of client
static void interleavings(const Plan &p, int ops_done, std::unordered_set<uint64_t> &set)
{
    int n = std::min<int>(ops_done, (int)p.ops.size());
    for (int i = 1; i < n; i++) {
        if (p.ops[(size_t)i].client == p.ops[(size_t)i - 1].client)
            continue;
        uint64_t h = 1469598103934665603ULL;
        for (int j = std::max(0, i - 2); j < std::min(n, i + 2); j++) {
            h = fnv64i((uint64_t)p.ops[(size_t)j].client, h);
            h = fnv64s(p.ops[(size_t)j].kind, h);
        }
        set.insert(h);
    }
}

static double now_s()
{
    // wall clock is used only for the batch cap and the evidence; never inside a simulated run
    return std::chrono::duration<double>(std::chrono::steady_clock::now().time_since_epoch()).count();
}

static void worker_loop(Profile *prof, const DriverOpts &o, bool thorough, uint64_t nruns, int w, int W,
                        const std::set<std::string> &known_keys, double deadline, const std::string &outpath)
{
    Agg  a;
    Exec ex;
    ex.prof = prof;
    for (uint64_t r = (uint64_t)w; r < nruns; r += (uint64_t)W) {
        if (deadline > 0 && now_s() > deadline) {
            a.truncated += (nruns - r + (uint64_t)W - 1) / (uint64_t)W;
            break;
        }
        Rng  rng(mix64(o.seed, r));
        Plan plan    = prof->generate(rng, thorough, r);
        plan.profile = prof->name();
        if (plan.seed == 0)
            plan.seed = mix64(o.seed, r);
        if (const char *fk = getenv("H4SIM_FORCE_KNOBS")) {
            // finding hunting by hand only: force knobs (e.g. switch a known-finding guard off) in every plan
            std::istringstream ks(fk);
            std::string        kv;
            while (std::getline(ks, kv, ',')) {
                size_t eq = kv.find('=');
                if (eq != std::string::npos)
                    plan.knobs[kv.substr(0, eq)] = atoll(kv.c_str() + eq + 1);
            }
        }
        Outcome out = prof->judge(plan, ex);
        if (const char *hl = getenv("H4SIM_HASHLOG")) {
            // determinism validation (tools/determinism.sh): one line per case, compared between two batches of the same seed
            FILE *hf = fopen(strf("%s/w%d.hash", hl, w).c_str(), "a");
            if (hf) {
                fprintf(hf, "%llu %016llx %d %016llx %016llx %016llx %u %d %s\n", (unsigned long long)r, (unsigned long long)plan.hash(), out.status,
                        (unsigned long long)out.st.evhash, (unsigned long long)out.st.transcript, (unsigned long long)out.st.diskhash, out.st.nevents, out.st.ops_done, out.v.key.c_str());
                fclose(hf);
            }
        }
        a.runs++;
        a.status_counts[out.status]++;
        add_stats(a.st, out.st);
        for (auto h : out.st.states)
            a.states.insert(h);
        interleavings(plan, out.st.ops_done, a.inter);
        if (out.status == ST_OK) {
            if (prof->nontrivial(out)) {
                a.nontrivial_runs++;
                a.plans_nt.insert(plan.hash());
                if (a.samples.size() < 1 && plan.ops.size() <= 40)
                    a.samples.push_back(plan.to_text());
            }
        }
        else if (out.status == ST_ENGINE) {
            Found f;
            f.plan_text = out.plan_text.empty() ? plan.to_text() : out.plan_text;
            f.v         = out.v;
            f.status    = out.status;
            f.run       = r;
            a.found.push_back(f);
        }
        else {
            a.viol_keys[out.v.key]++;
            if (known_keys.count(out.v.key))
                a.known_hits[out.v.key]++;
            else if (a.found.size() < 40) {
                // keep at most 3 per key
                int same = 0;
                for (auto &f : a.found)
                    if (f.v.key == out.v.key)
                        same++;
                if (same < 3) {
                    Found f;
                    f.plan_text = out.plan_text.empty() ? plan.to_text() : out.plan_text;
                    f.v         = out.v;
                    f.status    = out.status;
                    f.run       = r;
                    a.found.push_back(f);
                }
            }
        }
    }
    a.children = ex.children;
    add_stats(a.st, ex.agg_extra);
    Buf b;
    put_agg(b, a);
    b.u64(0x600DC0DEULL);
    int fd = open(outpath.c_str(), O_WRONLY | O_CREAT | O_TRUNC, 0644);
    if (fd >= 0) {
        write_all(fd, b.s.data(), b.s.size());
        close(fd);
    }
}

// ------------------------------------------------------------------------------------ evidence
static std::string jstr(const std::string &s) { return "\"" + json_escape(s) + "\""; }

static void write_evidence(const DriverOpts &o, Profile *prof, bool thorough, const Agg &a, double wall,
                           int violations, const std::vector<std::string> &known_lines, uint64_t planned_runs,
                           const std::vector<std::string> &viol_notes)
{
    std::string path = o.verif_dir + "/evidence/" + prof->property() + ".json";
    std::string tmp  = path + ".tmp";
    std::string j    = "{\n";
    j += " \"property_id\": " + jstr(prof->property()) + ",\n";
    j += std::string(" \"tier\": \"") + (thorough ? "thorough" : "quick") + "\",\n";
    j += strf(" \"seed\": %llu,\n", (unsigned long long)o.seed);
    j += std::string(" \"level\": \"") + prof->level() + "\",\n";
    j += " \"coverage\": {\n";
    j += strf("  \"evaluations\": %llu,\n", (unsigned long long)a.children);
    j += strf("  \"distinct_nontrivial\": %llu,\n", (unsigned long long)a.plans_nt.size());
    j += "  \"rule\": " + jstr(prof->rule()) + ",\n";
    j += "  \"samples\": [";
    for (size_t i = 0; i < a.samples.size(); i++)
        j += (i ? ", " : "") + jstr(a.samples[i]);
    if (a.samples.empty())
        j += jstr("(no sample plan of <= 40 ops in this run)");
    j += "],\n";
    j += strf("  \"cases_planned\": %llu,\n", (unsigned long long)planned_runs);
    j += strf("  \"cases_run\": %llu,\n", (unsigned long long)a.runs);
    j += strf("  \"cases_not_run_wall_cap\": %llu,\n", (unsigned long long)a.truncated);
    j += strf("  \"nontrivial_cases\": %llu,\n", (unsigned long long)a.nontrivial_runs);
    j += strf("  \"child_executions\": %llu,\n", (unsigned long long)a.children);
    j += strf("  \"seeds_per_hour\": %.0f,\n", wall > 0 ? (double)a.runs * 3600.0 / wall : 0.0);
    j += strf("  \"api_ops_executed\": %llu,\n", (unsigned long long)a.st.ops_done);
    j += strf("  \"api_ops_skipped_dead_slot\": %llu,\n", (unsigned long long)a.st.ops_skipped);
    j += strf("  \"api_calls_failed_legitimately\": %llu,\n", (unsigned long long)a.st.api_fail);
    j += strf("  \"oracle_checks\": %llu,\n", (unsigned long long)a.st.checks);
    j += strf("  \"simulated_io_events\": %llu,\n", (unsigned long long)a.st.nevents);
    j += "  \"simulated_time\": \"logical steps only (API ops and I/O events); the library reads no clock\",\n";
    j += "  \"io_events_by_kind\": {";
    for (int i = 0; i < simfs::EV_NKINDS; i++)
        j += strf("%s\"%s\": %llu", i ? ", " : "", simfs::evkind_name(i), (unsigned long long)a.st.evkinds[i]);
    j += "},\n";
    j += "  \"faults_fired_by_kind\": {";
    for (int i = 1; i < simfs::F_NKINDS; i++)
        j += strf("%s\"%s\": %llu", i > 1 ? ", " : "", simfs::fault_name(i), (unsigned long long)a.st.faults[i]);
    j += "},\n";
    j += strf("  \"distinct_states\": %llu,\n", (unsigned long long)a.states.size());
    j += "  \"distinct_states_measure\": \"distinct FNV hashes of the abstract model state observed after an op\",\n";
    j += strf("  \"distinct_interleavings\": %llu,\n", (unsigned long long)a.inter.size());
    j += "  \"distinct_interleavings_measure\": \"distinct (client, op-kind) windows of 4 ops around each change of client\",\n";
    j += "  \"probes\": {";
    bool first = true;
    for (auto &kv : a.st.probes) {
        j += strf("%s%s: %llu", first ? "" : ", ", jstr(kv.first).c_str(), (unsigned long long)kv.second);
        first = false;
    }
    j += "},\n";
    j += "  \"probes_stuck_at_zero\": [";
    first = true;
    for (auto &p : prof->required_probes()) {
        auto it = a.st.probes.find(p);
        if (it == a.st.probes.end() || it->second == 0) {
            j += (first ? "" : ", ") + jstr(p);
            first = false;
        }
    }
    j += "],\n";
    j += "  \"outcomes\": {";
    for (int i = 0; i <= ST_ENGINE; i++)
        j += strf("%s\"%s\": %llu", i ? ", " : "", status_name(i), (unsigned long long)a.status_counts[i]);
    j += "},\n";
    j += "  \"known_finding_hits\": {";
    first = true;
    for (auto &kv : a.known_hits) {
        j += strf("%s%s: %llu", first ? "" : ", ", jstr(kv.first).c_str(), (unsigned long long)kv.second);
        first = false;
    }
    j += "},\n";
    j += "  \"known_findings_reproduced\": [";
    for (size_t i = 0; i < known_lines.size(); i++)
        j += (i ? ", " : "") + jstr(known_lines[i]);
    j += "],\n";
    j += "  \"violations_reported\": [";
    for (size_t i = 0; i < viol_notes.size(); i++)
        j += (i ? ", " : "") + jstr(viol_notes[i]);
    j += "],\n";
    j += "  \"components\": {\"real\": \"all of hdf/src and mfhdf/src as built from /repo's working tree, zlib, libjpeg\", "
         "\"stub\": \"stdio (fopen fclose fread fwrite fseek ftell fflush), stat, remove, rename, getrlimit, getenv\", "
         "\"not_simulated\": \"clock, network, threads: the library has none\"}\n";
    j += " },\n";
    j += " \"assumptions\": [";
    auto as = prof->assumptions();
    for (size_t i = 0; i < as.size(); i++)
        j += (i ? ", " : "") + jstr(as[i]);
    j += "],\n";
    j += strf(" \"wall_s\": %.2f,\n", wall);
    j += strf(" \"violations\": %d\n", violations);
    j += "}\n";
    mkdir((o.verif_dir + "/evidence").c_str(), 0755);
    FILE *f = fopen(tmp.c_str(), "w");
    if (!f)
        return;
    fwrite(j.data(), 1, j.size(), f);
    fclose(f);
    rename(tmp.c_str(), path.c_str());
}

// ------------------------------------------------------------------------------------ replay / gate
// Execute a plan twice in fresh children and compare.  0 = no violation, 1 = violation (deterministic),
// 2 = nondeterministic.
static int replay_plan(Profile *prof, const Plan &plan, Outcome *first_out, bool quiet)
{
    Exec ex;
    ex.prof    = prof;
    Outcome o1 = prof->judge(plan, ex);
    Outcome o2 = prof->judge(plan, ex);
    if (first_out)
        *first_out = o1;
    bool same = o1.status == o2.status && o1.v.cls == o2.v.cls && o1.v.key == o2.v.key &&
                o1.st.evhash == o2.st.evhash && o1.st.transcript == o2.st.transcript;
    if (!same) {
        if (!quiet)
            printf("NONDETERMINISTIC replay: run1 %s/%s/%s ev=%016llx  run2 %s/%s/%s ev=%016llx\n",
                   status_name(o1.status), o1.v.cls.c_str(), o1.v.key.c_str(), (unsigned long long)o1.st.evhash,
                   status_name(o2.status), o2.v.cls.c_str(), o2.v.key.c_str(), (unsigned long long)o2.st.evhash);
        return 2;
    }
    return o1.status == ST_OK ? 0 : 1;
}

int replay_main(const DriverOpts &o)
{
    std::string text = slurp(o.replay);
    Plan        plan;
    if (!Plan::from_text(text, plan)) {
        fprintf(stderr, "cannot parse plan %s\n", o.replay.c_str());
        return 2;
    }
    Profile *prof = find_profile(plan.profile);
    if (!prof) {
        fprintf(stderr, "unknown profile %s\n", plan.profile.c_str());
        return 2;
    }
    Outcome out;
    int     rc = replay_plan(prof, plan, &out, false);
    if (rc == 2)
        return 2;
    if (rc == 0) {
        printf("replay: no violation (status ok, %d ops, %u I/O events, event-log hash %016llx)\n", out.st.ops_done,
               out.st.nevents, (unsigned long long)out.st.evhash);
        return 0;
    }
    printf("replay: %s class=%s key=%s at op %d: %s\n", status_name(out.status), out.v.cls.c_str(),
           out.v.key.c_str(), out.v.op, out.v.msg.c_str());
    if (o.verbose && !out.stderr_text.empty())
        printf("--- child stderr ---\n%s\n", out.stderr_text.c_str());
    if (!plan.expect_key.empty() && plan.expect_key != out.v.key)
        printf("replay: note: recorded key was '%s'\n", plan.expect_key.c_str());
    printf("VIOLATION property=%s replay=%s\n", prof->property(), o.replay.c_str());
    return 1;
}

// run `self --replay path` in a fresh process; returns its exit code
static int fresh_replay(const std::string &path)
{
    fflush(stdout);
    pid_t pid = fork();
    if (pid == 0) {
        int dn = open("/dev/null", O_WRONLY);
        if (dn >= 0) {
            dup2(dn, 1);
            dup2(dn, 2);
        }
        execl("/proc/self/exe", "h4sim", "--replay", path.c_str(), (char *)nullptr);
        _exit(3);
    }
    int wst = 0;
    while (waitpid(pid, &wst, 0) < 0 && errno == EINTR) {
    }
    return WIFEXITED(wst) ? WEXITSTATUS(wst) : 3;
}

// ------------------------------------------------------------------------------------ driver
int driver_main(const DriverOpts &o)
{
    Profile *prof = find_profile(o.property);
    if (!prof) {
        fprintf(stderr, "no profile for property %s\n", o.property.c_str());
        return 2;
    }
    bool     thorough = o.tier == "thorough";
    uint64_t nruns    = o.runs_override >= 0 ? (uint64_t)o.runs_override : (uint64_t)prof->runs(thorough);
    double   t0       = now_s();
    double   cap      = o.wall_cap_s > 0 ? o.wall_cap_s : (thorough ? 1500.0 : 240.0);
    printf("h4sim: property=%s profile=%s tier=%s seed=%llu cases=%llu workers=%d\n", prof->property(), prof->name(),
           o.tier.c_str(), (unsigned long long)o.seed, (unsigned long long)nruns, o.workers);

    // 1. known findings: re-execute the stored replays first
    std::vector<Known>       known = load_known(o.verif_dir, prof->property());
    std::set<std::string>    known_keys;
    std::vector<std::string> known_lines;
    std::vector<std::pair<Plan, Outcome>> changed_known;
    unsigned                              regress_run = 0, stale_known = 0;
    for (auto &k : known) {
        if (k.mask)
            known_keys.insert(k.key);
        if (k.replay.empty() || k.replay == "-")
            continue;
        Plan        plan;
        std::string text = slurp(o.verif_dir + "/" + k.replay);
        if (!Plan::from_text(text, plan) || plan.profile != prof->name()) {
            // a finding of this property recorded by another profile: skip here
            if (plan.profile.empty())
                fprintf(stderr, "warning: cannot read stored replay %s\n", k.replay.c_str());
            continue;
        }
        Exec ex;
        ex.prof     = prof;
        Outcome out = prof->judge(plan, ex);
        if (out.status != ST_OK && out.status != ST_ENGINE && out.v.key == k.key) {
            std::string line = strf("KNOWN-FINDING: property=%s %s [key=%s replay=%s]", prof->property(),
                                    k.text.c_str(), k.key.c_str(), k.replay.c_str());
            printf("%s\n", line.c_str());
            known_lines.push_back(line);
        }
        else if (out.status != ST_OK && out.status != ST_ENGINE) {
            // the stored history fails, but not in the recorded way: unless that way is listed too, it is a
            // violation of its own (a known finding covers one failure, not whatever its replay may do)
            bool listed = false;
            for (auto &k2 : known)
                listed |= k2.key == out.v.key;
            if (listed)
                printf("note: stored replay %s fails with the key of another listed finding (key=%s)\n", k.replay.c_str(),
                       out.v.key.c_str());
            else {
                printf("note: stored replay %s now fails differently (key=%s, recorded %s)\n", k.replay.c_str(),
                       out.v.key.c_str(), k.key.c_str());
                changed_known.push_back({plan, out});
            }
        }
        else if (out.status == ST_OK) {
            // the stored history does not fail any more: the finding was repaired (then it belongs under "fixed:"), or the
            // workload changed under the replay and it has to be made anew -- either way somebody has to look
            printf("note: stored replay %s of a listed finding (key=%s) does not fail any more: no KNOWN-FINDING line for it\n",
                   k.replay.c_str(), k.key.c_str());
            stale_known++;
        }
    }

    // 1b. repaired findings: the stored histories under findings/fixed are regression replays; one that fails again
    //     (in a way no listed finding covers) is a violation
    {
        std::vector<std::string> fixed;
        std::string              fdir = o.verif_dir + "/findings/fixed";
        if (DIR *d = opendir(fdir.c_str())) {
            while (struct dirent *de = readdir(d)) {
                std::string n = de->d_name;
                if (n.size() > 5 && n.substr(n.size() - 5) == ".plan")
                    fixed.push_back(n);
            }
            closedir(d);
        }
        std::sort(fixed.begin(), fixed.end());
        for (auto &n : fixed) {
            Plan plan;
            if (!Plan::from_text(slurp(fdir + "/" + n), plan) || plan.profile != prof->name())
                continue;
            Exec ex;
            ex.prof     = prof;
            Outcome out = prof->judge(plan, ex);
            regress_run++;
            if (out.status == ST_OK || out.status == ST_ENGINE)
                continue;
            bool listed = false;
            for (auto &k2 : known)
                listed |= k2.key == out.v.key;
            if (listed)
                continue;
            printf("note: the stored history of a repaired finding fails again: findings/fixed/%s (key=%s)\n", n.c_str(),
                   out.v.key.c_str());
            changed_known.push_back({plan, out});
        }
        if (regress_run)
            printf("h4sim: %u stored histories of repaired findings re-executed\n", regress_run);
    }

    // 2. the batch
    std::string rundir = o.verif_dir + "/.build/run";
    mkdir((o.verif_dir + "/.build").c_str(), 0755);
    mkdir(rundir.c_str(), 0755);
    int W = o.workers;
    if ((uint64_t)W > nruns)
        W = nruns ? (int)nruns : 1;
    std::vector<pid_t>       pids;
    std::vector<std::string> outs;
    fflush(stdout);
    for (int w = 0; w < W; w++) {
        std::string outp = strf("%s/%d.%d.res", rundir.c_str(), (int)getpid(), w);
        outs.push_back(outp);
        pid_t pid = fork();
        if (pid == 0) {
            worker_loop(prof, o, thorough, nruns, w, W, known_keys, t0 + cap, outp);
            _exit(0);
        }
        pids.push_back(pid);
    }
    Agg  agg;
    bool engine_error = false;
    for (int w = 0; w < W; w++) {
        int wst = 0;
        while (waitpid(pids[(size_t)w], &wst, 0) < 0 && errno == EINTR) {
        }
        Buf b;
        b.s = slurp(outs[(size_t)w]);
        unlink(outs[(size_t)w].c_str());
        bool complete = false;
        if (b.s.size() >= 8) {
            uint64_t tail;
            memcpy(&tail, b.s.data() + b.s.size() - 8, 8);
            complete = tail == 0x600DC0DEULL;
        }
        if (!WIFEXITED(wst) || WEXITSTATUS(wst) != 0 || !complete) {
            fprintf(stderr, "engine error: worker %d died (status 0x%x)\n", w, wst);
            engine_error = true;
            continue;
        }
        merge_agg(b, agg);
    }

    // 3. violations: minimise, gate, report
    int                      reported = 0, gate_failed = 0;
    std::vector<std::string> viol_notes;
    std::set<std::string>    seen_keys;
    std::sort(agg.found.begin(), agg.found.end(), [](const Found &a, const Found &b) { return a.run < b.run; });
    mkdir((o.verif_dir + "/replays").c_str(), 0755);
    for (auto &f : agg.found) {
        if (f.status == ST_ENGINE) {
            fprintf(stderr, "engine error in case %llu: %s\n", (unsigned long long)f.run, f.v.msg.c_str());
            engine_error = true;
            continue;
        }
        static const int max_report = getenv("H4SIM_MAX_REPORT") ? atoi(getenv("H4SIM_MAX_REPORT")) : 4;
        if (seen_keys.count(f.v.key) || reported >= max_report)
            continue;
        Plan plan;
        Plan::from_text(f.plan_text, plan);
        Exec ex;
        ex.prof   = prof;
        int evals = 0;
        Plan minp = o.no_minimise ? plan : minimise(prof, plan, f.v, ex, &evals);
        minp.expect_class = f.v.cls;
        minp.expect_key   = f.v.key;
        minp.note         = f.v.msg;
        if (!o.no_minimise) {
            Outcome mo = prof->judge(minp, ex);
            if (mo.status != ST_OK && mo.v.key == f.v.key) {
                minp.note = mo.v.msg;
                f.v.msg   = mo.v.msg;
                f.v.op    = mo.v.op;
            }
        }
        std::string path  = strf("%s/replays/%s-seed%llu-case%llu.plan", o.verif_dir.c_str(), prof->property(),
                                (unsigned long long)o.seed, (unsigned long long)f.run);
        FILE       *fp    = fopen(path.c_str(), "w");
        if (fp) {
            std::string t = minp.to_text();
            fwrite(t.data(), 1, t.size(), fp);
            fclose(fp);
        }
        int rc = fresh_replay(path);
        if (rc == 1) {
            // the replay reproduces deterministically in a fresh process
            seen_keys.insert(f.v.key);
            reported++;
            printf("violation: %s class=%s key=%s op=%d: %s\n", status_name(f.status), f.v.cls.c_str(),
                   f.v.key.c_str(), f.v.op, f.v.msg.c_str());
            printf("  minimised %zu ops/%zu faults -> %zu ops/%zu faults in %d evaluations\n", plan.ops.size(),
                   plan.faults.size(), minp.ops.size(), minp.faults.size(), evals);
            printf("VIOLATION property=%s replay=%s\n", prof->property(), path.c_str());
            viol_notes.push_back(strf("%s key=%s ops=%zu replay=%s: %s", f.v.cls.c_str(), f.v.key.c_str(),
                                      minp.ops.size(), path.c_str(), f.v.msg.c_str()));
        }
        else {
            // try the unminimised plan before giving up
            plan.expect_class = f.v.cls;
            plan.expect_key   = f.v.key;
            fp                = fopen(path.c_str(), "w");
            if (fp) {
                std::string t = plan.to_text();
                fwrite(t.data(), 1, t.size(), fp);
                fclose(fp);
            }
            rc = fresh_replay(path);
            if (rc == 1) {
                seen_keys.insert(f.v.key);
                reported++;
                printf("violation (unminimised): %s class=%s key=%s: %s\n", status_name(f.status), f.v.cls.c_str(),
                       f.v.key.c_str(), f.v.msg.c_str());
                printf("VIOLATION property=%s replay=%s\n", prof->property(), path.c_str());
                viol_notes.push_back(strf("%s key=%s replay=%s: %s", f.v.cls.c_str(), f.v.key.c_str(), path.c_str(),
                                          f.v.msg.c_str()));
            }
            else {
                gate_failed++;
                fprintf(stderr,
                        "NONDETERMINISTIC: case %llu (key=%s) did not reproduce from its replay file in a fresh "
                        "process (rc=%d); not reported as a violation\n",
                        (unsigned long long)f.run, f.v.key.c_str(), rc);
            }
        }
    }
    for (size_t ci = 0; ci < changed_known.size(); ci++) {
        Plan    &cp = changed_known[ci].first;
        Outcome &co = changed_known[ci].second;
        if (seen_keys.count(co.v.key))
            continue;
        cp.expect_class  = co.v.cls;
        cp.expect_key    = co.v.key;
        cp.note          = co.v.msg;
        std::string path = strf("%s/replays/%s-seed%llu-stored%zu.plan", o.verif_dir.c_str(), prof->property(),
                                (unsigned long long)o.seed, ci);
        FILE       *fp   = fopen(path.c_str(), "w");
        if (fp) {
            std::string t = cp.to_text();
            fwrite(t.data(), 1, t.size(), fp);
            fclose(fp);
        }
        if (fresh_replay(path) == 1) {
            seen_keys.insert(co.v.key);
            reported++;
            printf("violation: a stored replay (known or repaired finding) fails in an unlisted way: class=%s key=%s: %s\n",
                   co.v.cls.c_str(), co.v.key.c_str(), co.v.msg.c_str());
            printf("VIOLATION property=%s replay=%s\n", prof->property(), path.c_str());
            viol_notes.push_back(strf("%s key=%s replay=%s: %s", co.v.cls.c_str(), co.v.key.c_str(), path.c_str(), co.v.msg.c_str()));
        }
        else
            gate_failed++;
    }
    double wall = now_s() - t0;
    write_evidence(o, prof, thorough, agg, wall, reported, known_lines, nruns, viol_notes);
    printf("h4sim: %llu cases (%llu non-trivial, %llu distinct), %llu child executions, %llu ops, %llu I/O events, "
           "%llu distinct states, %.1f s\n",
           (unsigned long long)agg.runs, (unsigned long long)agg.nontrivial_runs,
           (unsigned long long)agg.plans_nt.size(), (unsigned long long)agg.children,
           (unsigned long long)agg.st.ops_done, (unsigned long long)agg.st.nevents,
           (unsigned long long)agg.states.size(), wall);
    if (agg.truncated)
        printf("h4sim: wall cap reached: %llu planned cases not run\n", (unsigned long long)agg.truncated);
    for (auto &kv : agg.known_hits)
        printf("h4sim: %llu cases hit known finding key=%s\n", (unsigned long long)kv.second, kv.first.c_str());
    for (auto &kv : agg.viol_keys)
        printf("h4sim: %llu cases failed with key=%s\n", (unsigned long long)kv.second, kv.first.c_str());
    if (o.verbose) {
        for (auto &kv : agg.st.probes)
            printf("  probe %-40s %llu\n", kv.first.c_str(), (unsigned long long)kv.second);
    }
    if (reported)
        return 1;
    if (engine_error || gate_failed)
        return 2;
    return 0;
}

} // namespace h4
