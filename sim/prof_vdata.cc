// prof_vdata.cc -- C07: Vdata tables return exactly the records written, for any schema and access.
#include "hx.h"

namespace h4 {
namespace {

const int NVD = 3, MAXCLIENT = 2, NSLOT = 2, MAXF = 5;

struct FT {
    int32 code;
    int   size;
    int   cls; // 0 integer bytes, 1 char, 2 float32, 3 float64
};
const FT  FTS[] = {{DFNT_INT8, 1, 0},  {DFNT_UINT8, 1, 0},  {DFNT_INT16, 2, 0},   {DFNT_UINT16, 2, 0}, {DFNT_INT32, 4, 0},
                   {DFNT_UINT32, 4, 0}, {DFNT_FLOAT32, 4, 2}, {DFNT_FLOAT64, 8, 3}, {DFNT_CHAR8, 1, 1}};
const int NFT   = 9;

struct Field {
    int type, order;
    int size() const { return FTS[type].size * order; }
};
struct MTable {
    bool                 exists = false;
    int32                ref    = 0;
    int                  nf     = 0;
    Field                f[MAXF];
    int                  stored_il = FULL_INTERLACE;
    std::vector<uint8_t> rec; // records, each packed in field order (machine representation)
    int                  recsize() const
    {
        int n = 0;
        for (int j = 0; j < nf; j++)
            n += f[j].size();
        return n;
    }
    int32 nrec() const { return recsize() ? (int32)(rec.size() / (size_t)recsize()) : 0; }
    int   foff(int j) const
    {
        int n = 0;
        for (int q = 0; q < j; q++)
            n += f[q].size();
        return n;
    }
};
struct Slot {
    bool  live = false;
    int32 vkey = FAIL;
    int   v    = 0;
    bool  wr   = false;
    bool  fresh = false; // just attached for read, nothing done on the vdata since
};

static void field_value(const FT &t, uint64_t dseed, uint64_t n, uint8_t *out)
{
    uint64_t w = mix64(dseed, n);
    switch (t.cls) {
        case 2: {
            float f = (float)(int32)(w % 200001) - 100000.0f;
            memcpy(out, &f, 4);
            break;
        }
        case 3: {
            double f = (double)(int64_t)(w % 2000000001ULL) - 1000000000.0;
            memcpy(out, &f, 8);
            break;
        }
        case 1:
            out[0] = (uint8_t)('!' + w % 90);
            break;
        default:
            memcpy(out, &w, (size_t)t.size);
    }
}

struct VData : Profile {
    const char *name() const override { return "vdata"; }
    const char *property() const override { return "C07"; }
    int         runs(bool thorough) const override { return thorough ? 200000 : 10000; }
    std::string rule() const override
    {
        return "each case = one generated plan: up to 3 Vdatas with generated schemas (1..5 fields, 9 number types, orders "
               "1..3, stored interlace, block size), 15..70 ops by 1..2 clients: record writes (overwrite, append, "
               "overwrite-and-append, both buffer interlaces), reads of any range with any field subset/permutation in "
               "both buffer interlaces, inquiries, pack/unpack, detach/re-attach, unrelated elements in between, "
               "restarts; oracle = table-of-records model; non-trivial = >= 2 ops and >= 1 comparison";
    }
    std::vector<std::string> assumptions() const override
    {
        return {"a Vdata has either one writing attachment or any number of reading attachments (VSattach documents "
                "writing while attached as forbidden)",
                "NO_INTERLACE stored Vdatas are written once as a whole table"};
    }
    std::vector<std::string> required_probes() const override
    {
        return {"append", "overwrite", "overwrite+append", "subset-read", "no-interlace-buffer", "reattach", "restart",
                "two-readers", "read-without-seek", "fpack", "stored-no-interlace", "field-names-at-the-limit"};
    }

    Plan generate(Rng &rng, bool thorough, uint64_t) override
    {
        Plan p;
        p.seed             = rng.next();
        Rng kr             = rng.sub(1);
        p.knobs["clients"] = kr.range(1, MAXCLIENT);
        p.knobs["ndds"]    = kr.chance(0.5) ? kr.range(2, 8) : 16;
        p.knobs["longnames"] = kr.chance(0.25) ? 1 : 0; // field names of 124..128 characters
        p.knobs["namesdesc"] = kr.chance(0.5) ? 1 : 0;  // longer field names first
        p.knobs["deforder"] = kr.chance(0.5) ? (int64_t)kr.range(1, 2) : 0; // fields defined 1: in reverse, 2: after one that is never used -- the field list keeps its order
        if (kr.chance(0.6))
            p.knobs["vsbuf"] = kr.chance(0.5) ? kr.range(8, 64) : kr.range(65, 600); // internal transfer buffer (hook)
        if (kr.chance(0.4)) {
            p.knobs["blklen"] = kr.range(8, 200); // linked blocks of silently promoted Vdata storage (hook)
            p.knobs["blknum"] = kr.range(1, 4);
        }
        Rng   r = rng.sub(2);
        Sched sc(r, (int)p.knobs["clients"]);
        int   nops = (int)r.range(15, thorough ? 110 : 70), nvd = (int)r.range(1, NVD);
        int   maxrec = r.chance(0.15) ? 400 : 30;
        auto  mkcreate = [&](int c, int v) {
            Op o = mkop(c, "create", {v, r.range(1, MAXF)});
            for (int j = 0; j < MAXF; j++) {
                o.a.push_back((int64_t)r.below(NFT));
                o.a.push_back(r.chance(0.7) ? 1 : r.range(2, 3));
            }
            o.a.push_back(r.chance(0.12) ? 1 : 0);                 // stored NO_INTERLACE
            o.a.push_back(r.chance(0.4) ? r.range(1, 300) : 0);    // block size
            o.a.push_back(r.sizeish(maxrec));                      // initial records
            o.a.push_back((int64_t)(r.next() >> 16));
            o.a.push_back((int64_t)r.below(NSLOT));
            return o;
        };
        p.ops.push_back(mkcreate(0, 0));
        static const std::vector<int> w     = {/*create*/ 3, /*attach*/ 10, /*detach*/ 8, /*write*/ 22, /*read*/ 26, /*inquire*/ 5,
                                               /*fpack*/ 3,  /*other*/ 5,   /*restart*/ 3};
        static const char            *names[] = {"create", "attach", "detach", "write", "read", "inquire", "fpack", "other", "restart"};
        for (int i = 0; i < nops; i++) {
            int     c = sc.next(r);
            int     k = r.weighted(w);
            int64_t v = (int64_t)r.below((uint64_t)nvd), sl = (int64_t)r.below(NSLOT);
            switch (k) {
                case 0:
                    p.ops.push_back(mkcreate(c, (int)v));
                    break;
                case 1:
                    p.ops.push_back(mkop(c, names[k], {sl, v, r.chance(0.45) ? 1 : 0}));
                    break;
                case 2:
                    p.ops.push_back(mkop(c, names[k], {sl}));
                    break;
                case 5: // second argument 1: first ask for the other interlace (refused once records exist; nothing may change)
                    p.ops.push_back(mkop(c, names[k], {sl, r.chance(0.4) ? 1 : 0}));
                    break;
                case 3: // write: position fraction (1000 = append at end), count, data, buffer interlace
                    p.ops.push_back(mkop(c, names[k], {sl, r.chance(0.4) ? 1000 : (int64_t)r.below(1000), 1 + r.sizeish(maxrec),
                                                       (int64_t)(r.next() >> 16), r.chance(0.3) ? 1 : 0}));
                    break;
                case 4: // read: position fraction (-1 = no seek), count fraction, field-selection seed, buffer interlace
                    p.ops.push_back(mkop(c, names[k], {sl, r.chance(0.1) ? -1 : (int64_t)r.below(1000), (int64_t)r.below(1000),
                                                       (int64_t)r.below(100000), r.chance(0.3) ? 1 : 0}));
                    break;
                case 6:
                    p.ops.push_back(mkop(c, names[k], {sl, 1 + r.sizeish(8), (int64_t)(r.next() >> 16)}));
                    break;
                case 7:
                    p.ops.push_back(mkop(c, names[k], {(int64_t)r.below(50), 1 + r.sizeish(60)}));
                    break;
                case 8:
                    p.ops.push_back(mkop(c, names[k], {}));
                    break;
            }
        }
        p.ops.push_back(mkop(0, "restart", {}));
        return p;
    }

    struct S {
        Ctx   &ctx;
        MTable t[NVD];
        Slot   sl[MAXCLIENT][NSLOT];
        int32  fid = FAIL;
        bool   on_disk = false;
        explicit S(Ctx &c) : ctx(c) {}
    };
    const std::string path = "/sim/vd.hdf";

    // every field name is a proper prefix of the next one: a lookup that compares a prefix only picks the wrong field
    // (with knob longnames the names are 124..128 characters long: 128 is the longest name a field may have)
    static bool &longnames()
    {
        static bool v = false;
        return v;
    }
    // (with knob namesdesc the longer names come first in the record, so that a shorter name is a prefix of a field stored BEFORE it)
    static bool &namesdesc()
    {
        static bool v = false;
        return v;
    }
    static std::string fname(int j) { return (longnames() ? std::string(123, 'n') : std::string()) + "f" + std::string("wxyz").substr(0, (size_t)(namesdesc() ? MAXF - 1 - j : j)); }
    static std::string allfields(const MTable &t)
    {
        std::string s;
        for (int j = 0; j < t.nf; j++)
            s += (j ? "," : "") + fname(j);
        return s;
    }
    int attached(S &s, int v, bool writers_only)
    {
        int n = 0;
        for (int c = 0; c < MAXCLIENT; c++)
            for (int k = 0; k < NSLOT; k++)
                if (s.sl[c][k].live && s.sl[c][k].v == v && (!writers_only || s.sl[c][k].wr))
                    n++;
        return n;
    }
    void touch(S &s, int v)
    {
        for (int c = 0; c < MAXCLIENT; c++)
            for (int k = 0; k < NSLOT; k++)
                if (s.sl[c][k].live && s.sl[c][k].v == v)
                    s.sl[c][k].fresh = false;
    }
    void open_file(S &s, int ndds)
    {
        s.fid = Hopen(path.c_str(), s.on_disk ? DFACC_RDWR : DFACC_CREATE, (int16)ndds);
        if (s.fid == FAIL || Vstart(s.fid) == FAIL)
            s.ctx.fail("open-failed", "open-failed", "Hopen/Vstart failed");
        s.on_disk = true;
    }
    void detach(S &s, int c, int k)
    {
        Slot &sl = s.sl[c][k];
        if (!sl.live)
            return;
        if (VSdetach(sl.vkey) == FAIL)
            s.ctx.fail("detach-failed", "detach-failed", strf("VSdetach(vd%d) failed", sl.v));
        sl.live = false;
    }

    // records [pos,pos+n) for the field selection `sel` (indices into the schema), in the given buffer interlace
    std::vector<uint8_t> expect(const MTable &t, int32 pos, int32 n, const std::vector<int> &sel, int il)
    {
        int usz = 0;
        for (int j : sel)
            usz += t.f[j].size();
        std::vector<uint8_t> out((size_t)usz * (size_t)n);
        int                  rs = t.recsize();
        if (il == FULL_INTERLACE) {
            uint8_t *p = out.data();
            for (int32 r = 0; r < n; r++)
                for (int j : sel) {
                    memcpy(p, t.rec.data() + (size_t)(pos + r) * (size_t)rs + (size_t)t.foff(j), (size_t)t.f[j].size());
                    p += t.f[j].size();
                }
        }
        else {
            uint8_t *p = out.data();
            for (int j : sel)
                for (int32 r = 0; r < n; r++) {
                    memcpy(p, t.rec.data() + (size_t)(pos + r) * (size_t)rs + (size_t)t.foff(j), (size_t)t.f[j].size());
                    p += t.f[j].size();
                }
        }
        return out;
    }

    void check_read(S &s, int v, int32 vkey, int32 pos, int32 n, const std::vector<int> &sel, int il, bool seek, const char *when)
    {
        MTable     &t = s.t[v];
        std::string fl;
        for (size_t q = 0; q < sel.size(); q++)
            fl += (q ? "," : "") + fname(sel[q]);
        if (VSsetfields(vkey, fl.c_str()) == FAIL)
            s.ctx.fail("setfields-refused", "setfields-refused:read", strf("VSsetfields(vd%d, \"%s\") for reading failed (%s)", v, fl.c_str(), when));
        if (seek && VSseek(vkey, pos) != pos)
            s.ctx.fail("seek-refused", "seek-refused", strf("VSseek(vd%d, %d) failed; %d records (%s)", v, (int)pos, (int)t.nrec(), when));
        std::vector<uint8_t> want = expect(t, pos, n, sel, il);
        std::vector<uint8_t> buf(want.size() + 64, 0x5A);
        int32                got = VSread(vkey, buf.data(), n, il);
        s.ctx.tr((uint64_t)got);
        s.ctx.st.checks++;
        if (got != n)
            s.ctx.fail("count-mismatch", "count-mismatch:read",
                       strf("VSread(vd%d, %d records at %d, fields %s) returned %d; table has %d records (%s)", v, (int)n, (int)pos,
                            fl.c_str(), (int)got, (int)t.nrec(), when));
        for (size_t j = want.size(); j < buf.size(); j++)
            if (buf[j] != 0x5A)
                s.ctx.fail("buffer-overrun", "buffer-overrun:read", strf("VSread(vd%d) wrote beyond the requested records", v));
        if (memcmp(buf.data(), want.data(), want.size()) != 0) {
            size_t at = 0;
            while (at < want.size() && buf[at] == want[at])
                at++;
            s.ctx.fail("value-mismatch", strf("value-mismatch:%s:%s", il == FULL_INTERLACE ? "full" : "no", sel.size() == (size_t)t.nf ? "all" : "subset"),
                       strf("VSread(vd%d, %d records at %d, fields %s, %s buffer; stored interlace %d): byte %zu of the buffer is %02x, "
                            "model has %02x (%s)",
                            v, (int)n, (int)pos, fl.c_str(), il == FULL_INTERLACE ? "FULL_INTERLACE" : "NO_INTERLACE", t.stored_il, at,
                            buf[at], want[at], when));
        }
        s.ctx.trb(buf.data(), want.size());
    }

    void check_inquire(S &s, int v, int32 vkey, const char *when)
    {
        MTable &t = s.t[v];
        int32   n = 0, il = 0, sz = 0;
        char    flds[1024] = "", nm[128] = "";
        if (VSinquire(vkey, &n, &il, flds, &sz, nm) == FAIL)
            s.ctx.fail("inquire-failed", "inquire-failed", strf("VSinquire(vd%d) failed (%s)", v, when));
        s.ctx.st.checks++;
        if (n != t.nrec() || VSelts(vkey) != t.nrec())
            s.ctx.fail("count-mismatch", "count-mismatch:inquire",
                       strf("vd%d: VSinquire says %d records, VSelts %d, model %d (%s)", v, (int)n, (int)VSelts(vkey), (int)t.nrec(), when));
        if (il != t.stored_il || strcmp(nm, strf("vd%d", v).c_str()) != 0 || VFnfields(vkey) != t.nf)
            s.ctx.fail("schema-mismatch", "schema-mismatch",
                       strf("vd%d: interlace %d name '%s' nfields %d; model interlace %d nfields %d (%s)", v, (int)il, nm,
                            (int)VFnfields(vkey), t.stored_il, t.nf, when));
        for (int j = 0; j < t.nf; j++) {
            const char *fnm = VFfieldname(vkey, j);
            if (!fnm || fname(j) != fnm || VFfieldtype(vkey, j) != FTS[t.f[j].type].code || VFfieldorder(vkey, j) != t.f[j].order ||
                VFfieldisize(vkey, j) != t.f[j].size() || VFfieldesize(vkey, j) != t.f[j].size())
                s.ctx.fail("schema-mismatch", "schema-mismatch:field",
                           strf("vd%d field %d: name %s type %d order %d isize %d esize %d; model %s type %d order %d size %d (%s)", v, j,
                                fnm ? fnm : "(null)", (int)VFfieldtype(vkey, j), (int)VFfieldorder(vkey, j), (int)VFfieldisize(vkey, j),
                                (int)VFfieldesize(vkey, j), fname(j).c_str(), (int)FTS[t.f[j].type].code, t.f[j].order, t.f[j].size(), when));
        }
        if (VSsizeof(vkey, (char *)allfields(t).c_str()) != t.recsize())
            s.ctx.fail("schema-mismatch", "schema-mismatch:sizeof",
                       strf("vd%d: VSsizeof(all fields) = %d, model %d (%s)", v, (int)VSsizeof(vkey, (char *)allfields(t).c_str()), t.recsize(), when));
    }

    void execute(Ctx &ctx) override
    {
        S           s(ctx);
        const Plan &p    = ctx.plan;
        int         ncl  = (int)std::min<int64_t>(MAXCLIENT, std::max<int64_t>(1, p.knob("clients", 1)));
        int         ndds = (int)p.knob("ndds", 16);
        apply_hook_knobs(p);
        longnames() = p.knob("longnames", 0) != 0;
        namesdesc() = p.knob("namesdesc", 0) != 0;
        if (longnames())
            ctx.probe("field-names-at-the-limit");
        for (size_t i = 0; i < p.ops.size(); i++) {
            const Op &o = p.ops[i];
            ctx.begin_op((int)i);
            int                c = modn(o.client, ncl);
            const std::string &k = o.kind;
            bool               done = true;
            if (s.fid == FAIL && k != "restart")
                open_file(s, ndds);
            if (k == "create") {
                int     v  = modn(o.arg(0), NVD);
                MTable &t  = s.t[v];
                Slot   &sl = s.sl[c][modn(o.arg(2 + 2 * MAXF + 4), NSLOT)];
                if (t.exists || sl.live)
                    done = false;
                else {
                    t        = MTable();
                    t.nf     = (int)std::max<int64_t>(1, std::min<int64_t>(MAXF, o.arg(1)));
                    int32 vk = VSattach(s.fid, -1, "w");
                    if (vk == FAIL)
                        ctx.fail("attach-refused", "attach-refused:new", "VSattach(-1, w) failed");
                    for (int j = 0; j < t.nf; j++) {
                        t.f[j].type  = modn(o.arg(2 + 2 * j), NFT);
                        t.f[j].order = (int)std::max<int64_t>(1, std::min<int64_t>(3, o.arg(3 + 2 * j)));
                    }
                    // the order of the definitions is not the order of the field list (which is the order of the record)
                    int deforder = (int)p.knob("deforder", 0);
                    if (deforder == 2 && VSfdefine(vk, "never_used", DFNT_FLOAT64, 3) == FAIL)
                        ctx.fail("fdefine-refused", "fdefine-refused", "VSfdefine of a field that is never used failed");
                    if (deforder)
                        ctx.probe("definitions-in-another-order");
                    for (int q = 0; q < t.nf; q++) {
                        int j = deforder == 1 ? t.nf - 1 - q : q;
                        if (VSfdefine(vk, fname(j).c_str(), FTS[t.f[j].type].code, t.f[j].order) == FAIL)
                            ctx.fail("fdefine-refused", "fdefine-refused", strf("VSfdefine(type %d, order %d) failed", (int)FTS[t.f[j].type].code, t.f[j].order));
                    }
                    t.stored_il = o.arg(2 + 2 * MAXF) ? NO_INTERLACE : FULL_INTERLACE;
                    if (VSsetname(vk, strf("vd%d", v).c_str()) == FAIL || VSsetclass(vk, "tbl") == FAIL ||
                        VSsetinterlace(vk, t.stored_il) == FAIL || VSsetfields(vk, allfields(t).c_str()) == FAIL)
                        ctx.fail("setup-refused", "setup-refused", "VSsetname/VSsetclass/VSsetinterlace/VSsetfields on a new Vdata failed");
                    if (o.arg(2 + 2 * MAXF + 1) > 0)
                        if (VSsetblocksize(vk, (int32)o.arg(2 + 2 * MAXF + 1)) == FAIL)
                            ctx.fail("setup-refused", "setup-refused:blocksize", "VSsetblocksize failed");
                    int32 n0 = (int32)std::max<int64_t>(0, o.arg(2 + 2 * MAXF + 2));
                    if (n0 == 0)
                        n0 = 1; // a Vdata without records is not stored at all (VSdetach drops it)
                    t.exists = true;
                    t.ref    = VSQueryref(vk);
                    if (n0 > 0) {
                        uint64_t ds = (uint64_t)o.arg(2 + 2 * MAXF + 3);
                        t.rec.resize((size_t)n0 * (size_t)t.recsize());
                        uint8_t *q = t.rec.data();
                        for (int32 r = 0; r < n0; r++)
                            for (int j = 0; j < t.nf; j++)
                                for (int e = 0; e < t.f[j].order; e++) {
                                    field_value(FTS[t.f[j].type], ds, (uint64_t)((r * MAXF + j) * 4 + e), q);
                                    q += FTS[t.f[j].type].size;
                                }
                        if (VSwrite(vk, t.rec.data(), n0, FULL_INTERLACE) != n0)
                            ctx.fail("write-refused", "write-refused:initial", strf("initial VSwrite of %d records failed", (int)n0));
                    }
                    if (t.stored_il == NO_INTERLACE)
                        ctx.probe("stored-no-interlace");
                    sl.live  = true;
                    sl.vkey  = vk;
                    sl.v     = v;
                    sl.wr    = true;
                    sl.fresh = false;
                }
            }
            else if (k == "attach") {
                Slot   &sl = s.sl[c][modn(o.arg(0), NSLOT)];
                int     v  = modn(o.arg(1), NVD);
                bool    wr = o.arg(2) != 0;
                MTable &t  = s.t[v];
                // one writer alone, or readers only; an empty vdata (no records) cannot be attached for reading usefully
                if (sl.live || !t.exists || attached(s, v, true) || (wr && attached(s, v, false)) || (wr && t.stored_il == NO_INTERLACE))
                    done = false;
                else {
                    int32 vk = VSattach(s.fid, t.ref, wr ? "w" : "r");
                    ctx.tr((uint64_t)(vk != FAIL));
                    if (vk == FAIL)
                        ctx.fail("attach-refused", "attach-refused", strf("VSattach(vd%d ref %d, %s) failed: %s", v, (int)t.ref, wr ? "w" : "r", HEstring((hdf_err_code_t)HEvalue(1))));
                    if (attached(s, v, false) >= 1)
                        ctx.probe("two-readers");
                    ctx.probe("reattach");
                    sl.live  = true;
                    sl.vkey  = vk;
                    sl.v     = v;
                    sl.wr    = wr;
                    sl.fresh = !wr;
                    touch(s, v);
                    sl.fresh = !wr;
                    if (wr && VSsetfields(vk, allfields(t).c_str()) == FAIL)
                        ctx.fail("setfields-refused", "setfields-refused:write", "VSsetfields(all) on a write attachment failed");
                }
            }
            else if (k == "detach") {
                Slot &sl = s.sl[c][modn(o.arg(0), NSLOT)];
                if (!sl.live)
                    done = false;
                else {
                    int v = sl.v;
                    detach(s, c, modn(o.arg(0), NSLOT));
                    touch(s, v);
                }
            }
            else if (k == "write") {
                Slot &sl = s.sl[c][modn(o.arg(0), NSLOT)];
                if (!sl.live || !sl.wr || s.t[sl.v].stored_il == NO_INTERLACE)
                    done = false;
                else {
                    MTable &t   = s.t[sl.v];
                    int32   n   = t.nrec();
                    int32   pos = o.arg(1) >= 1000 ? n : (int32)(o.arg(1) * (n + 1) / 1000);
                    int32   cnt = (int32)std::max<int64_t>(1, o.arg(2));
                    int     il  = o.arg(4) ? NO_INTERLACE : FULL_INTERLACE;
                    int     rs  = t.recsize();
                    uint64_t ds = (uint64_t)o.arg(3);
                    std::vector<uint8_t> recs((size_t)cnt * (size_t)rs);
                    uint8_t *q = recs.data();
                    for (int32 r = 0; r < cnt; r++)
                        for (int j = 0; j < t.nf; j++)
                            for (int e = 0; e < t.f[j].order; e++) {
                                field_value(FTS[t.f[j].type], ds, (uint64_t)((r * MAXF + j) * 4 + e), q);
                                q += FTS[t.f[j].type].size;
                            }
                    // user buffer in the requested interlace
                    MTable tmp = t;
                    tmp.rec    = recs;
                    std::vector<int> all;
                    for (int j = 0; j < t.nf; j++)
                        all.push_back(j);
                    std::vector<uint8_t> ubuf = expect(tmp, 0, cnt, all, il);
                    if (VSseek(sl.vkey, pos) != pos && !(pos == 0 && n == 0))
                        ctx.fail("seek-refused", "seek-refused:write", strf("VSseek(vd%d, %d) before a write failed (%d records)", sl.v, (int)pos, (int)n));
                    int32 got = VSwrite(sl.vkey, ubuf.data(), cnt, il);
                    ctx.tr((uint64_t)got);
                    if (got != cnt)
                        ctx.fail("write-refused", "write-refused",
                                 strf("VSwrite(vd%d, %d records at %d of %d) returned %d: %s", sl.v, (int)cnt, (int)pos, (int)n, (int)got,
                                      HEstring((hdf_err_code_t)HEvalue(1))));
                    if (pos + cnt > n) {
                        t.rec.resize((size_t)(pos + cnt) * (size_t)rs);
                        ctx.probe(pos == n ? "append" : "overwrite+append");
                    }
                    else
                        ctx.probe("overwrite");
                    memcpy(t.rec.data() + (size_t)pos * (size_t)rs, recs.data(), recs.size());
                    if (il == NO_INTERLACE)
                        ctx.probe("no-interlace-buffer");
                    touch(s, sl.v);
                    check_inquire(s, sl.v, sl.vkey, "after VSwrite");
                }
            }
            else if (k == "read") {
                Slot &sl = s.sl[c][modn(o.arg(0), NSLOT)];
                if (!sl.live || s.t[sl.v].nrec() == 0)
                    done = false;
                else {
                    MTable &t    = s.t[sl.v];
                    int32   n    = t.nrec();
                    bool    seek = o.arg(1) >= 0 || !sl.fresh;
                    int32   pos  = seek ? (int32)(std::max<int64_t>(0, o.arg(1)) * n / 1000) : 0;
                    if (pos >= n)
                        pos = n - 1;
                    int32 cnt = 1 + (int32)(o.arg(2) * (n - pos) / 1000);
                    if (pos + cnt > n)
                        cnt = n - pos;
                    if (t.stored_il == NO_INTERLACE) { // stored field-major: only the whole table is a record range
                        pos  = 0;
                        cnt  = n;
                        seek = true;
                    }
                    // field selection: a permutation prefix chosen by the seed
                    Rng              fr((uint64_t)o.arg(3));
                    std::vector<int> sel;
                    for (int j = 0; j < t.nf; j++)
                        sel.push_back(j);
                    for (int j = t.nf - 1; j > 0; j--)
                        std::swap(sel[(size_t)j], sel[(size_t)fr.below((uint64_t)j + 1)]);
                    sel.resize((size_t)(1 + fr.below((uint64_t)t.nf)));
                    if (fr.chance(0.4)) {
                        sel.clear();
                        for (int j = 0; j < t.nf; j++)
                            sel.push_back(j);
                    }
                    int il = o.arg(4) ? NO_INTERLACE : FULL_INTERLACE;
                    if (sl.wr) // a write attachment keeps the full field list (VSsetfields for writing is final)
                    {
                        sel.clear();
                        for (int j = 0; j < t.nf; j++)
                            sel.push_back(j);
                    }
                    if ((int)sel.size() < t.nf)
                        ctx.probe("subset-read");
                    if (!seek)
                        ctx.probe("read-without-seek");
                    if (il == NO_INTERLACE)
                        ctx.probe("no-interlace-buffer");
                    check_read(s, sl.v, sl.vkey, pos, cnt, sel, il, seek, "in session");
                    touch(s, sl.v);
                }
            }
            else if (k == "inquire") {
                Slot &sl = s.sl[c][modn(o.arg(0), NSLOT)];
                if (!sl.live)
                    done = false;
                else {
                    MTable &t = s.t[sl.v];
                    if (o.arg(1) == 1 && sl.wr && t.nrec() > 0) {
                        // the interlace of a Vdata that holds records cannot be changed: the call is refused and leaves
                        // the Vdata as it was (the checks below and every later read see the old interlace)
                        int32 other = t.stored_il == FULL_INTERLACE ? NO_INTERLACE : FULL_INTERLACE;
                        if (VSsetinterlace(sl.vkey, other) != FAIL)
                            ctx.fail("accepted", "accepted:setinterlace-after-write",
                                     strf("vd%d: VSsetinterlace(%d) on a Vdata that holds %d records returned success", sl.v, (int)other, (int)t.nrec()));
                        ctx.probe("interlace-change-refused");
                        ctx.st.checks++;
                    }
                    check_inquire(s, sl.v, sl.vkey, "in session");
                }
            }
            else if (k == "fpack") {
                Slot &sl = s.sl[c][modn(o.arg(0), NSLOT)];
                if (!sl.live)
                    done = false;
                else {
                    MTable &t   = s.t[sl.v];
                    int     cnt = (int)std::max<int64_t>(1, o.arg(1));
                    int     rs  = t.recsize();
                    uint64_t ds = (uint64_t)o.arg(2);
                    // separate field buffers -> packed records -> separate field buffers
                    std::vector<std::vector<uint8_t>> fb((size_t)t.nf);
                    void                             *fp[MAXF];
                    for (int j = 0; j < t.nf; j++) {
                        fb[(size_t)j].resize((size_t)cnt * (size_t)t.f[j].size());
                        for (size_t q = 0; q < fb[(size_t)j].size(); q += (size_t)FTS[t.f[j].type].size)
                            field_value(FTS[t.f[j].type], ds, (uint64_t)(j * 100000 + q), fb[(size_t)j].data() + q);
                        fp[j] = fb[(size_t)j].data();
                    }
                    std::vector<uint8_t> packed((size_t)cnt * (size_t)rs + 16, 0x5A);
                    if (VSfpack(sl.vkey, _HDF_VSPACK, NULL, packed.data(), cnt * rs, cnt, NULL, fp) == FAIL)
                        ctx.fail("fpack-refused", "fpack-refused:pack", strf("VSfpack(pack, vd%d, %d records) failed", sl.v, cnt));
                    ctx.st.checks++;
                    for (int r = 0; r < cnt; r++)
                        for (int j = 0; j < t.nf; j++)
                            if (memcmp(packed.data() + (size_t)r * (size_t)rs + (size_t)t.foff(j),
                                       fb[(size_t)j].data() + (size_t)r * (size_t)t.f[j].size(), (size_t)t.f[j].size()) != 0)
                                ctx.fail("fpack-mismatch", "fpack-mismatch:pack", strf("VSfpack(pack): record %d field %d is not where the schema puts it", r, j));
                    for (size_t q = (size_t)cnt * (size_t)rs; q < packed.size(); q++)
                        if (packed[q] != 0x5A)
                            ctx.fail("buffer-overrun", "buffer-overrun:fpack", "VSfpack(pack) wrote beyond the packed buffer");
                    std::vector<std::vector<uint8_t>> ob((size_t)t.nf);
                    void                             *op[MAXF];
                    for (int j = 0; j < t.nf; j++) {
                        ob[(size_t)j].assign(fb[(size_t)j].size(), 0);
                        op[j] = ob[(size_t)j].data();
                    }
                    if (VSfpack(sl.vkey, _HDF_VSUNPACK, NULL, packed.data(), cnt * rs, cnt, NULL, op) == FAIL)
                        ctx.fail("fpack-refused", "fpack-refused:unpack", "VSfpack(unpack) failed");
                    for (int j = 0; j < t.nf; j++)
                        if (ob[(size_t)j] != fb[(size_t)j])
                            ctx.fail("fpack-mismatch", "fpack-mismatch:unpack", strf("VSfpack(unpack) does not return field %d as packed", j));
                    ctx.probe("fpack");
                }
            }
            else if (k == "other") {
                std::vector<uint8_t> d = data_block((uint64_t)o.arg(0), (size_t)std::max<int64_t>(1, o.arg(1)));
                uint16               r = Hnewref(s.fid);
                if (Hputelement(s.fid, 8500, r, d.data(), (int32)d.size()) == FAIL)
                    ctx.fail("other-refused", "other-refused", "Hputelement of an unrelated element failed");
            }
            else if (k == "restart") {
                if (s.fid != FAIL) {
                    for (int cc = 0; cc < MAXCLIENT; cc++)
                        for (int kk = 0; kk < NSLOT; kk++)
                            detach(s, cc, kk);
                    if (Vend(s.fid) == FAIL || Hclose(s.fid) == FAIL)
                        ctx.fail("close-failed", "close-failed", strf("Vend/Hclose failed: %s", HEstring((hdf_err_code_t)HEvalue(1))));
                    s.fid = FAIL;
                }
                ctx.probe("restart");
                if (s.on_disk) {
                    int32 f = Hopen(path.c_str(), DFACC_READ, 0);
                    if (f == FAIL || Vstart(f) == FAIL)
                        ctx.fail("reopen-failed", "reopen-failed", "Hopen(READ)/Vstart after clean close failed");
                    for (int v = 0; v < NVD; v++) {
                        MTable &t = s.t[v];
                        if (!t.exists)
                            continue;
                        int32 ref = VSfind(f, strf("vd%d", v).c_str());
                        if (ref != t.ref)
                            ctx.fail("lookup-mismatch", "lookup-mismatch", strf("VSfind(vd%d) = %d after reopen, created with ref %d", v, (int)ref, (int)t.ref));
                        int32 vk = VSattach(f, ref, "r");
                        if (vk == FAIL)
                            ctx.fail("attach-refused", "attach-refused:reopen", strf("VSattach(vd%d, r) after reopen failed", v));
                        check_inquire(s, v, vk, "after reopen");
                        if (t.nrec() > 0) {
                            std::vector<int> all;
                            for (int j = 0; j < t.nf; j++)
                                all.push_back(j);
                            check_read(s, v, vk, 0, t.nrec(), all, FULL_INTERLACE, true, "after reopen");
                        }
                        if (VSdetach(vk) == FAIL)
                            ctx.fail("detach-failed", "detach-failed:reopen", "VSdetach after reopen failed");
                    }
                    if (Vend(f) == FAIL || Hclose(f) == FAIL)
                        ctx.fail("close-failed", "close-failed:verify", "Vend/Hclose after verification failed");
                }
            }
            else
                done = false;
            if (done) {
                ctx.st.ops_done++;
                uint64_t h = 1469598103934665603ULL;
                for (int v = 0; v < NVD; v++)
                    if (s.t[v].exists)
                        h = fnv64i(((uint64_t)v << 40) | ((uint64_t)s.t[v].nf << 32) | (uint64_t)s.t[v].nrec(), h);
                for (int cc = 0; cc < MAXCLIENT; cc++)
                    for (int kk = 0; kk < NSLOT; kk++)
                        if (s.sl[cc][kk].live)
                            h = fnv64i((uint64_t)(s.sl[cc][kk].v * 2 + s.sl[cc][kk].wr), h);
                ctx.state(h);
            }
            else
                ctx.st.ops_skipped++;
        }
    }
};

Registrar reg(new VData);

} // namespace
} // namespace h4
