// main.cc -- h4sim entry point.
#include "engine.h"
#include <cstdio>
#include <cstdlib>
#include <cstring>
#include <sys/personality.h>
#include <unistd.h>

// Sanitizer hits are classified by exit code 77; every malloc'ed block is filled with a fixed byte so that
// uninitialised bytes the library writes to the file are a function of the plan alone (DESIGN 2.5).
extern "C" __attribute__((used, visibility("default"))) const char *__asan_default_options()
{
    return "exitcode=77:detect_leaks=0:abort_on_error=0:malloc_fill_byte=190:max_malloc_fill_size=1073741824:"
           "allocator_may_return_null=1:max_allocation_size_mb=3000:detect_stack_use_after_return=0:"
           "handle_abort=1:print_summary=1:symbolize=1:fast_unwind_on_malloc=1";
}

extern "C" void __sanitizer_symbolize_pc(void *pc, const char *fmt, char *out_buf, size_t out_buf_size);

using namespace h4;

static void usage()
{
    printf("usage: h4sim --property Cxx [--tier quick|thorough] [--seed N] [--workers N] [--runs N] [--verbose]\n"
           "       h4sim --replay file.plan [--verbose]\n"
           "       h4sim --list\n");
}

int main(int argc, char **argv)
{
    // identical pointer values in every process: address-space randomisation off, then re-exec once
    if (!getenv("H4SIM_NO_REEXEC")) {
        int pers = personality(0xffffffff);
        if (pers != -1 && !(pers & ADDR_NO_RANDOMIZE)) {
            if (personality(pers | ADDR_NO_RANDOMIZE) != -1) {
                setenv("H4SIM_NO_REEXEC", "1", 1);
                execv("/proc/self/exe", argv);
            }
        }
    }
    setvbuf(stdout, nullptr, _IOLBF, 0);
    {
        // load the symbolizer's debug info once, before any fork: children inherit it instead of re-reading it
        char warm[128];
        __sanitizer_symbolize_pc((void *)&usage, "%f", warm, sizeof warm);
    }
    DriverOpts o;
    if (const char *s = getenv("VERIF_SEED"))
        o.seed = strtoull(s, nullptr, 10);
    if (const char *s = getenv("VERIF_TIER"))
        o.tier = s;
    if (const char *s = getenv("VERIF_DIR"))
        o.verif_dir = s;
    for (int i = 1; i < argc; i++) {
        std::string a = argv[i];
        auto        val = [&]() -> std::string { return i + 1 < argc ? argv[++i] : ""; };
        if (a == "--property")
            o.property = val();
        else if (a == "--tier")
            o.tier = val();
        else if (a == "--seed")
            o.seed = strtoull(val().c_str(), nullptr, 10);
        else if (a == "--workers")
            o.workers = atoi(val().c_str());
        else if (a == "--runs")
            o.runs_override = atoll(val().c_str());
        else if (a == "--cap")
            o.wall_cap_s = atof(val().c_str());
        else if (a == "--replay")
            o.replay = val();
        else if (a == "--verbose" || a == "-v")
            o.verbose = true;
        else if (a == "--no-minimise")
            o.no_minimise = true;
        else if (a == "--dir")
            o.verif_dir = val();
        else if (a == "--list") {
            for (auto p : all_profiles())
                printf("%s %s %s\n", p->property(), p->name(), p->level());
            return 0;
        }
        else {
            usage();
            return 2;
        }
    }
    if (!o.replay.empty())
        return replay_main(o);
    if (o.property.empty()) {
        usage();
        return 2;
    }
    return driver_main(o);
}
