// mixed.h -- model-free mixed workload over the H, V/VS, SD, GR and AN interfaces on one file.
// Used by the crash (C17), iofault (C16), readonly (C14) and format (C02) profiles.  Every op is a small script
// of API calls; every return value is checked, results of reads go into the transcript.  Objects are named
// deterministically ("vd3", "sd1", tag/ref pairs) so that a later session or another process can find them.
#pragma once
#include "hx.h"
#include <map>

namespace h4 {

struct Mixed {
    Ctx        &ctx;
    std::string path;
    int         ndds = 16;
    bool        cache_off = false; // Hcache(fid, FALSE) right after every Hopen
    int32       fid = FAIL, sdid = FAIL, grid = FAIL, anid = FAIL;
    bool        vstarted = false;
    bool        on_disk  = false;
    int         acc_mode = DFACC_RDWR; // how an existing file is opened
    bool        call_failed = false;   // some API call returned its failure value
    int         failed_op   = -1;
    bool        absent      = false;   // the last read op found no such object
    bool        add_only    = false;   // creation ops never touch an object that already exists
    bool        no_reopen_after_failure = false; // C16: a file torn by a reported failure is not opened again
    bool        skip_sd = false;                 // C16 known-finding guard: SD ops are not executed
    bool        leave_sd_ids_open = false;       // every fourth dataset id is left for SDend to release (C16)
    std::string failed_call;
    std::map<std::pair<int, int>, int64_t> hlen; // harness bookkeeping of H element lengths (not an oracle)

    Mixed(Ctx &c, const std::string &p) : ctx(c), path(p) {}

    // ---- bookkeeping of call results
    bool bad(bool failed, const char *call)
    {
        if (failed && !call_failed) {
            call_failed = true;
            failed_op   = ctx.cur_op;
            failed_call = call;
        }
        if (failed)
            ctx.st.api_fail++;
        return failed;
    }
#define MX(call, expr) bad((expr), call)

    static uint16 htag(int64_t t) { return (uint16)(8200 + modn(t, 3)); }
    static uint16 href(int64_t r) { return (uint16)(1 + modn(r, 8)); }

    bool need_h()
    {
        if (fid != FAIL)
            return true;
        if (no_reopen_after_failure && call_failed)
            return false;
        int acc = on_disk ? acc_mode : DFACC_CREATE;
        fid     = Hopen(path.c_str(), acc, (int16)ndds);
        if (MX("Hopen", fid == FAIL))
            return false;
        on_disk = true;
        if (cache_off)
            MX("Hcache", Hcache(fid, FALSE) == FAIL);
        if (MX("Vstart", Vstart(fid) == FAIL))
            return false;
        vstarted = true;
        return true;
    }
    bool need_sd()
    {
        if (sdid != FAIL)
            return true;
        if (no_reopen_after_failure && call_failed)
            return false;
        int acc = on_disk ? acc_mode : DFACC_CREATE;
        sdid    = SDstart(path.c_str(), acc);
        if (MX("SDstart", sdid == FAIL))
            return false;
        on_disk = true;
        return true;
    }
    bool need_gr()
    {
        if (grid != FAIL)
            return true;
        if (!need_h())
            return false;
        grid = GRstart(fid);
        return !MX("GRstart", grid == FAIL);
    }
    bool need_an()
    {
        if (anid != FAIL)
            return true;
        if (!need_h())
            return false;
        anid = ANstart(fid);
        return !MX("ANstart", anid == FAIL);
    }

    // close everything; order: AN, GR, SD, V, H
    void end_session()
    {
        if (anid != FAIL) {
            MX("ANend", ANend(anid) == FAIL);
            anid = FAIL;
        }
        if (grid != FAIL) {
            MX("GRend", GRend(grid) == FAIL);
            grid = FAIL;
        }
        if (sdid != FAIL) {
            MX("SDend", SDend(sdid) == FAIL);
            sdid = FAIL;
        }
        if (fid != FAIL) {
            if (vstarted)
                MX("Vend", Vend(fid) == FAIL);
            vstarted = false;
            MX("Hclose", Hclose(fid) == FAIL);
            fid = FAIL;
        }
    }

    // ---- Vdata schema used everywhere: nf fields cycling over 4 types
    static int32 ftype(int j)
    {
        static const int32 t[] = {DFNT_INT32, DFNT_FLOAT32, DFNT_INT16, DFNT_CHAR8};
        return t[j % 4];
    }
    static int forder(int j) { return j % 4 == 3 ? 3 : 1; }
    static int fsize(int j) { return j % 4 == 0 ? 4 : j % 4 == 1 ? 4 : j % 4 == 2 ? 2 : 3; }
    static std::string fields(int nf)
    {
        std::string s;
        for (int j = 0; j < nf; j++)
            s += strf("%sf%d", j ? "," : "", j);
        return s;
    }
    static int recsize(int nf)
    {
        int n = 0;
        for (int j = 0; j < nf; j++)
            n += fsize(j);
        return n;
    }
    // record bytes that are valid for every field type (floats: small integers)
    static std::vector<uint8_t> records(int nf, int nrec, uint64_t dseed)
    {
        std::vector<uint8_t> v((size_t)(recsize(nf) * nrec));
        uint8_t             *p = v.data();
        uint64_t             x = dseed;
        for (int r = 0; r < nrec; r++)
            for (int j = 0; j < nf; j++) {
                uint64_t w = splitmix64(x);
                switch (j % 4) {
                    case 0: {
                        int32 i = (int32)w;
                        memcpy(p, &i, 4);
                        break;
                    }
                    case 1: {
                        float f = (float)(int32)(w % 100000);
                        memcpy(p, &f, 4);
                        break;
                    }
                    case 2: {
                        int16 i = (int16)w;
                        memcpy(p, &i, 2);
                        break;
                    }
                    case 3:
                        p[0] = (uint8_t)('a' + w % 26);
                        p[1] = (uint8_t)('a' + (w >> 8) % 26);
                        p[2] = (uint8_t)('a' + (w >> 16) % 26);
                        break;
                }
                p += fsize(j);
            }
        return v;
    }

    // ---- the ops.  Returns false when the op is not applicable (skipped).
    bool run(const Op &o)
    {
        const std::string &k = o.kind;
        absent               = false;
        if (k == "end") {
            end_session();
            return true;
        }
        if (k == "sync") {
            if (fid == FAIL)
                return false;
            MX("Hsync", Hsync(fid) == FAIL);
            return true;
        }
        if (k == "hupgrade") {
            // a reader has the file open; the session's own (writing) open of the same path then swaps the stream of the
            // shared file record; the reader goes on reading and closes
            if (!on_disk || fid != FAIL || sdid != FAIL || acc_mode == DFACC_READ)
                return false;
            if (no_reopen_after_failure && call_failed)
                return false;
            int32 ro = Hopen(path.c_str(), DFACC_READ, 0);
            if (MX("Hopen", ro == FAIL))
                return true;
            bool ok = need_h();
            uint8 ver[256];
            if (ok && !call_failed) {
                int32 got = Hgetelement(ro, DFTAG_VERSION, 1, ver);
                ctx.tr((uint64_t)(int64_t)got);
                MX("Hgetelement", got == FAIL);
            }
            MX("Hclose", Hclose(ro) == FAIL);
            ctx.probe("reader-open-while-upgraded");
            return true;
        }
        if (k == "hmaxref") { // the largest reference number there is gets used: from now on Hnewref has to search for a free one
            if (!need_h())
                return true;
            auto key = std::make_pair(8600, 65535);
            if (hlen.count(key))
                return false;
            int64_t              len = std::max<int64_t>(1, o.arg(0));
            std::vector<uint8_t> d   = data_block((uint64_t)o.arg(1), (size_t)len);
            if (!MX("Hputelement", Hputelement(fid, 8600, 65535, d.data(), (int32)len) != (int32)len))
                hlen[key] = len;
            ctx.probe("largest-ref-in-use");
            return true;
        }
        if (k == "hnewput") { // a new element under the reference number the library hands out
            if (!need_h())
                return true;
            uint16 tag = htag(o.arg(0)), ref = Hnewref(fid);
            if (MX("Hnewref", ref == 0))
                return true;
            ctx.tr((uint64_t)ref);
            int64_t              len = std::max<int64_t>(1, o.arg(1));
            std::vector<uint8_t> d   = data_block((uint64_t)o.arg(2), (size_t)len);
            if (!MX("Hputelement", Hputelement(fid, tag, ref, d.data(), (int32)len) != (int32)len))
                hlen[{(int)tag, (int)ref}] = len;
            if (hlen.count({8600, 65535}))
                ctx.probe("new-ref-searched-for");
            return true;
        }
        if (k == "hreadnew") { // the elements of the two ops above, found without bookkeeping
            if (!need_h())
                return true;
            std::vector<std::pair<uint16, uint16>> found;
            for (int t = 0; t < 4; t++) {
                uint16 want = t < 3 ? htag(t) : (uint16)8600, ft = 0, fr = 0;
                int32  off = 0, len = 0;
                while (Hfind(fid, want, DFREF_WILDCARD, &ft, &fr, &off, &len, DF_FORWARD) != FAIL)
                    if (fr > 8)
                        found.push_back({ft, fr});
            }
            std::sort(found.begin(), found.end());
            if (found.empty())
                absent = true;
            for (auto &e : found) {
                int32 len = Hlength(fid, e.first, e.second);
                ctx.tr((uint64_t)e.first * 65536 + e.second);
                ctx.tr((uint64_t)len);
                if (MX("Hlength", len == FAIL))
                    return true;
                std::vector<uint8_t> buf((size_t)len + 8);
                int32                n = Hgetelement(fid, e.first, e.second, buf.data());
                ctx.tr((uint64_t)n);
                MX("Hgetelement", n == FAIL && len > 0);
                if (n > 0)
                    ctx.trb(buf.data(), (size_t)n);
                ctx.st.checks++;
            }
            return true;
        }
        if (k == "hext") { // element stored in an external file
            if (!need_h())
                return true;
            uint16 tag = (uint16)(htag(o.arg(0)) + 300), ref = href(o.arg(1));
            auto   key = std::make_pair((int)tag, (int)ref);
            if (hlen.count(key))
                return false;
            int64_t len = std::max<int64_t>(1, o.arg(2));
            int32   aid = HXcreate(fid, tag, ref, "/sim/mixed_ext.dat", (int32)(modn(o.arg(1), 8) * 700 + modn(o.arg(0), 3) * 5000), (int32)len);
            if (MX("HXcreate", aid == FAIL))
                return true;
            std::vector<uint8_t> d = data_block((uint64_t)o.arg(3), (size_t)len);
            MX("Hwrite", Hwrite(aid, (int32)len, d.data()) != (int32)len);
            MX("Hendaccess", Hendaccess(aid) == FAIL);
            hlen[key] = len;
            return true;
        }
        if (k == "hdup") { // alias an existing plain element under another ref (new descriptor, no new data)
            if (!need_h())
                return true;
            uint16 tag = htag(o.arg(0)), ref = href(o.arg(1));
            uint16 ntag = (uint16)(htag(o.arg(2)) + 200), nref = href(o.arg(3));
            if (!hlen.count({(int)tag, (int)ref}) || hlen.count({(int)ntag, (int)nref}))
                return false;
            if (!MX("Hdupdd", Hdupdd(fid, ntag, nref, tag, ref) == FAIL))
                hlen[{(int)ntag, (int)nref}] = hlen[{(int)tag, (int)ref}];
            return true;
        }
        if (k == "hput" || k == "hlink" || k == "happend" || k == "hread" || k == "hdel") {
            if (!need_h())
                return true;
            bool   lk  = o.arg(0) != 0;
            uint16 tag = (uint16)(htag(o.arg(1)) + (o.arg(0) == 3 ? 300 : o.arg(0) == 2 ? 200 : lk ? 100 : 0)), ref = href(o.arg(2));
            if (o.arg(0) == 4) { // the element of hmaxref
                tag = 8600;
                ref = 65535;
            }
            auto   key = std::make_pair((int)tag, (int)ref);
            if (k == "hput") {
                int64_t len = std::max<int64_t>(1, o.arg(3));
                if (lk)
                    return false;
                if (hlen.count(key) && add_only)
                    return false;
                if (hlen.count(key) && len > hlen[key])
                    len = hlen[key];
                std::vector<uint8_t> d = data_block((uint64_t)o.arg(4), (size_t)len);
                int32                n = Hputelement(fid, tag, ref, d.data(), (int32)len);
                if (!MX("Hputelement", n != (int32)len) && !hlen.count(key))
                    hlen[key] = len;
                return true;
            }
            if (k == "hlink") {
                if (hlen.count(key))
                    return false;
                int32 aid;
                if (o.arg(6) == 4) {
                    // the other way to linked blocks: an element that has a descriptor and no data yet is promoted before its
                    // first byte is written
                    aid = Hstartaccess(fid, tag, ref, DFACC_RDWR);
                    if (MX("Hstartaccess", aid == FAIL))
                        return true;
                    if (MX("HLconvert", HLconvert(aid, (int32)std::max<int64_t>(1, o.arg(5)), 2) == FAIL)) {
                        Hendaccess(aid);
                        return true;
                    }
                    ctx.probe("promoted-before-first-byte");
                }
                else {
                    aid = HLcreate(fid, tag, ref, (int32)std::max<int64_t>(1, o.arg(5)), (int32)std::max<int64_t>(1, o.arg(6)));
                    if (MX("HLcreate", aid == FAIL))
                        return true;
                }
                int64_t              len = std::max<int64_t>(1, o.arg(3));
                std::vector<uint8_t> d   = data_block((uint64_t)o.arg(4), (size_t)len);
                MX("Hwrite", Hwrite(aid, (int32)len, d.data()) != (int32)len);
                MX("Hendaccess", Hendaccess(aid) == FAIL);
                hlen[key] = len;
                return true;
            }
            if (k == "happend") {
                if (!hlen.count(key))
                    return false;
                int32 aid = Hstartaccess(fid, tag, ref, DFACC_RDWR | DFACC_APPENDABLE);
                if (MX("Hstartaccess", aid == FAIL))
                    return true;
                int64_t              len = std::max<int64_t>(1, o.arg(3));
                std::vector<uint8_t> d   = data_block((uint64_t)o.arg(4), (size_t)len);
                if (!MX("Hseek", Hseek(aid, 0, DF_END) == FAIL))
                    if (!MX("Hwrite", Hwrite(aid, (int32)len, d.data()) != (int32)len))
                        hlen[key] += len;
                MX("Hendaccess", Hendaccess(aid) == FAIL);
                return true;
            }
            if (k == "hdel") {
                if (!hlen.count(key))
                    return false;
                MX("Hdeldd", Hdeldd(fid, tag, ref) == FAIL);
                hlen.erase(key);
                return true;
            }
            // hread: works without bookkeeping (other process / later session)
            if (Hexist(fid, tag, ref) == FAIL) { // in-memory directory lookup
                absent = true;
                return true; // absence is a result
            }
            int32 len = Hlength(fid, tag, ref);
            ctx.tr((uint64_t)len);
            if (MX("Hlength", len == FAIL))
                return true;
            std::vector<uint8_t> buf((size_t)len + 8);
            int32                n = Hgetelement(fid, tag, ref, buf.data());
            ctx.tr((uint64_t)n);
            MX("Hgetelement", n == FAIL && len > 0);
            if (n > 0)
                ctx.trb(buf.data(), (size_t)n);
            ctx.st.checks++;
            return true;
        }
        if (k == "vsclass") { // change the class of a stored Vdata to one of another length (shorter ones too)
            if (!need_h())
                return true;
            int32 ref = VSfind(fid, strf("vd%d", modn(o.arg(0), 6)).c_str());
            if (ref <= 0)
                return false;
            int32 vs = VSattach(fid, ref, "w");
            if (MX("VSattach", vs == FAIL))
                return true;
            std::string c;
            for (int j = 0; j < modn(o.arg(1), 20); j++)
                c += (char)('k' + j % 7);
            MX("VSsetclass", VSsetclass(vs, c.c_str()) == FAIL);
            MX("VSdetach", VSdetach(vs) == FAIL);
            return true;
        }
        if (k == "vsnew" || k == "vsappend" || k == "vsread") {
            if (!need_h())
                return true;
            int         idx = modn(o.arg(0), 6);
            std::string nm  = strf("vd%d", idx);
            if (k == "vsnew") {
                int   nf = 1 + modn(o.arg(2), 5), nrec = (int)std::max<int64_t>(1, o.arg(1));
                if (VSfind(fid, nm.c_str()) > 0)
                    return false;
                int32 vs = VSattach(fid, -1, "w");
                if (MX("VSattach", vs == FAIL))
                    return true;
                for (int j = 0; j < nf; j++)
                    MX("VSfdefine", VSfdefine(vs, strf("f%d", j).c_str(), ftype(j), forder(j)) == FAIL);
                MX("VSsetname", VSsetname(vs, nm.c_str()) == FAIL);
                MX("VSsetclass", VSsetclass(vs, "mixedcls") == FAIL);
                MX("VSsetfields", VSsetfields(vs, fields(nf).c_str()) == FAIL);
                if (o.arg(4) > 0)
                    MX("VSsetblocksize", VSsetblocksize(vs, (int32)(16 + o.arg(4) % 200)) == FAIL);
                std::vector<uint8_t> d = records(nf, nrec, (uint64_t)o.arg(3));
                MX("VSwrite", VSwrite(vs, d.data(), nrec, FULL_INTERLACE) != nrec);
                if ((o.arg(3) >> 4) % 3 == 0) {
                    // attributes of the vdata and of two of its fields, set in mixed order (they share one list)
                    int32 a0[2] = {(int32)(o.arg(3) & 0xffff), 7}, a1 = (int32)(o.arg(3) >> 8 & 0xffff);
                    int16 f0[3] = {1, 2, (int16)(o.arg(3) & 0x7ff)}, fb = (int16)idx;
                    MX("VSsetattr", VSsetattr(vs, _HDF_VDATA, "va0", DFNT_INT32, 2, a0) == FAIL);
                    MX("VSsetattr", VSsetattr(vs, 0, "fa0", DFNT_INT16, 3, f0) == FAIL);
                    MX("VSsetattr", VSsetattr(vs, _HDF_VDATA, "va1", DFNT_INT32, 1, &a1) == FAIL);
                    if (nf > 1)
                        MX("VSsetattr", VSsetattr(vs, nf - 1, "fb", DFNT_INT16, 1, &fb) == FAIL);
                    ctx.probe("vs-attributes");
                }
                MX("VSdetach", VSdetach(vs) == FAIL);
                return true;
            }
            int32 ref = VSfind(fid, nm.c_str());
            ctx.tr((uint64_t)(ref > 0));
            if (ref <= 0) {
                if (k == "vsappend")
                    return false;
                absent = true;
                return true;
            }
            int32 vs = VSattach(fid, ref, k == "vsappend" ? "w" : "r");
            if (MX("VSattach", vs == FAIL))
                return true;
            int32 n = 0, il = 0, sz = 0;
            char  flds[512] = "", vname[128] = "";
            if (MX("VSinquire", VSinquire(vs, &n, &il, flds, &sz, vname) == FAIL)) {
                VSdetach(vs);
                return true;
            }
            int nf = VFnfields(vs);
            if (k == "vsappend") {
                int nrec = (int)std::max<int64_t>(1, o.arg(1));
                MX("VSsetfields", VSsetfields(vs, flds) == FAIL);
                if (n > 0)
                    MX("VSseek", VSseek(vs, n) == FAIL);
                std::vector<uint8_t> d = records(nf, nrec, (uint64_t)o.arg(3));
                MX("VSwrite", VSwrite(vs, d.data(), nrec, FULL_INTERLACE) != nrec);
                MX("VSdetach", VSdetach(vs) == FAIL);
                return true;
            }
            ctx.tr((uint64_t)n);
            ctx.tr((uint64_t)sz);
            ctx.trb(flds, strlen(flds));
            ctx.trb(vname, strlen(vname));
            if (n > 0 && sz > 0) {
                MX("VSsetfields", VSsetfields(vs, flds) == FAIL);
                std::vector<uint8_t> buf((size_t)n * (size_t)sz + 16);
                int32                got = VSread(vs, buf.data(), n, FULL_INTERLACE);
                ctx.tr((uint64_t)got);
                MX("VSread", got != n);
                if (got > 0)
                    ctx.trb(buf.data(), (size_t)got * (size_t)sz);
            }
            // attributes of the vdata and of its fields
            for (int32 fi = -1; fi < nf; fi++) {
                int32 findex = fi < 0 ? _HDF_VDATA : fi;
                intn  na     = VSfnattrs(vs, findex);
                ctx.tr((uint64_t)(int64_t)na);
                for (intn a = 0; a < na; a++) {
                    char  an[256] = "";
                    int32 at = 0, cnt = 0, asz = 0;
                    if (MX("VSattrinfo", VSattrinfo(vs, findex, a, an, &at, &cnt, &asz) == FAIL) || asz <= 0 || asz > 4096)
                        continue;
                    std::vector<uint8_t> val((size_t)asz);
                    MX("VSgetattr", VSgetattr(vs, findex, a, val.data()) == FAIL);
                    ctx.trb(an, strlen(an));
                    ctx.tr((uint64_t)at * 65536 + (uint64_t)cnt);
                    ctx.trb(val.data(), val.size());
                }
            }
            MX("VSdetach", VSdetach(vs) == FAIL);
            ctx.st.checks++;
            return true;
        }
        if (k == "vgnew" || k == "vgadd" || k == "vgread") {
            if (!need_h())
                return true;
            int         idx = modn(o.arg(0), 6);
            std::string nm  = strf("vg%d", idx);
            int32       ref = Vfind(fid, nm.c_str());
            if (k == "vgnew") {
                if (ref > 0)
                    return false;
                int32 vg = Vattach(fid, -1, "w");
                if (MX("Vattach", vg == FAIL))
                    return true;
                MX("Vsetname", Vsetname(vg, nm.c_str()) == FAIL);
                MX("Vsetclass", Vsetclass(vg, "mixedgrp") == FAIL);
                if (o.arg(1) % 3 == 0) {
                    int32 ga[2] = {(int32)o.arg(1), (int32)idx};
                    int16 gb = (int16)(o.arg(1) + 3);
                    MX("Vsetattr", Vsetattr(vg, "ga", DFNT_INT32, 2, ga) == FAIL);
                    MX("Vsetattr", Vsetattr(vg, "gb", DFNT_INT16, 1, &gb) == FAIL);
                    ctx.probe("vg-attributes");
                }
                int nm_ = (int)std::max<int64_t>(0, o.arg(1)) % 70;
                for (int j = 0; j < nm_; j++)
                    MX("Vaddtagref", Vaddtagref(vg, (int32)(8200 + j % 3), (int32)(1 + j % 8)) == FAIL);
                MX("Vdetach", Vdetach(vg) == FAIL);
                return true;
            }
            ctx.tr((uint64_t)(ref > 0));
            if (ref <= 0) {
                if (k == "vgadd")
                    return false;
                absent = true;
                return true;
            }
            int32 vg = Vattach(fid, ref, k == "vgadd" ? "w" : "r");
            if (MX("Vattach", vg == FAIL))
                return true;
            if (k == "vgadd") {
                int32 n0 = Vntagrefs(vg);
                if (o.arg(3) > 0 && n0 > 0) {
                    // take a member out instead: the one stored last (1) or first (2), and nothing else in this attachment
                    int32 mt = 0, mr = 0;
                    if (!MX("Vgettagref", Vgettagref(vg, o.arg(3) == 1 ? n0 - 1 : 0, &mt, &mr) == FAIL))
                        MX("Vdeletetagref", Vdeletetagref(vg, mt, mr) == FAIL);
                    ctx.probe("vg-member-deleted");
                }
                else
                    MX("Vaddtagref", Vaddtagref(vg, (int32)htag(o.arg(1)), (int32)href(o.arg(2))) == FAIL);
                MX("Vdetach", Vdetach(vg) == FAIL);
                return true;
            }
            int32 n = Vntagrefs(vg);
            ctx.tr((uint64_t)n);
            if (n > 0) {
                std::vector<int32> tags((size_t)n), refs((size_t)n);
                int32              got = Vgettagrefs(vg, tags.data(), refs.data(), n);
                ctx.tr((uint64_t)got);
                if (got > 0) {
                    ctx.trb(tags.data(), (size_t)got * 4);
                    ctx.trb(refs.data(), (size_t)got * 4);
                }
            }
            char nb[256] = "", cb[256] = "";
            Vgetname(vg, nb);
            Vgetclass(vg, cb);
            ctx.trb(nb, strlen(nb));
            ctx.trb(cb, strlen(cb));
            {
                intn na = Vnattrs(vg);
                ctx.tr((uint64_t)(int64_t)na);
                for (intn a = 0; a < na; a++) {
                    char  an[256] = "";
                    int32 at = 0, cnt = 0, asz = 0;
                    if (MX("Vattrinfo", Vattrinfo(vg, a, an, &at, &cnt, &asz) == FAIL) || asz <= 0 || asz > 4096)
                        continue;
                    std::vector<uint8_t> val((size_t)asz);
                    MX("Vgetattr", Vgetattr(vg, a, val.data()) == FAIL);
                    ctx.trb(an, strlen(an));
                    ctx.tr((uint64_t)at * 65536 + (uint64_t)cnt);
                    ctx.trb(val.data(), val.size());
                }
            }
            MX("Vdetach", Vdetach(vg) == FAIL);
            ctx.st.checks++;
            return true;
        }
        if (k == "sdfillmode") { // 0: datasets are no longer pre-filled; 1: back to filling (this switch stores the file's description)
            if (skip_sd)
                return false;
            if (!need_sd())
                return true;
            MX("SDsetfillmode", SDsetfillmode(sdid, o.arg(0) ? SD_FILL : SD_NOFILL) == FAIL);
            ctx.probe(o.arg(0) ? "sd-fill-mode-on" : "sd-fill-mode-off");
            return true;
        }
        if (k == "sdnew" || k == "sdnew2" || k == "sdwrite" || k == "sdread" || k == "sdattr") {
            if (skip_sd)
                return false;
            if (!need_sd())
                return true;
            int         idx = modn(o.arg(0), 5);
            std::string nm  = strf("sd%d", idx);
            int32       ix  = SDnametoindex(sdid, nm.c_str());
            static const int32 types[] = {DFNT_INT32, DFNT_FLOAT32, DFNT_INT16, DFNT_UINT8, DFNT_FLOAT64,
                                          DFNT_INT32 | DFNT_LITEND, DFNT_UINT16 | DFNT_LITEND}; // 5, 6: stored low byte first
            if (k == "sdnew" || k == "sdnew2") {
                if (ix >= 0)
                    return false;
                int   rank    = 1 + modn(o.arg(1), 3);
                int32 dims[3] = {(int32)(1 + modn(o.arg(2), 6)), (int32)(1 + modn(o.arg(3), 5)), 2};
                if (o.arg(6) == 1)
                    dims[0] = SD_UNLIMITED;
                int32 nt = types[modn(o.arg(4), 7)];
                if (nt & DFNT_LITEND)
                    ctx.probe("sd-little-endian");
                int32 sds = SDcreate(sdid, nm.c_str(), nt, rank, dims);
                if (MX("SDcreate", sds == FAIL))
                    return true;
                if (o.arg(5) % 2 == 0 && dims[0] != SD_UNLIMITED) {
                    // named first dimension; the names of the five datasets are made of the same 4-byte words in different
                    // orders (equal length, equal under an additive checksum, different strings)
                    static const char *dn[5] = {"lat_lon_alt_", "lat_alt_lon_", "lon_lat_alt_", "lon_alt_lat_", "alt_lat_lon_"};
                    MX("SDsetdimname", SDsetdimname(SDgetdimid(sds, 0), dn[idx]) == FAIL);
                    ctx.probe("sd-named-dimension");
                }
                if (o.arg(6) == 2) {
                    HDF_CHUNK_DEF cd;
                    memset(&cd, 0, sizeof cd);
                    for (int j = 0; j < rank; j++)
                        cd.chunk_lengths[j] = j == 0 ? 2 : dims[j];
                    MX("SDsetchunk", SDsetchunk(sds, cd, HDF_CHUNK) == FAIL);
                }
                if (o.arg(6) == 3) {
                    comp_info ci;
                    memset(&ci, 0, sizeof ci);
                    ci.deflate.level = 6;
                    MX("SDsetcompress", SDsetcompress(sds, COMP_CODE_DEFLATE, &ci) == FAIL);
                }
                if (k == "sdnew2" && o.arg(6) != 1) {
                    // further layouts: 0 chunked+deflate, 1 RLE, 2 skipping Huffman, 3 n-bit (integer types), 4 external file
                    int           lay = modn(o.arg(7), 5);
                    HDF_CHUNK_DEF cd;
                    comp_info     ci;
                    memset(&cd, 0, sizeof cd);
                    memset(&ci, 0, sizeof ci);
                    if (lay == 0) {
                        for (int j = 0; j < rank; j++)
                            cd.comp.chunk_lengths[j] = j == 0 ? 2 : dims[j];
                        cd.comp.comp_type           = COMP_CODE_DEFLATE;
                        cd.comp.cinfo.deflate.level = 3;
                        MX("SDsetchunk", SDsetchunk(sds, cd, HDF_CHUNK | HDF_COMP) == FAIL);
                    }
                    else if (lay == 1 || lay == 2) {
                        ci.skphuff.skp_size = DFKNTsize(nt);
                        MX("SDsetcompress", SDsetcompress(sds, lay == 1 ? COMP_CODE_RLE : COMP_CODE_SKPHUFF, &ci) == FAIL);
                    }
                    else if (lay == 3 && (nt == DFNT_INT32 || nt == DFNT_INT16 || nt == DFNT_UINT8))
                        MX("SDsetnbitdataset", SDsetnbitdataset(sds, DFKNTsize(nt) * 8 - 1, DFKNTsize(nt) * 8, 0, 0) == FAIL);
                    else if (lay == 4)
                        MX("SDsetexternalfile", SDsetexternalfile(sds, "/sim/mixed_sdext.dat", idx * 4000) == FAIL);
                }
                if (call_failed && no_reopen_after_failure) {
                    // C16: the layout call reported a failure: the program only releases what it holds
                    MX("SDendaccess", SDendaccess(sds) == FAIL);
                    return true;
                }
                int32 start[3] = {0, 0, 0}, edge[3] = {dims[0] == SD_UNLIMITED ? 3 : dims[0], dims[1], dims[2]};
                size_t cells = 1;
                for (int j = 0; j < rank; j++)
                    cells *= (size_t)edge[j];
                std::vector<uint8_t> d = data_block((uint64_t)o.arg(5), cells * 8);
                if (nt == DFNT_FLOAT32 || nt == DFNT_FLOAT64) // keep floats ordinary numbers
                    for (size_t c = 0; c < cells; c++) {
                        if (nt == DFNT_FLOAT32) {
                            float f = (float)(d[c] * 3);
                            memcpy(d.data() + 4 * c, &f, 4);
                        }
                        else {
                            double f = (double)(d[c] * 5);
                            memcpy(d.data() + 8 * c, &f, 8);
                        }
                    }
                if (k == "sdnew" && o.arg(6) == 4) // a dataset that has no data yet (reads give the fill value, a later write fills it)
                    ctx.probe("sd-without-data");
                else
                    MX("SDwritedata", SDwritedata(sds, start, NULL, edge, d.data()) == FAIL);
                // every fourth dataset id is not released: SDend has to finish the dataset (and report what goes wrong then)
                if (leave_sd_ids_open && (o.arg(5) >> 3) % 4 == 1 && !call_failed)
                    ctx.probe("sd-id-left-to-sdend");
                else
                    MX("SDendaccess", SDendaccess(sds) == FAIL);
                return true;
            }
            ctx.tr((uint64_t)(ix >= 0));
            if (ix < 0) {
                if (k != "sdread")
                    return false;
                absent = true;
                return true;
            }
            int32 sds = SDselect(sdid, ix);
            if (MX("SDselect", sds == FAIL))
                return true;
            char  nb[256] = "";
            int32 rank = 0, dims[H4_MAX_VAR_DIMS], nt = 0, nattr = 0;
            if (MX("SDgetinfo", SDgetinfo(sds, nb, &rank, dims, &nt, &nattr) == FAIL)) {
                SDendaccess(sds);
                return true;
            }
            int32  start[H4_MAX_VAR_DIMS] = {0};
            size_t cells = 1;
            for (int j = 0; j < rank; j++)
                cells *= (size_t)dims[j];
            int esz = DFKNTsize(nt);
            // what the library says about the dataset goes into the transcript in any case; sizes no dataset of this workload
            // has (the library answering from a file it could not read properly) are recorded, not allocated
            bool sane = rank >= 0 && rank <= 3 && esz > 0 && cells <= 4096;
            for (int j = 0; j < rank && j < 3; j++)
                sane = sane && dims[j] >= 0;
            if (!sane) {
                ctx.tr(0xBADD1351ULL);
                ctx.trb(dims, (size_t)std::max(0, std::min(rank, 8)) * 4);
                cells = 0;
            }
            if (k == "sdattr") {
                int32 v[2] = {(int32)o.arg(1), (int32)o.arg(2)};
                MX("SDsetattr", SDsetattr(sds, strf("att%d", modn(o.arg(3), 3)).c_str(), DFNT_INT32, 2, v) == FAIL);
                MX("SDendaccess", SDendaccess(sds) == FAIL);
                return true;
            }
            if (k == "sdwrite") {
                if (cells > 0) {
                    std::vector<uint8_t> d = data_block((uint64_t)o.arg(1), cells * 8);
                    if (nt == DFNT_FLOAT32 || nt == DFNT_FLOAT64)
                        for (size_t c = 0; c < cells; c++) {
                            if (nt == DFNT_FLOAT32) {
                                float f = (float)(d[c] * 3);
                                memcpy(d.data() + 4 * c, &f, 4);
                            }
                            else {
                                double f = (double)(d[c] * 5);
                                memcpy(d.data() + 8 * c, &f, 8);
                            }
                        }
                    MX("SDwritedata", SDwritedata(sds, start, NULL, dims, d.data()) == FAIL);
                }
                if (leave_sd_ids_open && (o.arg(1) >> 3) % 4 == 1 && !call_failed)
                    ctx.probe("sd-id-left-to-sdend");
                else
                    MX("SDendaccess", SDendaccess(sds) == FAIL);
                return true;
            }
            ctx.tr((uint64_t)rank);
            ctx.trb(dims, (size_t)rank * 4);
            ctx.tr((uint64_t)nt);
            ctx.tr((uint64_t)nattr);
            if (cells > 0) {
                std::vector<uint8_t> buf(cells * (size_t)esz + 16);
                intn                 r = SDreaddata(sds, start, NULL, dims, buf.data());
                ctx.tr((uint64_t)r);
                MX("SDreaddata", r == FAIL);
                if (r != FAIL)
                    ctx.trb(buf.data(), cells * (size_t)esz);
            }
            for (int32 a = 0; a < nattr; a++) {
                char  an[256] = "";
                int32 at = 0, ac = 0;
                if (!MX("SDattrinfo", SDattrinfo(sds, a, an, &at, &ac) == FAIL) && ac >= 0 && ac < 4096) {
                    ctx.trb(an, strlen(an));
                    std::vector<uint8_t> ab((size_t)ac * (size_t)DFKNTsize(at) + 8);
                    if (!MX("SDreadattr", SDreadattr(sds, a, ab.data()) == FAIL))
                        ctx.trb(ab.data(), (size_t)ac * (size_t)DFKNTsize(at));
                }
            }
            MX("SDendaccess", SDendaccess(sds) == FAIL);
            ctx.st.checks++;
            return true;
        }
        if (k == "grnew" || k == "grnew2" || k == "grread") {
            if (!need_gr())
                return true;
            int         idx = modn(o.arg(0), 4);
            std::string nm  = strf("gr%d", idx);
            int32       ix  = GRnametoindex(grid, nm.c_str());
            if (k == "grnew" || k == "grnew2") {
                if (ix >= 0)
                    return false;
                int32 dims[2] = {(int32)(1 + modn(o.arg(1), 7)), (int32)(1 + modn(o.arg(2), 6))};
                int32 nc      = 1 + modn(o.arg(3), 3);
                int32 ri      = GRcreate(grid, nm.c_str(), nc, DFNT_UINT8, MFGR_INTERLACE_PIXEL, dims);
                if (MX("GRcreate", ri == FAIL))
                    return true;
                if (k == "grnew2") {
                    // layout: 1 chunked, 2 RLE, 3 deflate, 4 skipping Huffman, 5 chunked+deflate; an attribute; a palette
                    int           lay = modn(o.arg(5), 6);
                    HDF_CHUNK_DEF cd;
                    comp_info     ci;
                    memset(&cd, 0, sizeof cd);
                    memset(&ci, 0, sizeof ci);
                    if (lay == 1) {
                        cd.chunk_lengths[0] = 1 + dims[0] / 2;
                        cd.chunk_lengths[1] = 1 + dims[1] / 2;
                        MX("GRsetchunk", GRsetchunk(ri, cd, HDF_CHUNK) == FAIL);
                    }
                    else if (lay == 5) {
                        cd.comp.chunk_lengths[0]    = 1 + dims[0] / 2;
                        cd.comp.chunk_lengths[1]    = 1 + dims[1] / 2;
                        cd.comp.comp_type           = COMP_CODE_DEFLATE;
                        cd.comp.cinfo.deflate.level = 5;
                        MX("GRsetchunk", GRsetchunk(ri, cd, HDF_CHUNK | HDF_COMP) == FAIL);
                    }
                    else if (lay >= 2) {
                        ci.deflate.level    = 4;
                        ci.skphuff.skp_size = lay == 4 ? 1 : ci.skphuff.skp_size;
                        MX("GRsetcompress", GRsetcompress(ri, lay == 2 ? COMP_CODE_RLE : lay == 3 ? COMP_CODE_DEFLATE : COMP_CODE_SKPHUFF, &ci) == FAIL);
                    }
                    if (call_failed && no_reopen_after_failure) {
                        MX("GRendaccess", GRendaccess(ri) == FAIL);
                        return true;
                    }
                    if (o.arg(6) & 1) {
                        int16 av[3] = {(int16)o.arg(4), 7, -3};
                        MX("GRsetattr", GRsetattr(ri, "ratt", DFNT_INT16, 3, av) == FAIL);
                    }
                    if (o.arg(6) & 2) {
                        std::vector<uint8_t> pal = data_block((uint64_t)o.arg(4) + 5, 768);
                        int32                lut = GRgetlutid(ri, 0);
                        if (!MX("GRgetlutid", lut == FAIL))
                            MX("GRwritelut", GRwritelut(lut, 3, DFNT_UINT8, MFGR_INTERLACE_PIXEL, 256, pal.data()) == FAIL);
                    }
                }
                int32                start[2] = {0, 0};
                std::vector<uint8_t> d = data_block((uint64_t)o.arg(4), (size_t)(dims[0] * dims[1] * nc));
                MX("GRwriteimage", GRwriteimage(ri, start, NULL, dims, d.data()) == FAIL);
                MX("GRendaccess", GRendaccess(ri) == FAIL);
                return true;
            }
            ctx.tr((uint64_t)(ix >= 0));
            if (ix < 0) {
                absent = true;
                return true;
            }
            // is the image chunked, and how?  Asked through an id of its own, which is released again: the id the reads go
            // through below is then a fresh one (asking for the chunk description opens the image's element for reading)
            HDF_CHUNK_DEF gcd;
            int32         gfl = HDF_NONE;
            memset(&gcd, 0, sizeof gcd);
            {
                int32 r0 = GRselect(grid, ix);
                if (MX("GRselect", r0 == FAIL))
                    return true;
                if (GRgetchunkinfo(r0, &gcd, &gfl) == FAIL)
                    gfl = HDF_NONE;
                MX("GRendaccess", GRendaccess(r0) == FAIL);
            }
            int32 ri = GRselect(grid, ix);
            if (MX("GRselect", ri == FAIL))
                return true;
            char  nb[256] = "";
            int32 nc = 0, nt = 0, il = 0, dims[2] = {0, 0}, na = 0;
            if (!MX("GRgetiminfo", GRgetiminfo(ri, nb, &nc, &nt, &il, dims, &na) == FAIL)) {
                ctx.tr((uint64_t)nc);
                ctx.tr((uint64_t)nt);
                ctx.trb(dims, 8);
                int32                start[2] = {0, 0};
                {
                    // a chunked image: its first chunk, read as a whole, before anything else has been read through this id
                    HDF_CHUNK_DEF &cd = gcd;
                    int32          fl = gfl, org[2] = {0, 0};
                    if (fl != HDF_NONE) {
                        int32 *cl = (fl & HDF_COMP) ? cd.comp.chunk_lengths : cd.chunk_lengths;
                        if (cl[0] > 0 && cl[1] > 0 && cl[0] <= 4096 && cl[1] <= 4096) {
                            std::vector<uint8_t> cb((size_t)(cl[0] * cl[1] * nc * DFKNTsize(nt)) + 16);
                            if (!MX("GRreadchunk", GRreadchunk(ri, org, cb.data()) == FAIL))
                                ctx.trb(cb.data(), (size_t)(cl[0] * cl[1] * nc * DFKNTsize(nt)));
                            ctx.probe("gr-chunk-read-first");
                        }
                    }
                }
                std::vector<uint8_t> buf((size_t)(dims[0] * dims[1] * nc * DFKNTsize(nt)) + 16);
                intn                 r = GRreadimage(ri, start, NULL, dims, buf.data());
                ctx.tr((uint64_t)r);
                MX("GRreadimage", r == FAIL);
                if (r != FAIL)
                    ctx.trb(buf.data(), (size_t)(dims[0] * dims[1] * nc * DFKNTsize(nt)));
                ctx.tr((uint64_t)na);
                for (int32 a = 0; a < na && a < 4; a++) {
                    char  an[256] = "";
                    int32 at = 0, ac = 0;
                    if (!MX("GRattrinfo", GRattrinfo(ri, a, an, &at, &ac) == FAIL) && ac >= 0 && ac < 4096) {
                        ctx.trb(an, strlen(an));
                        std::vector<uint8_t> ab((size_t)ac * (size_t)DFKNTsize(at) + 8);
                        if (!MX("GRgetattr", GRgetattr(ri, a, ab.data()) == FAIL))
                            ctx.trb(ab.data(), (size_t)ac * (size_t)DFKNTsize(at));
                    }
                }
                int32 lut = GRgetlutid(ri, 0), lnc = 0, lnt = 0, lil = 0, lne = 0;
                if (lut != FAIL && GRgetlutinfo(lut, &lnc, &lnt, &lil, &lne) != FAIL && lne > 0 && lne <= 256 && lnc > 0 && lnc <= 4) {
                    std::vector<uint8_t> pal((size_t)lne * (size_t)lnc * 8 + 8);
                    ctx.tr((uint64_t)lne);
                    if (!MX("GRreadlut", GRreadlut(lut, pal.data()) == FAIL))
                        ctx.trb(pal.data(), (size_t)lne * (size_t)lnc * (size_t)DFKNTsize(lnt));
                }
            }
            MX("GRendaccess", GRendaccess(ri) == FAIL);
            ctx.st.checks++;
            return true;
        }
        if (k == "sdann") { // a label or description on a dataset (the annotation names the dataset's NDG)
            if (skip_sd || !need_sd() || !need_an())
                return skip_sd ? false : true;
            int32 ix = SDnametoindex(sdid, strf("sd%d", modn(o.arg(0), 5)).c_str());
            if (ix < 0)
                return false;
            int32 sds = SDselect(sdid, ix);
            if (MX("SDselect", sds == FAIL))
                return true;
            int32 ref = SDidtoref(sds);
            SDendaccess(sds);
            if (ref <= 0)
                return false;
            int32 an = ANcreate(anid, DFTAG_NDG, (uint16)ref, (o.arg(1) & 1) ? AN_DATA_DESC : AN_DATA_LABEL);
            if (MX("ANcreate", an == FAIL))
                return true;
            std::string txt = strf("sd-annotation-%lld", (long long)o.arg(2));
            MX("ANwriteann", ANwriteann(an, txt.c_str(), (int32)txt.size()) == FAIL);
            MX("ANendaccess", ANendaccess(an) == FAIL);
            return true;
        }
        if (k == "annew" || k == "anread") {
            if (!need_an())
                return true;
            static const ann_type types[] = {AN_FILE_LABEL, AN_FILE_DESC, AN_DATA_LABEL, AN_DATA_DESC};
            if (k == "annew") {
                ann_type t  = types[modn(o.arg(0), 4)];
                int32    an = (t == AN_FILE_LABEL || t == AN_FILE_DESC)
                                  ? ANcreatef(anid, t)
                                  : ANcreate(anid, htag(o.arg(2)), href(o.arg(3)), t);
                if (MX("ANcreate", an == FAIL))
                    return true;
                std::string txt = strf("annotation-%lld-", (long long)o.arg(1));
                for (int j = 0; j < modn(o.arg(1), 40); j++)
                    txt += (char)('A' + (j * 7 + o.arg(1)) % 26);
                MX("ANwriteann", ANwriteann(an, txt.c_str(), (int32)txt.size()) == FAIL);
                MX("ANendaccess", ANendaccess(an) == FAIL);
                return true;
            }
            int32 nfl = 0, nfd = 0, ndl = 0, ndd = 0;
            if (MX("ANfileinfo", ANfileinfo(anid, &nfl, &nfd, &ndl, &ndd) == FAIL))
                return true;
            int32 cnt[4] = {nfl, nfd, ndl, ndd};
            int   t = modn(o.arg(0), 4);
            int32 j = (int32)std::max<int64_t>(0, o.arg(1));
            if (j >= cnt[t]) {
                absent = true;
                return true;
            }
            int32 an = ANselect(anid, j, types[t]);
            if (MX("ANselect", an == FAIL))
                return true;
            int32 len = ANannlen(an);
            ctx.tr((uint64_t)len);
            if (len >= 0) {
                std::vector<char> buf((size_t)len + 2);
                intn              r = ANreadann(an, buf.data(), len + 1);
                MX("ANreadann", r == FAIL);
                if (r != FAIL)
                    ctx.trb(buf.data(), (size_t)len);
            }
            uint16 atag = 0, aref = 0;
            if (ANid2tagref(an, &atag, &aref) != FAIL)
                ctx.tr(((uint64_t)atag << 16) | aref);
            MX("ANendaccess", ANendaccess(an) == FAIL);
            ctx.st.checks++;
            return true;
        }
        return false;
    }
#undef MX
};

// generator helpers shared by the profiles built on Mixed
struct MixedGen {
    // one write op of the given family; `fresh` = only ops that create new objects
    static Op write_op(Rng &r, int family, bool fresh, int maxlen)
    {
        int64_t ds = (int64_t)(r.next() >> 16);
        switch (family) {
            case 0: { // H
                if (r.chance(0.12)) {
                    if (r.chance(0.35))
                        return mkop(0, "hmaxref", {1 + r.sizeish(maxlen), ds});
                    return mkop(0, "hnewput", {(int64_t)r.below(3), 1 + r.sizeish(maxlen), ds});
                }
                int k = fresh ? (int)r.below(2) : (int)r.below(4);
                int64_t lk = k == 1 ? 1 : (int64_t)r.below(2);
                if (k == 0)
                    return mkop(0, "hput", {0, (int64_t)r.below(3), (int64_t)r.below(8), 1 + r.sizeish(maxlen), ds});
                if (k == 1)
                    return mkop(0, "hlink", {1, (int64_t)r.below(3), (int64_t)r.below(8), 1 + r.sizeish(maxlen), ds, r.range(1, 40), r.range(1, 4)});
                if (k == 2)
                    return mkop(0, "happend", {lk, (int64_t)r.below(3), (int64_t)r.below(8), 1 + r.sizeish(maxlen), ds});
                return mkop(0, "hput", {0, (int64_t)r.below(3), (int64_t)r.below(8), 1 + r.sizeish(maxlen), ds});
            }
            case 1: { // V
                int k = fresh ? (int)r.below(2) : (int)r.below(4);
                if (k == 0)
                    return mkop(0, "vsnew", {(int64_t)r.below(6), 1 + r.sizeish(30), (int64_t)r.below(5), ds, r.chance(0.3) ? r.range(1, 200) : 0});
                if (k == 1)
                    return mkop(0, "vgnew", {(int64_t)r.below(6), r.chance(0.2) ? r.range(60, 69) : r.sizeish(10)});
                if (k == 2 && r.chance(0.3))
                    return mkop(0, "vsclass", {(int64_t)r.below(6), (int64_t)r.below(20)});
                if (k == 2)
                    return mkop(0, "vsappend", {(int64_t)r.below(6), 1 + r.sizeish(30), 0, ds});
                return mkop(0, "vgadd", {(int64_t)r.below(6), (int64_t)r.below(3), (int64_t)r.below(8), (int64_t)r.below(3)});
            }
            case 2: { // SD
                int k = fresh ? 0 : (int)r.below(3);
                if (r.chance(0.08))
                    return mkop(0, "sdfillmode", {(int64_t)r.below(2)});
                if (k == 0 && r.chance(0.4))
                    return mkop(0, "sdnew2", {(int64_t)r.below(5), (int64_t)r.below(3), (int64_t)r.below(6), (int64_t)r.below(5), (int64_t)r.below(7), ds, 0, (int64_t)r.below(5)});
                if (k == 0)
                    return mkop(0, "sdnew", {(int64_t)r.below(5), (int64_t)r.below(3), (int64_t)r.below(6), (int64_t)r.below(5), (int64_t)r.below(7), ds, (int64_t)r.below(5)});
                if (k == 1)
                    return mkop(0, "sdwrite", {(int64_t)r.below(5), ds});
                return mkop(0, "sdattr", {(int64_t)r.below(5), (int64_t)r.below(1000), (int64_t)r.below(1000), (int64_t)r.below(3)});
            }
            case 3:
                if (r.chance(0.5))
                    return mkop(0, "grnew2", {(int64_t)r.below(4), (int64_t)r.below(7), (int64_t)r.below(6), (int64_t)r.below(3), ds, (int64_t)r.below(6), (int64_t)r.below(4)});
                return mkop(0, "grnew", {(int64_t)r.below(4), (int64_t)r.below(7), (int64_t)r.below(6), (int64_t)r.below(3), ds});
            default:
                return mkop(0, "annew", {(int64_t)r.below(4), (int64_t)r.below(100000), (int64_t)r.below(3), (int64_t)r.below(8)});
        }
    }
    // read ops covering every object name the workload can create
    static void read_all(std::vector<Op> &ops)
    {
        for (int lk = 0; lk < 4; lk++)
            for (int t = 0; t < 3; t++)
                for (int r = 0; r < 8; r++)
                    ops.push_back(mkop(0, "hread", {lk, t, r}));
        ops.push_back(mkop(0, "hread", {4, 0, 0})); // the element under the largest reference number
        for (int i = 0; i < 6; i++)
            ops.push_back(mkop(0, "vsread", {i}));
        for (int i = 0; i < 6; i++)
            ops.push_back(mkop(0, "vgread", {i}));
        for (int i = 0; i < 5; i++)
            ops.push_back(mkop(0, "sdread", {i}));
        for (int i = 0; i < 4; i++)
            ops.push_back(mkop(0, "grread", {i}));
        for (int t = 0; t < 4; t++)
            for (int j = 0; j < 6; j++)
                ops.push_back(mkop(0, "anread", {t, j}));
        ops.push_back(mkop(0, "end", {}));
    }
};

} // namespace h4
